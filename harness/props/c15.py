"""C15 — displayed text denotes the value, and the re-entry text round-trips.
Theorems: coq/Properties/C15.v (integer text, mixed fractions, '%.{p}g' rounding and text, quantity
text, element-wise arrays/intervals, local re-entry facts).
Tie: Ka expressions of every displayable kind are evaluated by the implementation at precision
p in {0,1,2,6,12,17,30}; the text on execute()'s output stream (command-line and GUI bracket modes) and
stringify_result(value, brackets_for_frac=True) are compared with Model/Display.v evaluated in the Coq VM
(floats enter the model as the exact rational of the double).  Independent oracles: (1) Python's own
'{:.{p}g}'.format(float) against fmt_g on the exact rational for every sampled double (validates the model
of the external formatter), (2) a parser of the displayed text that checks the denotation clauses of the
property directly (integers in full, n/d and w n/d equal to the value, floats with <= p significant digits
within half a unit of the last one, unit words = non-zero base dimensions, element-wise), (3) the re-entry
text is fed back to execute() and must give the same value (floats: within half a unit of the last
displayed digit, plus the final rounding of float())."""
import os
import json, random, re, struct as pystruct, sys
from fractions import Fraction
import common as C

if hasattr(sys, "set_int_max_str_digits"):
    sys.set_int_max_str_digits(0)

ID = "C15"
COQ_TARGETS = ["Properties/C15.vo", "GenFacts/DisplaySrcFacts.vo"]
MODEL_TARGETS = ["Model/Display.vo"]
IMPORTS = "From Ka Require Import Model.Display.\nOpen Scope string_scope.\n"
# long literals are slow to parse in Coq (quadratic): big integers are given in 18-digit chunks, doubles as m * 2^e
EXTRA_DEFS = ("Definition bigZ (l : list Z) : Z := fold_left (fun a c => a * 1000000000000000000 + c)%Z l 0%Z.\n"
              "Definition bigP (l : list Z) : positive := Z.to_pos (bigZ l).\n"
              "Definition dyadic (m e : Z) : Q := if (0 <=? e)%Z then Qmake (m * 2 ^ e) 1 else Qmake m (Z.to_pos (2 ^ (- e))).\n")
P_SET = [1, 2, 6, 12, 17]
P_EXTRA = [0, 30]

SIG_DIMLESS = {"op": "reentry", "kinds": ["qty"], "cond": "dimensionless"}
SIG_INTERVAL = {"op": "display", "kinds": ["interval"], "cond": "float-bound-precision"}
SIG_FRAC_OVERFLOW = {"op": "display", "kinds": ["frac"], "cond": "approximation-overflow"}


# ------------------------------------------------------------------------------------------- worker side
def struct(v):
    from fractions import Fraction as Fr
    import ka.types as T
    if isinstance(v, bool):
        return ["B", str(v)]
    if isinstance(v, int):
        return ["I", str(v)]
    if isinstance(v, Fr):
        return ["F", str(v.numerator), str(v.denominator)]
    if isinstance(v, float):
        return ["X", v.hex()]
    if isinstance(v, T.Quantity):
        return ["Q", struct(v.mag), [str(e) for e in v.qv.v], list(v.qv.names)]
    if isinstance(v, T.Array):
        return ["A", [struct(x) for x in v.contents]]
    if isinstance(v, T.Interval):
        return ["V", struct(v.a), struct(v.b)]
    if isinstance(v, T.Instant):
        dt = v.dt
        off = dt.utcoffset()
        offus = None
        if off is not None:
            offus = (off.days * 86400 + off.seconds) * 10 ** 6 + off.microseconds
        return ["T", dt.year, dt.month, dt.day, dt.hour, dt.minute, dt.second, dt.microsecond, offus]
    if isinstance(v, str):
        return ["S", v]
    if v is None:
        return ["N"]
    return ["O", type(v).__name__, str(v)]


def impl_case(case):
    import io
    import ka.config as KC
    from ka.interpret import execute, stringify_result, ResultBox, reduce_result
    from ka.eval import EvalEnvironment, eval_node
    from ka.tokens import tokenise
    from ka.parse import parse_tokens
    text, p = case["text"], case["p"]
    KC.get(KC.ConfigProperties.PRECISION)     # forces the one-off read of the (absent) config file
    KC.CONFIG["precision"] = p
    r = dict(text=text, p=p, fam=case.get("fam"))
    try:
        v = reduce_result(eval_node(parse_tokens(tokenise(text)), EvalEnvironment()))
    except C.CaseTimeout:
        raise
    except BaseException as x:
        r["raw_error"] = type(x).__name__
        return r
    r["struct"] = struct(v)
    for bf in (0, 1):
        o, e = io.StringIO(), io.StringIO()
        box = ResultBox()
        try:
            st = execute(text, EvalEnvironment(), out=o, errout=e, result_box=box, brackets_for_frac=bool(bf))
            r["disp%d" % bf] = dict(status=st, out=o.getvalue(), err=e.getvalue(), box=struct(box.value))
        except C.CaseTimeout:
            raise
        except BaseException as x:
            r["disp%d" % bf] = dict(escaped=type(x).__name__, out=o.getvalue(), err=e.getvalue())
    try:
        rt = stringify_result(v, brackets_for_frac=True)
    except C.CaseTimeout:
        raise
    except BaseException as x:
        r["reentry_error"] = type(x).__name__
        return r
    r["reentry"] = rt
    o, e = io.StringIO(), io.StringIO()
    box = ResultBox()
    try:
        st = execute(rt, EvalEnvironment(), out=o, errout=e, result_box=box)
        r["re"] = dict(status=st, struct=struct(box.value), err=e.getvalue(), out=o.getvalue())
    except C.CaseTimeout:
        raise
    except BaseException as x:
        r["re"] = dict(escaped=type(x).__name__, err=e.getvalue())
    return r


# ------------------------------------------------------------------------------------------- Coq terms
def big_chunks(n):
    s = str(n)
    s = "0" * ((-len(s)) % 18) + s
    return "[" + ";".join(str(int(s[i:i + 18])) for i in range(0, len(s), 18)) + "]%Z"


def coq_Zbig(n):
    if abs(n) < 10 ** 40:
        return C.coq_Z(n)
    return "(bigZ %s)" % big_chunks(n) if n >= 0 else "(- bigZ %s)%%Z" % big_chunks(-n)


def coq_pos(d):
    assert d > 0
    if d < 10 ** 40:
        return "%d%%positive" % d
    return "(bigP %s)" % big_chunks(d)


def coq_Q(q):
    return "(Qmake %s %s)" % (coq_Zbig(q.numerator), coq_pos(q.denominator))


def fx(h):
    return float.fromhex(h)


def coq_dyadic(x):
    """the exact rational of the finite double x as m * 2^e, m odd"""
    q = Fraction(x)
    n, d = q.numerator, q.denominator
    if n == 0:
        return "(Qmake 0 1)"
    if d > 1:
        return "(dyadic %s %s)" % (C.coq_Z(n), C.coq_Z(-(d.bit_length() - 1)))
    e = (n & -n).bit_length() - 1
    return "(dyadic %s %s)" % (C.coq_Z(n >> e), C.coq_Z(e))


def coq_num(s):
    k = s[0]
    if k == "I":
        return "(NInt %s)" % coq_Zbig(int(s[1]))
    if k == "F":
        return "(NFrac %s)" % coq_Q(Fraction(int(s[1]), int(s[2])))
    if k == "X":
        return "(NFlt %s)" % coq_dyadic(fx(s[1]))
    raise ValueError("not a number: %r" % (s,))


def coq_value(s):
    k = s[0]
    if k in "IFX":
        return "(VNum %s)" % coq_num(s)
    if k == "Q":
        return "(VQty %s [%s])" % (coq_num(s[1]), ";".join(C.coq_Z(int(e)) for e in s[2]))
    if k == "A":
        return "(VArr [%s])" % ";".join(coq_value(x) for x in s[1])
    if k == "V":
        return "(VIvl %s %s)" % (coq_value(s[1]), coq_value(s[2]))
    if k == "S":
        return "(VStr %s)" % C.coq_str(s[1])
    if k == "T":
        tz = "None" if s[8] is None else "(Some %s)" % C.coq_Z(s[8])
        return "(VInst %s %s)" % (" ".join(C.coq_Z(x) for x in s[1:8]), tz)
    raise ValueError("unmodelled value %r" % (s,))


def modellable(s):
    k = s[0]
    if k in "IF":
        return True
    if k == "X":
        f = fx(s[1])
        return f == f and f not in (float("inf"), float("-inf"))
    if k == "Q":
        return s[1][0] in "IFX" and modellable(s[1]) and all(re.fullmatch(r"-?\d+", e) for e in s[2]) and all(abs(int(e)) < 10 ** 200 for e in s[2])
    if k == "A":
        return all(modellable(x) for x in s[1])
    if k == "V":
        return modellable(s[1]) and modellable(s[2])
    if k == "S":
        return "\n" not in s[1] and "\r" not in s[1] and all(ord(c) < 128 for c in s[1])
    if k == "T":
        return True
    return False


def size_bits(s):
    k = s[0]
    if k == "I":
        return len(s[1])
    if k == "F":
        return len(s[1]) + len(s[2])
    if k == "Q":
        return size_bits(s[1])
    if k == "A":
        return max([size_bits(x) for x in s[1]] + [0])
    if k == "V":
        return max(size_bits(s[1]), size_bits(s[2]))
    return 0


# ------------------------------------------------------------------------------------------- spec-side helpers
def exact_of(s):
    """exact rational of a number struct"""
    if s[0] == "I":
        return Fraction(int(s[1]))
    if s[0] == "F":
        return Fraction(int(s[1]), int(s[2]))
    if s[0] == "X":
        return Fraction(fx(s[1]))
    raise ValueError(s)


def ulp(f):
    import math
    return Fraction(math.ulp(f))


FLOAT_TEXT = re.compile(r"(-?)(\d+)(?:\.(\d+))?(?:e([+-]\d{2,}))?\Z")


def float_text_facts(txt):
    """(value, significant digits, decimal exponent of the value) of a '%g'-style text, or None"""
    m = FLOAT_TEXT.match(txt)
    if not m:
        return None
    sign, ip, fp, ex = m.groups()
    fp = fp or ""
    digits = (ip + fp).lstrip("0")
    val = Fraction(int(ip + fp), 10 ** len(fp)) * Fraction(10) ** int(ex or 0)
    if sign:
        val = -val
    if val == 0:
        return (val, 0, None)
    a, e = abs(val), 0
    while a >= 10:
        a /= 10
        e += 1
    while a < 1:
        a *= 10
        e -= 1
    return (val, len(digits), e)


def check_float_text(txt, x, p, slack=Fraction(0)):
    """the float clause: at most max(1,p) significant digits, within half a unit of the last of them"""
    P = max(1, p)
    ft = float_text_facts(txt)
    if ft is None:
        return "not-a-decimal-text"
    val, nd, e = ft
    if x == 0 or e is None:
        return None if (val == 0 and abs(x) <= slack) or val == x else "zero-mismatch"
    if nd > P:
        return "precision"
    if abs(val - x) > Fraction(1, 2) * Fraction(10) ** (e - P + 1) + slack:
        return "rounding"
    return None


def unit_text(dims, names):
    ws = []
    for e, n in zip(dims, names):
        e = int(e)
        if e != 0:
            ws.append(n if e == 1 else "%s^%d" % (n, e))
    return " ".join(ws)


class Bad(Exception):
    def __init__(self, kind, cond):
        self.kind, self.cond = kind, cond


def check_num_leaf(s, txt, p, brackets_ok):
    """stringify-style text of a number"""
    k = s[0]
    if k == "I":
        if txt != s[1]:
            raise Bad("int", "digits")
    elif k == "F":
        t = txt
        if brackets_ok and t.startswith("(") and t.endswith(")"):
            t = t[1:-1]
        m = re.fullmatch(r"(-?\d+)/(\d+)", t)
        if not m or (m.group(1), m.group(2)) != (s[1], s[2]):
            raise Bad("frac", "n/d")
    elif k == "X":
        why = check_float_text(txt, exact_of(s), p)
        if why:
            raise Bad("float", why)
    else:
        raise Bad("other", "not-a-number")


def check_scalar_chunk(s, raw, p, brackets_ok):
    if s[0] == "Q":
        u = unit_text(s[2], s[3])
        if not raw.endswith(" " + u):
            raise Bad("qty", "unit-text")
        check_num_leaf(s[1], raw[:len(raw) - len(u) - 1], p, brackets_ok)
    else:
        check_num_leaf(s, raw, p, brackets_ok)


def parse_elem(t, i):
    """tree of a stringify_result text starting at t[i]: returns (node, next index)"""
    if i >= len(t):
        raise Bad("text", "truncated")
    c = t[i]
    if c == "{":
        items, i = [], i + 1
        if t.startswith("}", i):
            return ("A", items), i + 1
        while True:
            n, i = parse_elem(t, i)
            items.append(n)
            if t.startswith(", ", i):
                i += 2
            elif t.startswith("}", i):
                return ("A", items), i + 1
            else:
                raise Bad("array", "separator")
    if c == "[":
        a, i = parse_elem(t, i + 1)
        if not t.startswith(", ", i):
            raise Bad("interval", "separator")
        b, i = parse_elem(t, i + 2)
        if not t.startswith("]", i):
            raise Bad("interval", "close")
        return ("V", a, b), i + 1
    if c == '"':
        j = i + 1
        while j < len(t):
            if t[j] == "\\" and j + 1 < len(t) and t[j + 1] == '"':
                j += 2
            elif t[j] == '"':
                return ("S", t[i + 1:j]), j + 1
            else:
                j += 1
        raise Bad("str", "unclosed")
    if c == "#":
        j = t.find("#", i + 1)
        if j < 0:
            raise Bad("instant", "unclosed")
        return ("T", t[i + 1:j]), j + 1
    j = i
    while j < len(t) and not t.startswith(", ", j) and t[j] not in "}]":
        j += 1
    return ("N", t[i:j]), j


def iso_of(s):
    y, mo, d, h, mi, sec, us, off = s[1:9]
    t = "%04d-%02d-%02dT%02d:%02d:%02d" % (y, mo, d, h, mi, sec)
    if us:
        t += ".%06d" % us
    if off is not None:
        a = abs(off)
        ss, uu = divmod(a, 10 ** 6)
        t += ("-" if off < 0 else "+") + "%02d:%02d" % (ss // 3600, ss // 60 % 60)
        if ss % 60 or uu:
            t += ":%02d" % (ss % 60)
            if uu:
                t += ".%06d" % uu
    return t


def match_tree(s, node, p, brackets_ok):
    k = s[0]
    if k == "A":
        if node[0] != "A" or len(node[1]) != len(s[1]):
            raise Bad("array", "shape")
        for x, n in zip(s[1], node[1]):
            match_tree(x, n, p, brackets_ok)
    elif k == "V":
        if node[0] != "V":
            raise Bad("interval", "shape")
        for sub, nd in ((s[1], node[1]), (s[2], node[2])):
            try:
                match_tree(sub, nd, p, True)
            except Bad as b:
                # Interval.__str__ prints a float bound with repr(): all the digits, whatever the precision option says
                if b.kind == "float" and sub[0] == "X" and nd[0] == "N" and nd[1] == repr(fx(sub[1])):
                    raise Bad("interval", "float-bound-precision")
                raise
    elif k == "S":
        if node != ("S", s[1]):
            raise Bad("str", "text")
    elif k == "T":
        if node != ("T", iso_of(s)):
            raise Bad("instant", "iso")
    elif k in "IFXQ":
        if node[0] != "N":
            raise Bad("number", "shape")
        check_scalar_chunk(s, node[1], p, brackets_ok)
    else:
        raise Bad("other", "kind")


def check_approx(txt, f, p):
    """the parenthesised decimal approximation of the fraction f (a rounding of float(f))"""
    slack = max(abs(f) / 2 ** 53, Fraction(1, 2 ** 1075))
    if txt in ("0", "-0"):
        return None if abs(f) <= Fraction(1, 2 ** 1075) else "rounding"
    return check_float_text(txt, f, p, slack)


def check_display(s, line, p, bf):
    """Does the displayed line denote the value s?  Raises Bad(kind, cond) when a clause fails."""
    k = s[0]
    if k == "I":
        if line != s[1]:
            raise Bad("int", "digits")
    elif k == "F":
        f = exact_of(s)
        m = re.fullmatch(r"(?:(-?\d+) )?(-?\d+)/(\d+) {5}\((.*)\)", line)
        if not m:
            raise Bad("frac", "shape")
        w, n, d, ap = m.groups()
        n, d = int(n), int(d)
        if w is None:
            if Fraction(n, d) != f or (str(n), str(d)) != (s[1], s[2]) or abs(f) >= 1:
                raise Bad("frac", "n/d")
        else:
            w = int(w)
            from math import gcd
            if not (0 < n < d and gcd(n, d) == 1 and w != 0):
                raise Bad("frac", "mixed-form")
            val = w - Fraction(n, d) if w < 0 else w + Fraction(n, d)
            if val != f:
                raise Bad("frac", "mixed-value")
        why = check_approx(ap, f, p)
        if why:
            raise Bad("frac", "approximation-" + why)
    elif k == "X":
        why = check_float_text(line, exact_of(s), p)
        if why:
            raise Bad("float", why)
    elif k == "Q":
        u = unit_text(s[2], s[3])
        if s[1][0] == "F":
            f = exact_of(s[1])
            tail = "    (%s %s)"
            m = re.fullmatch(r"(.*?) " + re.escape(u) + r" {4}\((.*) " + re.escape(u) + r"\)", line)
            if not m:
                raise Bad("qty", "shape")
            mt, ap = m.groups()
            if bf:
                if not (mt.startswith("(") and mt.endswith(")")):
                    raise Bad("qty", "brackets")
                mt = mt[1:-1]
            m2 = re.fullmatch(r"(?:(-?\d+) )?(-?\d+)/(\d+)", mt)
            if not m2:
                raise Bad("qty", "fraction-shape")
            w, n, d = m2.groups()
            n, d = int(n), int(d)
            if w is None:
                val = Fraction(n, d)
                if (str(n), str(d)) != (s[1][1], s[1][2]):
                    raise Bad("qty", "n/d")
            else:
                w = int(w)
                if not (0 < n < d and w != 0):
                    raise Bad("qty", "mixed-form")
                val = w - Fraction(n, d) if w < 0 else w + Fraction(n, d)
            if val != f:
                raise Bad("qty", "fraction-value")
            why = check_approx(ap, f, p)
            if why:
                raise Bad("qty", "approximation-" + why)
        else:
            if not line.endswith(" " + u):
                raise Bad("qty", "unit-text")
            check_num_leaf(s[1], line[:len(line) - len(u) - 1], p, False)
    elif k == "A" or k == "V":
        node, j = parse_elem(line, 0)
        if j != len(line):
            raise Bad("array" if k == "A" else "interval", "trailing-text")
        match_tree(s, node, p, False)
    elif k == "S":
        if line != s[1]:
            raise Bad("str", "text")
    elif k == "T":
        if line != iso_of(s):
            raise Bad("instant", "iso")
    else:
        raise Bad("other", "kind")


def same_value(a, b, p, path="top"):
    """re-entry comparison: None if b is the same value as a (floats: within the displayed precision),
    else (kind, cond)"""
    ka_, kb = a[0], b[0]
    if ka_ == "X":
        if kb not in "IFX":
            return ("float", "kind-changed")
        x = exact_of(a)
        y = exact_of(b)
        P = max(1, p)
        txt = ("{:.%dg}" % p).format(fx(a[1]))
        ft = float_text_facts(txt)
        if ft is None or ft[2] is None:
            return None if x == y else ("float", "value")
        tol = Fraction(1, 2) * Fraction(10) ** (ft[2] - P + 1)
        if kb == "X":
            tol += ulp(fx(b[1])) / 2
        return None if abs(x - y) <= tol else ("float", "precision")
    if ka_ == "Q":
        dimless = all(int(e) == 0 for e in a[2])
        if kb != "Q":
            return ("qty", "dimensionless" if dimless else "kind-changed")
        if [int(e) for e in a[2]] != [int(e) for e in b[2]]:
            return ("qty", "dimension")
        r = same_value(a[1], b[1], p)
        return None if r is None else ("qty", "magnitude-" + r[1])
    if ka_ != kb:
        return ({"I": "int", "F": "frac", "A": "array", "V": "interval", "S": "str", "T": "instant"}.get(ka_, "other"), "kind-changed")
    if ka_ == "A":
        if len(a[1]) != len(b[1]):
            return ("array", "length")
        for x, y in zip(a[1], b[1]):
            r = same_value(x, y, p)
            if r:
                return r
        return None
    if ka_ == "V":
        r = same_value(a[1], b[1], p) or same_value(a[2], b[2], p)
        if r and b == ["V", ["I", "0"], ["I", "0"]] and a[1][0] in "IFX" and a[2][0] in "IFX":
            # interval(a, b) answers [0, 0] when a > b: the bounds as re-read from their rounded spellings can cross
            lo, hi = reread_bound(a[1], p), reread_bound(a[2], p)
            if lo > hi:
                return ("interval", "bounds-cross-after-rounding")
        return r
    if a != b:
        return ({"I": "int", "F": "frac", "S": "str", "T": "instant"}.get(ka_, "other"), "value")
    return None


def reread_bound(s, p):
    """the value the lexer gives to the re-entry spelling of a number (a spelling with a '.' goes through float())"""
    if s[0] != "X":
        return exact_of(s)
    txt = ("{:.%dg}" % p).format(fx(s[1]))
    return Fraction(float(txt)) if "." in txt else Fraction(txt)


def leaf_kinds(s, acc=None):
    acc = set() if acc is None else acc
    k = s[0]
    if k == "A":
        acc.add("array")
        for x in s[1]:
            leaf_kinds(x, acc)
    elif k == "V":
        acc.add("interval")
        leaf_kinds(s[1], acc)
        leaf_kinds(s[2], acc)
    elif k == "Q":
        acc.add("qty-" + {"I": "int", "F": "frac", "X": "float"}.get(s[1][0], "other") + ("-dimless" if all(int(e) == 0 for e in s[2]) else ""))
    else:
        acc.add({"I": "int", "F": "frac", "X": "float", "S": "str", "T": "instant", "B": "bool"}.get(k, "other"))
    return acc


def has_dimless(s):
    k = s[0]
    if k == "Q":
        return all(int(e) == 0 for e in s[2])
    if k == "A":
        return any(has_dimless(x) for x in s[1])
    if k == "V":
        return has_dimless(s[1]) or has_dimless(s[2])
    return False


def has_overflowing_frac(s):
    k = s[0]
    if k == "F":
        try:
            float(Fraction(int(s[1]), int(s[2])))
            return False
        except OverflowError:
            return True
    if k == "Q":
        return has_overflowing_frac(s[1])
    return False


# ------------------------------------------------------------------------------------------- generators
def int_lit(n):
    return str(n) if n >= 0 else "-%d" % -n


def float_lit(x):
    """a Ka literal (with a '.', so it is read by float()) for the finite double x"""
    r = repr(abs(x))
    if "e" in r:
        m, ex = r.split("e")
        if "." not in m:
            m += ".0"
        r = m + "e" + ex
    elif "." not in r:
        r += ".0"
    return ("-" if x < 0 else "") + r


def bits_double(sign, ex, man):
    return pystruct.unpack(">d", pystruct.pack(">Q", (sign << 63) | (ex << 52) | man))[0]


SPECIAL_DOUBLES = [5e-324, 1e-323, 1e-320, 1.5e-320, 2.2250738585072014e-308, 2.225073858507201e-308, 1e-308, 1e-300,
                   1.7976931348623157e308, 1e308, 1.5e308, 1e300, 9007199254740993.0, 4503599627370495.5, 4503599627370497.5,
                   123456789012345.67, 999999.5, 999999.4999999999, 99999.95, 0.999999500000001, 0.9999995, 9.9999995e-05,
                   9.999995e-05, 0.00009999995, 0.0001, 0.00011, 1e-05, 1.5e-05, 123456.5, 1234567.5, 12345678.9, 0.1, 0.2, 0.3,
                   0.1 + 0.2, 1 / 3, 2 / 3, 0.5, 0.25, 0.125, 0.0625, 2.5, 3.5, 1.5, 0.15, 0.25000000000000006, 0.35, 0.45, 0.55,
                   1.005, 2.675, 1e15 + 0.5, 1e16, 1e17, 123456789.5, 1e21, 1e22, 1e23, 3.141592653589793, 2.718281828459045,
                   6.02214076e23, 1.602176634e-19, 6.62607015e-34, 1.7976931348623157e308 / 3, 0.30000000000000004,
                   9.5, 95.0, 0.95, 0.095, 99.5, 9.95, 0.995, 8.5, 85.5, 1e-4 * 0.99999995, 12.5, 1.25, 0.0125]


def rand_double(rng):
    fam = rng.randrange(9)
    if fam == 0:
        return bits_double(0, rng.randrange(1, 2047), rng.getrandbits(52))
    if fam == 1:
        return bits_double(0, 0, rng.getrandbits(rng.choice([1, 4, 20, 52])) or 1)
    if fam == 2:
        return float(round(rng.uniform(0, 10), rng.randrange(0, 8))) * 10.0 ** rng.randint(-12, 12) or 0.5
    if fam == 3:
        k = rng.randint(-12, 15)
        return 10.0 ** k * (1 + rng.choice([-1, 1]) * 10.0 ** -rng.randint(1, 17))
    if fam == 4:
        return (2 * rng.randrange(0, 5000) + 1) / 2.0 ** rng.randint(1, 12)
    if fam == 5:
        return float("%d.%016de%d" % (rng.randrange(1, 10), rng.randrange(10 ** 16), rng.randint(-30, 15)))
    if fam == 6:
        return rng.randrange(2 ** 40, 2 ** 52) + rng.choice([0.5, 0.25, 0.75])
    if fam == 7:
        d = rng.randrange(1, 10 ** rng.randint(1, 7))
        return (d + 0.5) / 10.0 ** rng.randint(0, 9)
    return rng.choice(SPECIAL_DOUBLES)


def gen_int(rng, big_ok=False):
    L = rng.choice([1, 1, 2, 3, 6, 7, 10, 19, 20, 21, 40, 100, 309])
    n = rng.randrange(10 ** (L - 1) if L > 1 else 0, 10 ** L)
    if rng.random() < 0.35:
        n = -n
    return n


def gen_frac(rng):
    d = rng.choice([2, 3, 4, 7, 8, 10, 12, 1000, 97, rng.randrange(2, 10 ** rng.choice([2, 6, 18, 30]))])
    n = rng.choice([1, rng.randrange(1, d), rng.randrange(1, 10 * d + 1), rng.randrange(1, 10 ** rng.choice([3, 12, 25, 60]))])
    if rng.random() < 0.4:
        n = -n
    return n, d


def frac_lit(n, d):
    return "(%s/%d)" % (int_lit(n), d)


def num_lit(rng, kinds="ifx"):
    k = rng.choice(kinds)
    if k == "i":
        return int_lit(gen_int(rng))
    if k == "f":
        return frac_lit(*gen_frac(rng))
    x = rand_double(rng)
    if rng.random() < 0.4:
        x = -x
    return float_lit(x)


UNITS = ["m", "kg", "s", "A", "K", "mol", "cd", "eur", "m s^-1", "m s^-2", "kg m^2 s^-2", "N", "J", "W", "Pa", "Hz", "V", "C", "ohm",
         "m^2", "m^3", "s^-1", "kg^2 m^-3", "A mol cd", "kg m^2 s^-3 A^-1", "m^-1", "K^4", "eur kg^-1", "km", "cm", "g", "h", "min",
         "mm^2", "l", "m|s", "kg m|s^2", "N m", "J|K", "m^12 s^-7", "cd^-1 mol^2"]
DIMLESS = ["rad", "m^0", "byte", "dozen", "bit", "deg", "m|m"]


def gen_qty(rng, dimless_ok=True):
    if dimless_ok and rng.random() < 0.12:
        u = rng.choice(DIMLESS)
    else:
        u = rng.choice(UNITS)
    k = rng.choice("iiffxx")
    if k == "i":
        n = gen_int(rng)
        m = ("(%s)" % int_lit(n)) if n < 0 else str(n)
    elif k == "f":
        m = frac_lit(*gen_frac(rng))
    else:
        x = rand_double(rng)
        if rng.random() < 0.3:
            x = -x
        m = float_lit(x)
        if x < 0:
            m = "(%s)" % m
    return "%s %s" % (m, u)


STR_ALPHA = "abcdefghijklmnopqrstuvwxyzABCXYZ0123456789     ,.;:!?#{}[]()+-*/^%=<>|_'~@&$"


def gen_str(rng):
    r = rng.random()
    if r < 0.08:
        return '""'
    if r < 0.2:
        body = rng.choice(['a\\"b', "a\\b", "\\\\", 'say \\"hi\\"', "tab\\t", "\\", "c:\\dir\\", 'x\\"'])
        return '"%s"' % body
    if r < 0.27:
        return '"%s"' % rng.choice(["\u03bc\u20ac", "caf\u00e9", "\u00b1 2", "na\u00efve \u2014 ok"])
    return '"%s"' % "".join(rng.choice(STR_ALPHA) for _ in range(rng.randrange(1, 14)))


def gen_instant(rng):
    y, mo = rng.choice([1, 99, 1600, 1970, 1999, 2000, 2024, 2038, 9999, rng.randrange(1, 10000)]), rng.randrange(1, 13)
    d = rng.randrange(1, 29)
    r = rng.random()
    if r < 0.07:
        return "#%04d#" % y
    if r < 0.14:
        return "#%04d-%02d#" % (y, mo)
    if r < 0.3:
        return "#%04d-%02d-%02d#" % (y, mo, d)
    h, mi, s = rng.randrange(24), rng.randrange(60), rng.randrange(60)
    t = "%04d-%02d-%02dT%02d:%02d" % (y, mo, d, h, mi)
    if rng.random() < 0.8:
        t += ":%02d" % s
        if rng.random() < 0.5:
            t += "." + rng.choice(["%06d" % rng.randrange(10 ** 6), "%03d" % rng.randrange(1000), "5", "000001", "999999"])
    if rng.random() < 0.35 and 1 < y < 9999:
        t += rng.choice(["+00:00", "-05:30", "+02:00", "+14:00", "-12:00", "+01:00:30", "-00:00:01", "+05:45", "+01:02:03.000004"])
    return "#%s#" % t


def gen_interval(rng):
    r = rng.random()
    if r < 0.2:
        return rng.choice(["ln([1,8])", "sqrt([2,3])", "[1,2]/3", "[0.1,0.2]*3", "ln([2,3])", "sqrt([1/4, 2])", "[1,2]^0.5",
                           "sin([0.1,0.2])", "log([2,1000])", "[1,7]/7", "[3,4]*(1/3)", "ln([1/2, 123456789.5])"])
    kinds = rng.choice(["ii", "ff", "xx", "ix", "fx", "if", "ifx"])
    a, b = num_lit(rng, kinds), num_lit(rng, kinds)
    return "[%s, %s]" % (a, b)


def gen_scalar(rng):
    r = rng.random()
    if r < 0.18:
        return int_lit(gen_int(rng))
    if r < 0.36:
        return frac_lit(*gen_frac(rng))
    if r < 0.56:
        return num_lit(rng, "x")
    if r < 0.8:
        return gen_qty(rng)
    if r < 0.9:
        return gen_str(rng)
    return gen_instant(rng)


def gen_array(rng, depth):
    n = rng.choice([0, 1, 1, 2, 2, 3, 4])
    items = []
    for _ in range(n):
        r = rng.random()
        if depth > 1 and r < 0.3:
            items.append(gen_array(rng, depth - 1))
        elif r < 0.42:
            items.append(gen_interval(rng))
        else:
            items.append(gen_scalar(rng))
    return "{%s}" % ", ".join(items)


FIXED = [
    "3", "-3", "0", "7/2", "-7/2", "1/3", "-1/3", "22/7", "-22/7", "1.5", "-1.5", "0.1+0.2", "2^0.5", "pi", "1e-320", "1.5e-320 kg",
    "3 m", "3 rad", "1.5 rad", "(1/2) rad", "{3 rad}", "[1,2]", "{(1/2) rad, 2 m}", "(1/2) m", "(-1/2) m", "(-7/2) m s^-2", "(7/2) kg m^2 s^-3 A^-1",
    "1.5 kg m", "1.23456789 m", "(0.1+0.2) m", "sqrt(2) m", "1 g", "1 mm^2", "3 deg", "1 byte", "1 dozen", "3 N", "-3 m", "2 kg^2 m^-3",
    "{1, 1/2, 2.5}", "{{1,2},{3 m, (1/2) s}}", "{}", "{{}}", "{{{1/2}}}", "{1, {2, {3, {4}}}}", "{[1,2], [1/2, 0.7]}", '{"a", #2020-01-01#}',
    "ln([1,8])", "sqrt([2,3])", "[1/2, 3/4]", "[0.09999999, 1/10]", "[1/3, 0.33333333334]", "[-7/2, 1e-5*1.5]", "[0.1, 0.7]", "[-3/2, 2.5]", "[1/3, 123456789.5]", "[1234567.5, 12345678.25]",
    '"abc"', '""', '"a b  c"', '"a\\"b"', '"a\\\\b"', '"a\\b"', '"say \\"hi\\""', '"{1, 2}"', '"#"',
    "#2020-01-01#", "#2020#", "#2020-02#", "#2020-01-01T10:20:30.123456#", "#2020-01-01T10:20:30+02:00#", "#2020-01-01T00:00:00-05:30#",
    "#2020-01-01T10:00:00.5+01:00:30#", "#0001-01-01#", "#9999-12-31T23:59:59.999999#",
    "10^400/3", "-10^400/3", "(10^400/3) m", "{10^400/3}", "[10^400/3, 10^401]", "1/10^400", "-1/10^400", "(1/10^400) s", "(10^309+1)/7",
    "1e308/3", "1.5e308", "1.7976931348623157e308", "1e16*1.0", "sqrt(2)*1e15", "sqrt(2)*1e16", "1234567.5", "999999.5", "0.00001234",
    "9.9999995e-05", "0.99999996", "123456789.5", "1e-5", "1.0e-5", "1.0e-7 m", "2.5e-7", "5!", "C(5,2)", "{3!, C(6,3)}", "1==1", "true", "false",
    "{{3!}}", "{{3!, 4}, {1}}", "{{C(4,2), 1}, {2}}", "{3!, {4!}}", "{{{5!}}}", "{{C(n,k) : k in 0..n} : n in 0..3}", "{[0.1+0.2, 1]}", "{{[0.1+0.2, 1]}}",
    "{x ± 0.1 : x in {0.7, 1}}", "{0.1+0.2, {0.1+0.2}}", "{(1/3) m, {(1/3) m}}", "{#2020-01-31T00:00:00+02:00#}", "floor(#2020-01-31T10:00:00+02:00#)",
    "1.0e-320", "4.9e-324", "2.2250738585072014e-308", "12345678901234567890123", "-12345678901234567890123/1000",
]


def gen_cases(rng, tier):
    n_rand = 1400 if tier == "quick" else 30000
    cases = []
    for t in FIXED:
        for p in P_SET:
            cases.append(dict(text=t, p=p, fam="fixed"))
        for p in P_EXTRA:
            cases.append(dict(text=t, p=p, fam="fixed"))
    for x in SPECIAL_DOUBLES:
        for p in P_SET + P_EXTRA:
            cases.append(dict(text=float_lit(x), p=p, fam="float"))
            cases.append(dict(text=float_lit(-x), p=p, fam="float"))
    for _ in range(n_rand):
        r = rng.random()
        if r < 0.10:
            t, fam = int_lit(gen_int(rng)), "int"
        elif r < 0.22:
            t, fam = frac_lit(*gen_frac(rng)), "frac"
        elif r < 0.45:
            x = rand_double(rng)
            t, fam = float_lit(-x if rng.random() < 0.4 else x), "float"
        elif r < 0.62:
            t, fam = gen_qty(rng), "qty"
        elif r < 0.78:
            t, fam = gen_array(rng, 3), "array"
        elif r < 0.88:
            t, fam = gen_interval(rng), "interval"
        elif r < 0.94:
            t, fam = gen_str(rng), "str"
        else:
            t, fam = gen_instant(rng), "instant"
        p = rng.choice(P_SET + P_SET + P_SET + P_EXTRA)
        cases.append(dict(text=t, p=p, fam=fam))
    # very large integers (the digit limit was lifted) and fractions of them: few, they are slow in the Coq VM
    n_big = 3 if tier == "quick" else 12
    for i in range(n_big):
        L = [5000, 1000, 4301, 2000, 3000][i % 5]
        n = rng.randrange(10 ** (L - 1), 10 ** L)
        cases.append(dict(text=int_lit(n if i % 2 == 0 else -n), p=6, fam="bigint"))
    cases.append(dict(text="10^5000", p=6, fam="bigint"))
    cases.append(dict(text="-10^5000+1", p=17, fam="bigint"))
    cases.append(dict(text="(10^1000+1)/(10^990+7)", p=6, fam="bigfrac"))
    cases.append(dict(text="(10^600+1)/3", p=12, fam="bigfrac"))
    cases.append(dict(text="{10^1000, (10^1000+1) m}", p=6, fam="bigint"))
    for pp in (0, 1, 17):          # fractions beyond the float range inside every container, at unusual precisions
        cases.append(dict(text="((10^400+1)/3) m", p=pp, fam="bigfrac"))
        cases.append(dict(text="{(10^400+1)/3, 1/3}", p=pp, fam="bigfrac"))
        cases.append(dict(text="[(10^400+1)/3, (10^400+2)/3]", p=pp, fam="bigfrac"))
        cases.append(dict(text="-(10^400+1)/7", p=pp, fam="bigfrac"))
    return cases


def gen_fmt_cases(rng, tier):
    """(kind, p, Fraction): kind 0 = a double for fmt_g, kind 1 = a fraction for approx_text"""
    n = 1500 if tier == "quick" else 40000
    out = []
    for x in SPECIAL_DOUBLES:
        for p in P_SET + P_EXTRA + [3, 5, 16, 20]:
            out.append((0, p, x))
            out.append((0, p, -x))
    for _ in range(n):
        x = rand_double(rng)
        if rng.random() < 0.3:
            x = -x
        out.append((0, rng.choice(P_SET + P_SET + P_EXTRA + [3, 4, 5, 9, 15, 16, 18, 25]), x))
    fr = [Fraction(10 ** 400, 3), Fraction(-10 ** 400, 3), Fraction(1, 10 ** 400), Fraction(-1, 10 ** 400), Fraction(2 ** 1024 - 2 ** 970, 1) + Fraction(1, 3),
          Fraction(2 ** 1024 - 2 ** 970 - 1, 1) - Fraction(1, 3), Fraction(1, 2 ** 1075), Fraction(1, 2 ** 1075) + Fraction(1, 2 ** 1200), Fraction(3, 2 ** 1075),
          Fraction(1, 3), Fraction(2, 3), Fraction(-7, 2), Fraction(1, 1000), Fraction(10 ** 309, 7), Fraction(10 ** 308, 7)]
    for f in fr:
        for p in P_SET + P_EXTRA:
            out.append((1, p, f))
    for _ in range(n // 3):
        a = rng.randrange(1, 10 ** rng.choice([1, 3, 10, 30, 100, 320, 400]))
        b = rng.randrange(2, 10 ** rng.choice([1, 3, 10, 30, 100, 320, 400]))
        f = Fraction(a if rng.random() < 0.7 else -a, b)
        if f.denominator > 1:
            out.append((1, rng.choice(P_SET + P_EXTRA), f))
    return out


def py_fmt(kind, p, v):
    """Python's own formatter (kind 0: the double; kind 1: float(Fraction), falling back to Decimal division
    — precisionify_frac's rule — for a fraction beyond the float range)"""
    if kind == 0:
        return ("{:.%dg}" % p).format(v)
    try:
        return ("{:.%dg}" % p).format(float(v))
    except OverflowError:
        from decimal import Decimal
        return ("{:.%dg}" % p).format(Decimal(v.numerator) / Decimal(v.denominator))


# ------------------------------------------------------------------------------------------- run
def kind_name(s):
    return {"I": "int", "F": "frac", "X": "float", "Q": "qty", "A": "array", "V": "interval", "S": "str", "T": "instant",
            "B": "bool", "N": "none", "O": "other"}[s[0]]


_REENTRY_DRIVER = r"""
import sys, json, io
sys.path.insert(0, sys.argv[1])
import common as C
from ka.interpret import execute, stringify_result, ResultBox
from ka.eval import EvalEnvironment
out = []
class Box:
    value = None
for t in json.loads(sys.argv[2]):
    r = dict(text=t)
    try:
        o, e = io.StringIO(), io.StringIO(); box = ResultBox(); abox = Box()
        st = execute(t, EvalEnvironment(), out=o, errout=e, result_box=box, assigned_box=abox)
        r.update(status=st, shown=o.getvalue()[:200], assigned=abox.value)
        if st == 0:
            r["value"] = C.enc_value(box.value)
            rt = stringify_result(box.value, brackets_for_frac=True)
            r["reentry"] = rt
            o2, e2 = io.StringIO(), io.StringIO(); box2 = ResultBox()
            st2 = execute(rt, EvalEnvironment(), out=o2, errout=e2, result_box=box2)
            r.update(re_status=st2, re_value=C.enc_value(box2.value) if st2 == 0 else None, re_err=e2.getvalue()[:120])
            # what the GUI offers for the input line: the assigned variable if the input ends in an assignment, else the re-entry text
            if abox.value is not None:
                env = EvalEnvironment(); o3, e3 = io.StringIO(), io.StringIO(); execute(t, env, out=o3, errout=e3)
                o4, e4 = io.StringIO(), io.StringIO(); box4 = ResultBox()
                st4 = execute(str(abox.value), env, out=o4, errout=e4, result_box=box4)
                r.update(as_status=st4, as_value=C.enc_value(box4.value) if st4 == 0 else None)
    except BaseException as x:
        r["escaped"] = type(x).__name__ + ": " + str(x)[:80]
    out.append(r)
print("\n@@R@@" + json.dumps(out))
"""


def reentry_under_configs(ctx):
    """exact values (no float rounding involved) displayed and re-entered in fresh interpreters under other configuration files:
    the re-entry text must evaluate back to the value, whatever the base currency is called and whatever the precision is;
    and what execute() reports as the assigned variable must read as the displayed value"""
    import subprocess, json as _json, tempfile as _tf
    rep = ctx["report"]
    texts = ["5 usd", "{5 usd}", "5 usd^2", "3 eur", "(7/2) gbp", "{1 eur, 2 usd}", "[1 eur, 2 eur]", "5 m", "(7/2) m s^-2", "7/2", "{1/3, 2}", "10^30", "#2020-01-31T00:00:00+02:00#",
             "x = 2; x^2", "x = 3", "x = 2; y = x + 1", "x = 20!; x", "a = 1; a + 1; b = 5", "5!", "{{3!}}"]
    harness = os.path.dirname(os.path.dirname(os.path.abspath(__file__)))
    root = _tf.mkdtemp(prefix="c15cfg-", dir=ctx["rundir"])
    # a float shown at precision p re-enters with p significant digits: the comparison allows exactly that much
    for tag, lines, tol in [("default", None, 1e-5), ("base-currency = USD", ["base-currency = USD"], 1e-5), ("base-currency = usd", ["base-currency = usd"], 1e-5),
                            ("base-currency = Gbp", ["base-currency = Gbp"], 1e-5), ("precision = 0", ["precision = 0"], 0.5), ("precision = 30", ["precision = 30"], 1e-12),
                            ("base-currency = nosuch", ["base-currency = nosuch"], 1e-5)]:
        home = os.path.join(root, re.sub(r"\W+", "_", tag))
        os.makedirs(os.path.join(home, ".config", "ka"))
        if lines is not None:
            open(os.path.join(home, ".config", "ka", "config"), "w").write("\n".join(lines) + "\n")
        env = {k: v for k, v in os.environ.items() if not k.startswith(("XDG_", "PYTHON"))}
        env.update(HOME=home, PYTHONPATH=C.SRC, PYTHONHASHSEED="0", PYTHONDONTWRITEBYTECODE="1", KA_REPO=C.REPO)
        try:
            p = subprocess.run(["/venv/bin/python", "-c", _REENTRY_DRIVER, harness, _json.dumps(texts)], env=env, cwd=home, stdout=subprocess.PIPE, stderr=subprocess.PIPE, timeout=300)
            so = p.stdout.decode("utf-8", "replace")
            res = _json.loads(so[so.rfind("@@R@@") + 5:]) if "@@R@@" in so else None
        except Exception:
            res = None
        if res is None:
            rep.violation(dict(op="start-up", kinds=["config"], cond=tag), "C15: with the configuration %r the interpreter does not start" % tag, dict(config=tag), found_input=True)
            continue
        for r in res:
            why = None
            if r.get("escaped"):
                why = "escapes: %s" % r["escaped"]
            elif r.get("status") == 0 and (r.get("re_status") != 0 or not C.enc_close(r.get("value"), r.get("re_value"), tol)):
                why = "displays %r; its re-entry text %r gives %s (%s), not the value %s" % ((r.get("shown") or "").strip()[:60], r.get("reentry"), r.get("re_value"), (r.get("re_err") or "").strip()[:60], r.get("value"))
            elif r.get("status") == 0 and r.get("assigned") is not None and not C.enc_close(r.get("value"), r.get("as_value"), 1e-15):
                why = "displays %r and reports the variable %r for re-entry, which reads as %s, not %s" % ((r.get("shown") or "").strip()[:60], r.get("assigned"), r.get("as_value"), r.get("value"))
            if why:
                rep.violation(dict(op="reentry", kinds=["config"], cond=tag if "escapes" not in why else "escaped"),
                              "C15 fails (%s): %s %s" % (tag, r["text"], why), dict(text=r["text"], config=tag, observed=r))


def _million_digits(text):
    import io, hashlib
    from ka.interpret import execute
    from ka.eval import EvalEnvironment
    o, e = io.StringIO(), io.StringIO()
    try:
        st = execute(text, EvalEnvironment(), out=o, errout=e)
    except C.CaseTimeout:
        raise
    except BaseException as x:
        return dict(text=text, escaped=type(x).__name__)
    out = o.getvalue()
    return dict(text=text, status=st, n=len(out.strip()), head=out[:12], tail=out.strip()[-12:], err=e.getvalue()[:100])


def million_digits(ctx):
    """'integers print in full', beyond a million digits too (what is checked: the length and both ends of the text)"""
    rep = ctx["report"]
    want = {"10^1100000": (1100001, "100000000000", "000000000000"), "10^1100000 + 7": (1100001, "100000000000", "000000000007"),
            "-(10^1000001)": (1000003, "-10000000000", "000000000000")}
    # a fraction beyond 10^999999: the mixed number in full and an approximation with a seven-digit exponent (/repo f5c3ea0)
    for o in C.run_impl(_million_digits, ["(10^1000001+1)/3"], ctx["rundir"], limit=600.0, chunksize=1):
        if o.get("hung") or o.get("escaped") or o.get("status") != 0 or not (o.get("tail") or "").endswith("e+1000000)") or o.get("head") != "333333333333":
            rep.violation(dict(op="display", kinds=["frac"], cond="beyond-10^999999"),
                          "C15 fails: (10^1000001+1)/3 is not displayed (%s)" % ({k: v for k, v in o.items() if k != "text"},), dict(text="(10^1000001+1)/3", observed=o))
    for o in C.run_impl(_million_digits, list(want), ctx["rundir"], limit=300.0, chunksize=1):
        n, head, tail = want[o["text"]] if "text" in o else (None, None, None)
        if o.get("hung") or o.get("escaped") or o.get("status") != 0 or o.get("n") != n or o.get("head") != head or o.get("tail") != tail:
            rep.violation(dict(op="display", kinds=["int"], cond="more-than-a-million-digits"),
                          "C15 fails: %s is not printed in full (%s)" % (o.get("text"), {k: v for k, v in o.items() if k != "text"}), dict(text=o.get("text"), observed=o))


def impl_long_array(text):
    """a long array is displayed and offered for re-entry element by element, like a short one"""
    import io
    import ka.interpret as I
    from ka.eval import EvalEnvironment
    from ka.types import Array

    class Box:
        value = None
    box, o, e = Box(), io.StringIO(), io.StringIO()
    try:
        st = I.execute(text, EvalEnvironment(), out=o, errout=e, result_box=box)
        if st != 0 or not isinstance(box.value, Array):
            return dict(text=text, status=st, err=e.getvalue()[:200], skipped=True)
        shown = o.getvalue()
        each = [I.stringify_result(x) for x in box.value.contents]
        reentry = I.stringify_result(box.value, brackets_for_frac=True)
        each_re = [I.stringify_result(x, brackets_for_frac=True) for x in box.value.contents]
        short = I.stringify_result(Array(list(box.value.contents[:7])), brackets_for_frac=True)
        first_bad = next((i for i, (a, b) in enumerate(zip(shown.strip()[1:-1].split(", "), each)) if a != b), None)
        return dict(text=text, status=0, n=len(each), display_ok=shown == "{" + ", ".join(each) + "}\n", reentry_ok=reentry == "{" + ", ".join(each_re) + "}",
                    short_ok=short == "{" + ", ".join(each_re[:7]) + "}", first_bad=first_bad,
                    shown=(shown.strip()[1:-1].split(", ")[first_bad] if first_bad is not None else shown[:60]), alone=(each[first_bad] if first_bad is not None else None))
    except C.CaseTimeout:
        raise
    except BaseException as x:
        return dict(text=text, escaped=type(x).__name__, msg=str(x)[:160])


def long_array_lane(ctx):
    rep = ctx["report"]
    texts = ["{sqrt(x) : x in 1..%d}" % n for n in (999, 1001, 1500, 4000)] + ["{x * 0.1 : x in 1..1200}", "{x / 3 : x in 1..1100}", "{x m : x in 1..1100}",
             "{(x / 7) s : x in 1..1050}", "{sin(x) kg : x in 1..1030}", "{x + 0.5 : x in 1..2000}", "1..5000", "{1/x : x in 1..1300}", "{10^20 + x : x in 1..1100}",
             "{[x, x + 0.25] : x in 1..1010}", "{{x, x/2} : x in 1..1005}", "{ln(x) : x in 1..1024}", "{x! : x in 1..1001}"]
    for o in C.run_impl(impl_long_array, texts, ctx["rundir"], limit=120.0, chunksize=1):
        t = o.get("text")
        if o.get("hung") or o.get("skipped") or t is None:
            continue
        if o.get("escaped"):
            rep.violation(dict(kind="long-array", why="escaped"), "C15 fails: displaying `%s` or building its re-entry text raises %s (%s)" % (t, o["escaped"], o.get("msg")),
                          dict(text=t, outcome="escaped " + o["escaped"], message=o.get("msg")))
        elif not (o["display_ok"] and o["reentry_ok"] and o["short_ok"]):
            rep.violation(dict(kind="long-array", why="elementwise"),
                          "C15 fails: `%s` (%d elements) is not displayed / offered for re-entry element by element: element %s is shown as %r, alone it is %r"
                          % (t, o["n"], o.get("first_bad"), o.get("shown"), o.get("alone")),
                          dict(text=t, elements=o["n"], first_bad=o.get("first_bad"), shown=o.get("shown"), alone=o.get("alone"), display_ok=o["display_ok"], reentry_ok=o["reentry_ok"]))


def run(ctx):
    long_array_lane(ctx)
    reentry_under_configs(ctx)
    million_digits(ctx)
    rep, tier, seed = ctx["report"], ctx["tier"], ctx["seed"]
    rng = random.Random(seed * 7919 + 15)
    cases = gen_cases(rng, tier)
    fmt_cases = gen_fmt_cases(rng, tier)
    if ctx.get("replay"):
        r = json.load(open(ctx["replay"]))
        items = [r["replay"]] + r.get("more", [])
        cases = [dict(text=x["text"], p=x["p"], fam="replay") for x in items if isinstance(x, dict) and "text" in x]
        fmt_cases = [(x["fmt_kind"], x["p"], fx(x["hex"]) if x["fmt_kind"] == 0 else Fraction(x["frac"]))
                     for x in items if isinstance(x, dict) and "fmt_kind" in x]
    seen, uniq = set(), []
    for c in cases:
        key = (c["text"], c["p"])
        if key not in seen:
            seen.add(key)
            uniq.append(c)
    cases = uniq
    import time
    t0 = time.time()
    obs = C.run_impl(impl_case, cases, ctx["rundir"], limit=20.0)
    C.log("c15: %d cases on the implementation in %.1fs" % (len(cases), time.time() - t0))

    # ---- model texts
    # three lanes by the size of the numbers (long output strings overflow coqc's stack when too many share a file)
    lanes = {"m": ([], {}), "b": ([], {}), "h": ([], {})}

    def want(mode, p, s):
        term = "(%d%%nat, %s, %s)" % (mode, C.coq_Z(p), coq_value(s))
        sz = size_bits(s)
        lane = "h" if sz > 700 else ("b" if sz > 100 else "m")
        terms, index = lanes[lane]
        if term not in index:
            index[term] = len(terms)
            terms.append(term)
        return (lane, index[term])

    refs = []
    for c, o in zip(cases, obs):
        s = o.get("struct") if isinstance(o, dict) else None
        if not s or not modellable(s):
            refs.append(None)
            continue
        r = dict(d0=want(0, c["p"], s), re=want(2, c["p"], s))
        if s[0] == "Q" and s[1][0] == "F":
            r["d1"] = want(1, c["p"], s)
        refs.append(r)
    show = ("fun c => match c with (O, p, v) => display p false v | (S O, p, v) => display p true v "
            "| (_, p, v) => reentry_text p v end")
    mout = fout = None
    if ctx["model_ok"]:
        from concurrent.futures import ThreadPoolExecutor
        fterms = ["(%d%%nat, %s, %s)" % (k, C.coq_Z(p), coq_dyadic(v) if k == 0 else coq_Q(v)) for k, p, v in fmt_cases]
        with ThreadPoolExecutor(4) as ex:      # the four lanes overlap (the heavy one is a few long coqc runs)
            futs = {lane: ex.submit(C.run_model, ctx["rundir"], "c15" + lane, IMPORTS, show, lanes[lane][0], shard,
                                    EXTRA_DEFS, "nat * Z * value")
                    for lane, shard in (("h", 2), ("b", 12), ("m", 170))}
            ffut = ex.submit(C.run_model, ctx["rundir"], "c15f", IMPORTS,
                             "fun c => match c with (O, p, q) => fmt_g p q | (_, p, q) => approx_text p q end",
                             fterms, 120, EXTRA_DEFS, "nat * Z * Q")
            mout = {lane: f.result() for lane, f in futs.items()}
            fout = ffut.result()
    n_model = sum(len(v[0]) for v in lanes.values())
    C.log("c15: model texts (%s + %d formatter cases) after %.1fs" % ({k: len(v[0]) for k, v in lanes.items()}, len(fmt_cases), time.time() - t0))

    def model_text(ref):
        if ref is None or mout is None:
            return None
        return mout[ref[0]][ref[1]]

    # ---- oracle 1: the external formatter
    fmt_bad = 0
    fmt_hist = {"exp-form": 0, "plain": 0, "approx": 0}
    for i, (k, p, v) in enumerate(fmt_cases):
        want_t = py_fmt(k, p, v)
        if k == 1:
            fmt_hist["approx"] += 1
        else:
            fmt_hist["exp-form" if "e" in want_t else "plain"] += 1
        # the numeric clause on Python's own output (independent of the model)
        if k == 0 and v != 0:
            why = check_float_text(want_t, Fraction(v), p)
            if why:
                fmt_bad += 1
                rep.violation(dict(op="fmt_g", kinds=["float"], cond="python-format-" + why),
                              "'{:.%dg}'.format(%r) = %r breaks the float clause (%s)" % (p, v, want_t, why),
                              dict(fmt_kind=0, p=p, hex=float(v).hex()))
        if fout is not None and fout[i] != want_t:
            fmt_bad += 1
            rep.violation(dict(op="fmt_g" if k == 0 else "approx_text", kinds=["float" if k == 0 else "frac"], cond="model-vs-python"),
                          "model %s disagrees with Python's formatter at p=%d on %s: model %r, Python %r"
                          % ("fmt_g" if k == 0 else "approx_text", p, (float(v).hex() if k == 0 else str(v)[:80]), fout[i], want_t),
                          dict(fmt_kind=k, p=p, hex=float(v).hex() if k == 0 else None, frac=str(v) if k == 1 else None,
                               model=fout[i], python=want_t), found_input=False)

    # ---- the implementation against the model and against the property's own clauses
    hist, forms, nontrivial, samples = {}, {}, set(), []
    skipped, disagreements, reentry_checked, denote_checked = 0, 0, 0, 0
    for ci, (c, o, ref) in enumerate(zip(cases, obs, refs)):
        text, p = c["text"], c["p"]
        rp = dict(text=text, p=p)
        if not isinstance(o, dict) or o.get("hung"):
            rep.violation(dict(op="display", kinds=[c["fam"]], cond="hang"), "no answer within the time limit for %r" % text[:100], rp)
            continue
        if "raw_error" in o or o.get("struct", ["N"])[0] in "NO":
            skipped += 1
            continue
        s = o["struct"]
        kind = kind_name(s)
        hist[kind] = hist.get(kind, 0) + 1
        for lk in leaf_kinds(s):
            forms[lk] = forms.get(lk, 0) + 1
        if not (s[0] == "I" and len(s[1]) <= 6):
            nontrivial.add((json.dumps(s), p))
        # ----- display
        for bf in (0, 1):
            d = o["disp%d" % bf]
            mt = model_text(ref.get("d1" if (bf and "d1" in ref) else "d0")) if ref else None
            if "escaped" in d or d.get("status") != 0:
                why = d.get("escaped") or "status %r: %s" % (d.get("status"), d.get("err", "")[:80])
                if has_overflowing_frac(s) and d.get("escaped") == "OverflowError":
                    sig = SIG_FRAC_OVERFLOW
                else:
                    sig = dict(op="display", kinds=[kind], cond="no-text-" + (d.get("escaped") or "status"))
                rep.violation(sig, "C15 fails: displaying the value of %r (p=%d) gives no text (%s); expected %r"
                              % (text[:100], p, why, (mt or "")[:120]), dict(rp, observed=why, expected=mt))
                continue
            out = d["out"]
            line = out[:-1] if out.endswith("\n") else out
            bad = None
            if not out.endswith("\n") or "\n" in line:
                bad = Bad(kind, "line-shape")
            else:
                try:
                    check_display(s, line, p, bool(bf))
                    denote_checked += 1
                except Bad as b:
                    bad = b
            if d.get("box") != s:
                rep.violation(dict(op="display", kinds=[kind], cond="result-box"),
                              "execute() delivered %r in result_box for %r, the evaluator gives %r" % (d.get("box"), text[:80], s),
                              rp, found_input=False)
            if bad is not None:
                sig = dict(op="display", kinds=[bad.kind], cond=bad.cond)
                rep.violation(sig, "C15 fails: %r (p=%d, brackets_for_frac=%s) is displayed as %r, which does not denote the value [%s/%s]; expected %r"
                              % (text[:100], p, bool(bf), line[:160], bad.kind, bad.cond, (mt or "")[:160]),
                              dict(rp, observed=line, expected=mt, value=s))
            elif mt is not None and mt != line:
                disagreements += 1
                rep.violation(dict(op="display", kinds=[kind], cond="model-differs"),
                              "model and implementation print different (both denoting) texts for %r p=%d bf=%d: impl %r, model %r"
                              % (text[:100], p, bf, line[:160], mt[:160]), dict(rp, observed=line, model=mt), found_input=False)
        # ----- re-entry text
        if "reentry_error" in o:
            rep.violation(dict(op="reentry", kinds=[kind], cond="stringify-raised-" + o["reentry_error"]),
                          "stringify_result raised %s on the value of %r" % (o["reentry_error"], text[:100]), rp)
            continue
        rt = o["reentry"]
        mt = model_text(ref["re"]) if ref else None
        try:
            node, j = parse_elem(rt, 0) if s[0] in "AV" else (None, 0)
            if s[0] in "AV":
                if j != len(rt):
                    raise Bad(kind, "trailing-text")
                match_tree(s, node, p, True)
            elif s[0] in "IFXQ":
                check_scalar_chunk(s, rt, p, True)
                if s[0] == "F" and not rt.startswith("("):
                    raise Bad("frac", "no-brackets")
                if s[0] == "Q" and s[1][0] == "F" and not rt.startswith("("):
                    raise Bad("qty", "no-brackets")
            elif s[0] == "S" and rt != '"' + s[1] + '"':
                raise Bad("str", "text")
            elif s[0] == "T" and rt != "#" + iso_of(s) + "#":
                raise Bad("instant", "iso")
            text_ok = True
        except Bad as b:
            text_ok = False
            rep.violation(dict(op="reentry-text", kinds=[b.kind], cond=b.cond),
                          "C15 fails: the re-entry text %r of %r (p=%d) does not spell the value [%s/%s]; expected %r"
                          % (rt[:160], text[:100], p, b.kind, b.cond, (mt or "")[:160]), dict(rp, observed=rt, expected=mt, value=s))
        if text_ok and mt is not None and mt != rt:
            disagreements += 1
            rep.violation(dict(op="reentry-text", kinds=[kind], cond="model-differs"),
                          "model and implementation give different re-entry texts for %r p=%d: impl %r, model %r" % (text[:100], p, rt[:160], mt[:160]),
                          dict(rp, observed=rt, model=mt), found_input=False)
        # ----- feeding it back
        re_ = o["re"]
        reentry_checked += 1
        if "escaped" in re_ or re_.get("status") != 0:
            why = re_.get("escaped") or (re_.get("err") or "").strip().split("\n")[0][:100]
            if has_dimless(s):
                sig = SIG_DIMLESS
            else:
                sig = dict(op="reentry", kinds=sorted(leaf_kinds(s) - {"array"}) [:3], cond="rejected")
            rep.violation(sig, "C15 fails: the re-entry text %r of %r (p=%d) does not evaluate: %s" % (rt[:160], text[:100], p, why),
                          dict(rp, reentry=rt, observed=why, value=s))
        else:
            diff = same_value(s, re_["struct"], p)
            if diff:
                sig = dict(op="reentry", kinds=[diff[0]], cond=diff[1])
                rep.violation(sig, "C15 fails: the re-entry text %r of %r (p=%d) evaluates to a different value [%s/%s]: %s instead of %s"
                              % (rt[:120], text[:100], p, diff[0], diff[1], json.dumps(re_["struct"])[:160], json.dumps(s)[:160]),
                              dict(rp, reentry=rt, observed=re_["struct"], value=s))
        if len(samples) < 12 and ci % max(1, len(cases) // 12) == 7:
            samples.append(dict(input=text[:80], p=p, displayed=o["disp0"].get("out", "")[:80], reentry=rt[:80],
                                model=(model_text(ref["d0"]) or "")[:80] if ref else None))
    rep.coverage.update(dict(
        evaluations=len(cases) + len(fmt_cases), distinct_nontrivial=len(nontrivial),
        rule=("Ka expressions evaluated at precision p; distinct by (structural value, p); non-trivial = anything but a bare integer of "
              "<= 6 digits. %d fixed expressions x 7 precisions, %d special doubles x 2 signs x 7 precisions, seeded random values of every kind "
              "(ints to 309 digits + a few to 5000, fractions, doubles over the whole exponent range incl. subnormals/ties/carries, quantities with "
              "int/fraction/float magnitudes and compound or zero dimensions, arrays nested to depth 3, intervals incl. function results, strings, instants "
              "with microseconds/zones); formatter oracle on %d (double|fraction, p) pairs" % (len(FIXED), len(SPECIAL_DOUBLES), len(fmt_cases))),
        exhaustive=False, samples=samples, value_kind_histogram=hist, leaf_kind_histogram=forms, formatter_histogram=fmt_hist,
        skipped_inputs_not_evaluating=skipped, traces_validated_against_impl=len(cases) - skipped,
        denotation_checks_passed=denote_checked, reentry_evaluations=reentry_checked,
        model_disagreements=disagreements, formatter_disagreements=fmt_bad,
        kernel_lane_cases=(n_model + len(fmt_cases)) if mout is not None else 0,
        precisions=P_SET + P_EXTRA))
    rep.assumptions += [
        "CPython's float formatting ('{:.pg}'.format) and float() parsing are external: fmt_g is tied to the formatter by the "
        "differential run on every sampled double; re-entered floats are compared within half a unit of the last displayed digit "
        "(+ half an ulp for the final rounding of float())",
        "the end-to-end re-entry statement (lexer + parser + evaluator on the re-entry text) is established by this correspondence, "
        "not by a Coq theorem (C15_reentry_partial proves the local facts only)",
        "the precision option is set through ka.config.CONFIG['precision'] after the one-off config read (config.get reads CONFIG)",
    ]
