"""C01 — integer and fraction arithmetic is exact and canonical.
Theorems: coq/Properties/C01.v (induction over all arithmetic trees, all Z/Q operands).
Tie: arithmetic trees evaluated by the implementation's execute() and by the Gallina aeval."""
import random, itertools
from fractions import Fraction
import common as C

ID = "C01"
COQ_TARGETS = ["Properties/C01.vo", "GenFacts/ResolutionFacts.vo", "GenFacts/NumSrcFacts.vo"]
EXTRA_OBLIGATIONS = ["resolution_facts_true"]
MODEL_TARGETS = ["Model/Num.vo"]
IMPORTS = "From Ka Require Import Model.Num.\nOpen Scope string_scope.\n"

BIN = {"Add": "+", "Sub": "-", "Mul": "*", "Div": "/", "Mod": "%", "Pow": "^"}
UN = {"UNeg": "-", "UPos": "+", "UAbs": "abs", "UFloor": "floor", "UCeil": "ceil", "URound": "round", "UInt": "int"}


# trees are tuples: ("lit", n) ("sci", m, k) ("bin", op, a, b) ("un", op, a)
def ka_text(t):
    k = t[0]
    if k == "lit":
        return str(t[1])
    if k == "sci":
        return "%de%d" % (t[1], t[2])
    if k == "bin":
        return "(%s %s %s)" % (ka_text(t[2]), BIN[t[1]], ka_text(t[3]))
    op = t[1]
    if op in ("UNeg", "UPos"):
        return "(%s(%s))" % (UN[op], ka_text(t[2]))
    return "%s(%s)" % (UN[op], ka_text(t[2]))


def coq_term(t):
    k = t[0]
    if k == "lit":
        return "ALit %s" % C.coq_Z(t[1])
    if k == "sci":
        return "ASci %s %s" % (C.coq_Z(t[1]), C.coq_Z(t[2]))
    if k == "bin":
        return "ABin %s (%s) (%s)" % (t[1], coq_term(t[2]), coq_term(t[3]))
    return "AUn %s (%s)" % (t[1], coq_term(t[2]))


def size(t):
    return 1 + sum(size(x) for x in t[1:] if isinstance(x, tuple))


def spec(t):
    """Independent oracle (Python Fraction): Fraction | 'DivZero' | 'OutOfClass'."""
    import math
    k = t[0]
    if k == "lit":
        return Fraction(t[1])
    if k == "sci":
        return Fraction(t[1]) * Fraction(10) ** t[2]
    if k == "bin":
        a = spec(t[2])
        if not isinstance(a, Fraction):
            return a
        b = spec(t[3])
        if not isinstance(b, Fraction):
            return b
        op = t[1]
        if op == "Add": return a + b
        if op == "Sub": return a - b
        if op == "Mul": return a * b
        if op == "Div": return "DivZero" if b == 0 else a / b
        if op == "Mod": return "DivZero" if b == 0 else a - b * math.floor(a / b)
        if op == "Pow":
            if b.denominator != 1 or b < 0:
                return "OutOfClass"
            return a ** int(b)
    a = spec(t[2])
    if not isinstance(a, Fraction):
        return a
    op = t[1]
    if op == "UNeg": return -a
    if op == "UPos": return a
    if op == "UAbs": return abs(a)
    if op == "UFloor": return Fraction(math.floor(a))
    if op == "UCeil": return Fraction(math.ceil(a))
    if op == "URound": return Fraction(round(a))
    if op == "UInt": return Fraction(int(a))


LEAVES = [0, 1, 2, 3, 7, 10, 10 ** 20]


def exhaustive_small():
    leaves = [("lit", n) for n in LEAVES] + [("sci", 3, -2), ("sci", 5, 3), ("sci", 10, -1), ("sci", 2500, -2), ("sci", 0, -5)]
    d1 = []
    for op in BIN:
        for a in leaves:
            for b in leaves:
                if op == "Pow" and (b[0] == "sci" or b[1] > 10):
                    continue
                d1.append(("bin", op, a, b))
    for op in UN:
        for a in leaves:
            d1.append(("un", op, a))
    return leaves + d1


def rand_tree(rng, depth):
    if depth == 0 or rng.random() < 0.18:
        r = rng.random()
        if r < 0.55:
            return ("lit", rng.choice([0, 1, 2, 3, 5, 7, 10, 12, 97, rng.randrange(1000), rng.randrange(10 ** 6)]))
        if r < 0.75:
            return ("lit", rng.randrange(10 ** rng.choice([12, 30, 60])))
        return ("sci", rng.randrange(1, 500), rng.choice([-12, -3, -2, -1, 0, 1, 2, 5, 20]))
    r = rng.random()
    if r < 0.78:
        op = rng.choice(["Add", "Sub", "Mul", "Div", "Div", "Mod", "Pow"])
        a = rand_tree(rng, depth - 1)
        if op == "Pow":
            b = ("lit", rng.choice([0, 1, 2, 2, 3, 4, 5, 7]))
            if rng.random() < 0.15:
                b = ("bin", "Div", ("lit", rng.choice([4, 6, 3])), ("lit", rng.choice([2, 3])))
        elif op in ("Div", "Mod") and rng.random() < 0.12:
            x = rand_tree(rng, max(0, depth - 2))
            b = ("bin", "Sub", x, x)   # a zero divisor
        else:
            b = rand_tree(rng, depth - 1)
        return ("bin", op, a, b)
    return ("un", rng.choice(list(UN)), rand_tree(rng, depth - 1))


def float_twins(t, cap=12):
    """Warm-up expressions, evaluated first in the same process: every binary node of the tree with one or both
    operands converted by float().  Ka simplifies an integral float back to an int, so only float(...) of a
    non-integral operand really is a float; equal-valued floats and fractions hash alike in Python, so any
    value-keyed cache or shared state filled by float arithmetic is in place when the exact expression runs."""
    out = []

    def walk(n):
        if len(out) >= cap:
            return
        if n[0] == "bin":
            a, b, op = ka_text(n[2]), ka_text(n[3]), BIN[n[1]]
            out.append("(float(%s) %s %s)" % (a, op, b))
            out.append("(%s %s float(%s))" % (a, op, b))
            out.append("(float(%s) %s float(%s))" % (a, op, b))
            walk(n[2])
            walk(n[3])
        elif n[0] == "un":
            out.append("%s(float(%s))" % (UN[n[1]] if n[1] not in ("UNeg", "UPos") else UN[n[1]], ka_text(n[2])))
            walk(n[2])
    walk(t)
    return out[:cap]


def impl_case(case):
    text, twins = case
    if len(text) < 300:
        for w in twins:
            try:
                C.observe(w)
            except C.CaseTimeout:
                raise
            except Exception:
                pass
    return C.observe(text)


def expected_line(sp):
    if sp == "DivZero":
        return "E:ZeroDivisionError"
    if sp.denominator == 1:
        return "I:%d" % sp.numerator
    return "F:%d/%d" % (sp.numerator, sp.denominator)


def bits_bound(t):
    """cheap upper bound on result size to keep generated cases small enough to run promptly"""
    return size(t)


def huge_items():
    """'however large the numbers get': results of ten to forty thousand digits, delivered and displayed in full.
    (expected texts are computed here with CPython's digit limit lifted for the moment; the workers keep whatever
    limit the implementation itself sets)"""
    import sys
    from fractions import Fraction as F
    old = sys.get_int_max_str_digits() if hasattr(sys, "get_int_max_str_digits") else None
    if old is not None:
        sys.set_int_max_str_digits(0)
    try:
        cases = [("10^12000", 10 ** 12000), ("3^30000", 3 ** 30000), ("(10^6000+1)*(10^6000-1)", 10 ** 12000 - 1),
                 ("-(7^15000)", -(7 ** 15000)), ("2^100000 % 10^20000", 2 ** 100000 % 10 ** 20000),
                 ("(10^12000+1)/3^2", F(10 ** 12000 + 1, 9)), ("1e12000 + 1 - 1", 10 ** 12000),
                 ("abs(-(10^40000))", 10 ** 40000), ("floor((10^15000+1)/7)", (10 ** 15000 + 1) // 7)]
        from functools import reduce
        ns = list(range(1, 601))
        cases += [("+".join(str(n) for n in ns), sum(ns)), (" - ".join(str(n) for n in ns), 1 - sum(ns[1:])),
                  ("*".join(str(n % 7 + 1) for n in ns), reduce(lambda a, b: a * b, [n % 7 + 1 for n in ns])),
                  ("/".join(str(n % 5 + 1) for n in ns[:400]), reduce(lambda a, b: a / b, [F(n % 5 + 1) for n in ns[:400]])),
                  ("+".join("1/%d" % n for n in ns[:300]), sum(F(1, n) for n in ns[:300])),
                  ("(" * 40 + "1/3" + "+1)" * 40, F(1, 3) + 40), ("-(" * 41 + "2/7" + ")" * 41, -F(2, 7)),
                  ("2^" * 9 + "1", 2 ** 256), ("(" * 30 + "7" + ")^1" * 30, 7),
                  (" % ".join(["(10^30 + 7)"] + ["%d" % (10 ** 6 + n) for n in range(200)]), reduce(lambda a, b: a % b, [10 ** 30 + 7] + [10 ** 6 + n for n in range(200)]))]
        import random as _random
        _r = _random.Random(20260101)
        for n_ops, ops in ((300, "*/%"), (700, "*/%"), (300, "+-"), (900, "+-"), (260, "*%"), (450, "*/%+-")):
            vals = [_r.randrange(1, 60) for _ in range(n_ops + 1)]
            chosen = [_r.choice(ops) for _ in range(n_ops)]
            text, acc, pending = str(vals[0]), None, None
            # left-associative fold per precedence level: terms of * / % are folded first, then + and -
            terms, signs, cur = [], [], F(vals[0])
            bad = False
            for o, v in zip(chosen, vals[1:]):
                text += " %s %d" % (o, v)
                if o == "*":
                    cur = cur * v
                elif o == "/":
                    cur = cur / v
                elif o == "%":
                    cur = cur - v * (cur // v)
                else:
                    terms.append(cur)
                    signs.append(o)
                    cur = F(v)
            terms.append(cur)
            total = terms[0]
            for sg, t in zip(signs, terms[1:]):
                total = total + t if sg == "+" else total - t
            cases.append((text, total))
        cases += [("*".join(["3"] * 300) + " % 1000", 3 ** 300 % 1000), ("2*" * 400 + "2 % 1000007", 2 ** 401 % 1000007),
                  ("12345678901234567890123456789e3", 12345678901234567890123456789000), ("-12345678901234567890123456789e3 % 7", -12345678901234567890123456789000 % 7),
                  ("1234567890123456789012345678901234567e-5", F(1234567890123456789012345678901234567, 10 ** 5)),
                  ("123456789012345678901234567890123456789012345e0 + 1", 123456789012345678901234567890123456789012346),
                  ("98765432109876543210987654321098765e-40 * 10^40", 98765432109876543210987654321098765),
                  ("1e40 + 1", 10 ** 40 + 1), ("(10^29 + 1)e2", None)]
        cases = [c for c in cases if c[1] is not None]
        items = []
        for text, v in cases:
            if isinstance(v, F) and v.denominator == 1:
                v = int(v)
            want = "I:%d" % v if isinstance(v, int) else "F:%d/%d" % (v.numerator, v.denominator)
            n_ops = sum(text.count(c) for c in "+-*/%^")
            if n_ops > 250:
                # how long a chain the Python stack carries is not C01's business: the exact value, or the diagnosed refusal
                items.append(([text], (lambda o, w=want: (o.get("status") == 0 and o.get("value") == w) or
                                       (o.get("status") == 1 and not o.get("escaped") and "nested too deeply" in (o.get("err") or ""))),
                              "exact arithmetic over a chain of %d operators (or the diagnosed refusal of its depth)" % n_ops))
                continue
            items.append(([text], want, "exact arithmetic with results beyond 10000 digits" if len(want) > 10000 else "exact arithmetic over long chains and deep brackets"))
        return items
    finally:
        if old is not None:
            sys.set_int_max_str_digits(old)


def beyond_stack_items():
    """chains longer than the Python stack carries: the right value or a diagnosed refusal, never another value"""
    from fractions import Fraction as F
    items = []
    for n in (1500, 4000):
        for text, v in (("1000000" + " - 7" * n, 1000000 - 7 * n), ("1" + " / 1" * n + " / 4", F(1, 4)), ("5" + " + 1/2" * n, 5 + F(n, 2)),
                        ("x = 9" + " - 2" * n + "; x", 9 - 2 * n), ("3" + " * 1" * n + " % 2", 1), ("{8" + " - 1" * n + "}", None)):
            want = None if v is None else ("I:%d" % v if F(v).denominator == 1 else "F:%d/%d" % (F(v).numerator, F(v).denominator))
            if text.startswith("{"):
                want = "A:[I:%d]" % (8 - n)
            items.append(([text], (lambda o, w=want: (o.get("status") == 1 and not o.get("escaped")) or (o.get("status") == 0 and o.get("value") == w)),
                          "a chain of %d operators: the exact value or a diagnosed refusal" % n))
    return items


def run(ctx):
    C.expect_sessions(ctx["report"], ctx["rundir"], "C01", beyond_stack_items(), kind="beyond-stack")
    C.seam_check(ctx["report"], ctx["rundir"], "C01", wrappers=[],
                 pairs=[("a = 1.5^64; (3/2)^64", "3^64/2^64"), ("a = 2.5^70; (5/2)^70", "5^70/2^70"), ("a = 0.5^100; (1/2)^100", "1/2^100"), ("a = 0.25^33; (1/4)^33", "1/4^33"),
                        ("(-1)^(10^10 + 1)", "-1"), ("1^10000000000", "1"), ("0^(10^12)", "0"), ("(7 % 2)^(10^10) + 1/3 - 1/3", "1"), ("(-1)^(2^40)", "1"),
                        ("a = (-2)^5; (-1)^5", "-1"), ("(-1)^4 + (-2)^4", "17")])
    C.config_matrix(ctx["report"], ctx["rundir"], "C01", ["1/2 + 1/3", "10^30/10", "(10^20+1)/2", "7 % -2", "int(-7/2)", "10^5000 + 1", "1e5000/3", "3^30000 % 10^20", "(3/2)^64", "2^10 - 1/3", "0/5", "5/0", "abs(-(10^1500))", "floor((10^1500+1)/7)"])
    C.expect_sessions(ctx["report"], ctx["rundir"], "C01", huge_items(), kind="huge-result")
    rep, tier, seed = ctx["report"], ctx["tier"], ctx["seed"]
    rng = random.Random(seed * 7919 + 1)
    n_rand = 3000 if tier == "quick" else 60000
    trees = list(exhaustive_small())
    n_exh = len(trees)
    if ctx.get("replay"):
        import json
        r = json.load(open(ctx["replay"]))
        trees = [totuple(x["tree"]) for x in [r["replay"]] + r.get("more", [])]
        n_rand = 0
    seen = set(ka_text(t) for t in trees)
    tries = 0
    while len(trees) < n_exh + n_rand and tries < n_rand * 5:
        tries += 1
        t = rand_tree(rng, rng.choice([2, 3, 4, 5, 6, 8]))
        s = ka_text(t)
        if s in seen or len(s) > 600:
            continue
        sp = spec(t)
        if sp == "OutOfClass":
            if rng.random() < 0.9:
                continue
        elif isinstance(sp, Fraction) and (sp.numerator.bit_length() > 700 or sp.denominator.bit_length() > 700):
            continue
        if not safe(t):
            continue
        seen.add(s)
        trees.append(t)
    texts = [ka_text(t) for t in trees]
    # the same exact arithmetic reached through arrays, comprehensions, variables, aggregates
    _sample = [ka_text(t) for t in trees[n_exh:n_exh + 400:10]] + ["1/2 + 1/3", "10^30/10", "(10^20+1)/2", "0/5", "5/0", "7 % 0", "(-7/2) % 2", "2^10"]
    C.seam_check(rep, ctx["rundir"], "C01", texts=_sample, wrappers=C.SEAM_WRAPPERS + [C.SEAM_CONDITION],
                 templates=[("%s ^ 8", ["-2", "-1", "0", "1", "2"]), ("%s ^ 5", ["-2", "-1", "1/2", "2^61"]), ("(%s + 1/3) * 3", ["1", "2/7", "10^20", "-1/3"]),
                            ("%s / 7", ["7", "14", "1", "0", "-7/2"]), ("abs(%s - 5/2)", ["1", "5/2", "4"]), ("7 %% %s", ["2", "-2", "7/2", "0"]),
                            ("int(%s)", ["-7/2", "7/2", "-1/3", "5"]), ("round(%s)", ["1/2", "3/2", "-1/2", "5/2"])],
                 pairs=[("prod({2, 0, 3})", "2*0*3"), ("prod({2/3, 3/2, -5})", "(2/3)*(3/2)*(-5)"), ("sum({1/2, 1/3, -5/6})", "1/2+1/3-5/6"),
                        ("max({-1, 0, -2})", "0"), ("min({0, 5})", "0"), ("min({5, 0, 7})", "0"), ("max({1/3, 1/2, 0})", "1/2"), ("mean({1, 2, 4})", "7/3"),
                        ("sum({0, 0, 3})", "3"), ("prod({0})", "0"), ("max({0})", "0"), ("sum({10^20, 1, -(10^20)})", "1")])
    obs = C.run_impl(impl_case, [(ka_text(t), float_twins(t)) for t in trees], ctx["rundir"], limit=20.0)
    model = None
    if ctx["model_ok"]:
        model = C.run_model(ctx["rundir"], "c01", IMPORTS, "fun e => show_res show_num (aeval e)",
                            ["(%s)" % coq_term(t) for t in trees], shard=150)
    hist = {}
    nontrivial = set()
    samples = []
    disagreements = 0
    for i, (t, s, o) in enumerate(zip(trees, texts, obs)):
        sp = spec(t)
        cls = "OutOfClass" if sp == "OutOfClass" else ("DivZero" if sp == "DivZero" else ("int" if sp.denominator == 1 else "frac"))
        hist[cls] = hist.get(cls, 0) + 1
        if t[0] in ("bin", "un"):
            nontrivial.add(s)
        m = model[i] if model else None
        if len(samples) < 6 and i % 997 == 5:
            samples.append(dict(input=s, impl=o.get("raw"), model=m))
        got = o.get("raw") if not o.get("hung") else "HUNG"
        if got == "E:ZeroDivisionError" and o.get("status") != 1:
            got = "E:ZeroDivisionError(not diagnosed: status %r escaped %r)" % (o.get("status"), o.get("escaped"))
        if got is not None and not got.startswith("E:") and o.get("value") != got:
            got = "%s (execute() delivered %r)" % (got, o.get("value"))
        if sp == "OutOfClass":
            # outside the property's class: only model/impl correspondence where the model predicts
            if m is not None and m != "E:Unmodelled" and not m.startswith("X:") and m != got:
                disagreements += 1
                rep.violation(dict(kind="correspondence", family="aeval-outside-class"),
                              "model and implementation disagree outside C01's class on %s: impl %s, model %s" % (s, got, m),
                              dict(tree=t, text=s, impl=got, model=m), found_input=False)
            continue
        exp = expected_line(sp)
        if m is not None and m != exp:
            # the model itself contradicts the independent oracle: a harness/model fault, reported loudly
            rep.violation(dict(kind="model-vs-spec"), "Gallina aeval disagrees with the rational oracle on %s: %s vs %s" % (s, m, exp),
                          dict(tree=t, text=s, model=m, oracle=exp), found_input=False)
        if got != exp:
            disagreements += 1
            sig = dict(kind="wrong-value", top=t[1] if t[0] in ("bin", "un") else t[0],
                       got_kind=(got or "")[:2], exp_kind=exp[:2])
            rep.violation(sig, "C01 fails on the implementation: %s evaluates to %s, exact arithmetic gives %s" % (s, got, exp),
                          dict(tree=t, text=s, evaluated_first_in_the_same_process=float_twins(t), impl=got, expected=exp, spec="denote (Coq) / Fraction oracle"))
    rep.coverage.update(dict(
        evaluations=len(trees), distinct_nontrivial=len(nontrivial),
        rule="arithmetic trees rendered fully parenthesised; exhaustive depth<=1 over leaves %r and all operators (%d), plus %d seeded random trees of depth<=8 (operands to 1e60, zero divisors 12%%); non-trivial = has at least one operator; distinct by rendered text" % (LEAVES, n_exh, len(trees) - n_exh),
        exhaustive=False, samples=samples, outcome_histogram=hist,
        traces_validated_against_impl=len(trees), disagreements=disagreements,
        kernel_lane_cases=len(model) if model else 0))
    rep.assumptions += ["CPython int/Fraction arithmetic is external: tied to Num.v by this correspondence only",
                        "round() is round-half-even (Python's rule)"]


def safe(t):
    """reject trees whose evaluation would build astronomically large numbers"""
    try:
        return _mag(t) < 2500
    except OverflowError:
        return False


def _mag(t):
    # crude bit-size estimate
    k = t[0]
    if k == "lit":
        return max(1, t[1].bit_length())
    if k == "sci":
        return t[1].bit_length() + 4 * abs(t[2])
    if k == "bin":
        a, b = _mag(t[2]), _mag(t[3])
        if t[1] == "Pow":
            sp = spec(t[3])
            if not isinstance(sp, Fraction) or abs(sp) > 64:
                return 10 ** 9
            return a * max(1, int(abs(sp))) * 2
        return 2 * (a + b)
    return _mag(t[2])


def totuple(x):
    return tuple(totuple(y) if isinstance(y, list) else y for y in x)
