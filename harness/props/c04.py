"""C04 — magnitudes under units: linear/affine conversion, operand order respected.
Theorems: coq/Properties/C04.v.  Tie: the same quantity trees as C03, compared on exact magnitudes
(rational-factor units) or within 1e-9 relative (float-factor units), plus the stated consequences
(x U to U = x, round trip, q/2, distribution) checked directly on the implementation."""
import json, random
from fractions import Fraction
import common as C
from props import qtycommon as Q
from props import c01, c03

ID = "C04"
COQ_TARGETS = ["Properties/C04.vo", "GenFacts/ResolutionFacts.vo", "GenFacts/UnitsSrcFacts.vo"]
EXTRA_OBLIGATIONS = ["resolution_facts_true"]
MODEL_TARGETS = ["Model/Qty.vo"]


def fr(t):
    return Fraction(t[1], t[2])


def sig_factor(sig, units):
    """exact rational factor; second component: False when the implementation computes it in floats"""
    f, exact = Fraction(1), True
    specs = [(n, e) for n, e in sig[0]] + [(n, -e) for n, e in sig[1]]
    for n, e in specs:
        if units[n]["off"][1] != 0 and (len(specs) > 1 or e != 1):
            return None         # an offset unit only stands alone with exponent 1 (diagnosed error otherwise)
        m = units[n]["mult"]
        if fr(m) == 1:
            continue
        if m[0] == "x" or (m[0] == "i" and e < 0):
            exact = False
        f *= fr(m) ** e
    off = fr(units[specs[-1][0]]["off"]) if specs else Fraction(0)
    if specs and units[specs[-1][0]]["off"][0] == "x":
        exact = False
    return f, off, exact


def mag_spec(t, units):
    """(Fraction, exact?) or None"""
    k = t[0]
    if k == "lit":
        sp = c01.spec(t[1])
        return (sp, True) if isinstance(sp, Fraction) else None
    if k == "tag":
        a = mag_spec(t[1], units)
        if not a: return None
        sf = sig_factor(t[2], units)
        if sf is None: return None
        f, off, ex = sf
        return (f * a[0] + off, a[1] and ex)
    if k == "bin":
        a, b = mag_spec(t[2], units), mag_spec(t[3], units)
        if not a or not b: return None
        ex = a[1] and b[1]
        if t[1] == "QAdd": return (a[0] + b[0], ex)
        if t[1] == "QSub": return (a[0] - b[0], ex)
        if t[1] == "QMul": return (a[0] * b[0], ex)
        return None if b[0] == 0 else (a[0] / b[0], ex)
    if k == "cmp":
        a, b = mag_spec(t[2], units), mag_spec(t[3], units)
        if not a or not b: return None
        x, y = a[0], b[0]
        r = {"QLt": x < y, "QLe": x <= y, "QEq": x == y, "QNe": x != y, "QGt": x > y, "QGe": x >= y}[t[1]]
        return (Fraction(int(r)), a[1] and b[1])
    if k == "conv":
        a = mag_spec(t[1], units)
        if not a: return None
        sf = sig_factor(t[2], units)
        if sf is None: return None
        f, off, ex = sf
        return ((a[0] - off) / f, a[1] and ex)
    a = mag_spec(t[1], units)
    return (-a[0], a[1]) if a else None


def has_cmp(t):
    return t[0] == "cmp" or any(has_cmp(x) for x in t[1:] if isinstance(x, tuple) and x and isinstance(x[0], str) and x[0] in ("lit", "tag", "bin", "cmp", "conv", "neg"))


def run(ctx):
    # chains beyond the Python stack and long ones within it: the right magnitude or a diagnosed refusal, operand order kept
    _its = []
    for _n in (300, 700, 1200, 3000):
        for _t, _w in (("3 km" + " - 1 m" * _n + " to m", "I:%d" % (3000 - _n)), ("6 km / 2" + " / 1" * _n + " to m", "I:3000"),
                       ("(1 h" + " - 1 s" * _n + ") to s", "I:%d" % (3600 - _n)), ("x = 5 kg" + " - 1 g" * _n + "; x to g", "I:%d" % (5000 - _n)),
                       ("{2 km" + " - 1 m" * _n + "} to m", None), ("1 m" + " * 2" * 10 + " / 4" * _n + " * 4" * _n + " to mm", "I:1024000")):
            if _w is None:
                continue
            _its.append(([_t], (lambda o, w=_w: (o.get("status") == 1 and not o.get("escaped")) or (o.get("status") == 0 and o.get("value") == w)),
                         "a chain of %d operators under units: the exact magnitude or a diagnosed refusal" % _n))
    C.expect_sessions(ctx["report"], ctx["rundir"], "C04", _its, kind="long-chain")
    C.seam_check(ctx["report"], ctx["rundir"], "C04", wrappers=[],
                 pairs=[("(5 mg | kg) * 1000000 == 5", "1"), ("(7 kg m | g s^2) to m | s^2", "7000"), ("(250 mg | kg) * 2 kg to mg", "500"), ("(3 km | m) == 3000", "1"),
                        ("5 centidays to s; 2 cd", "2 cd"), ("1 milliinch to m; 3 min to s", "180"), ("1 picotonne to kg; 2 pt to l", "2 pt to l"),
                        ("1 femtotonne to kg; 3 ft to m", "3 ft to m"), ("1 yoctoday to s; 1 yd to m", "1 yd to m"), ("5 km to m; 5 km to m; 5 km to m", "5000")])
    C.config_matrix(ctx["report"], ctx["rundir"], "C04", ["1 eur to usd", "100 eur to gbp", "1 gbp to eur", "(1 eur to usd) usd to eur", "5 eur to eur", "1 keur to eur", "1 € to eur", "1 $ to usd", "3 eur + 2 eur to eur", "1 usd to jpy", "5 km to m", "-40 degC to degF", "5 mg | kg to g | g", "3 km | m", "(250 mg | kg) * 2 kg to mg", "7 kg m | g s^2 to m | s^2"])
    rep, tier = ctx["report"], ctx["tier"]
    trees, units, ndims, n_exh = Q.build_cases(ctx, 2000 if tier == "quick" else 30000, rational_only=False)
    # the stated consequences, for every pair of same-dimension spellings in the pools
    rng = random.Random(ctx["seed"] + 404)
    L = lambda a, b=1: ("lit", ("bin", "Div", ("lit", a), ("lit", b))) if b != 1 else ("lit", ("lit", a))
    names = sorted(units)
    cons = []
    by_dim = {}
    for n in names:
        by_dim.setdefault(tuple(units[n]["dim"]), []).append(n)
    for dim, ns in by_dim.items():
        rng.shuffle(ns)
        for u in ns[:25 if tier == "quick" else 200]:
            v = rng.choice(ns)
            x = L(rng.randrange(1, 500), rng.choice([1, 1, 3, 8]))
            S = lambda n: ([(n, 1)], [])
            cons.append(("conv", ("tag", x, S(u)), S(u)))                                        # x U to U = x
            cons.append(("conv", ("tag", ("conv", ("tag", x, S(u)), S(v)), S(v)), S(u)))          # round trip
            if units[u]["off"][1] == 0 and units[v]["off"][1] == 0:
                cons.append(("conv", ("bin", "QDiv", ("tag", x, S(u)), L(2)), S(u)))                 # q/2 halves
                cons.append(("conv", ("bin", "QAdd", ("tag", x, S(u)), ("tag", L(3), S(v))), S(u)))  # distributes over +
                cons.append(("conv", ("bin", "QMul", L(7, 2), ("tag", x, S(u))), S(v)))              # and over scaling
    trees = trees + [t for t in cons if all(n in units for n in Q.unit_names_in(t, set()))]
    texts, obs, model = Q.run_both(ctx, trees, units, ndims)
    nontrivial, samples, hist, disagreements = set(), [], {}, 0
    for i, (t, s, o) in enumerate(zip(trees, texts, obs)):
        got = Q.impl_error_class(o)
        m = model[i] if model else None
        if c03.dim_spec(t, units, ndims) is None:
            continue                      # dimension errors are C03's
        sp = mag_spec(t, units)
        key = "undefined" if sp is None else ("exact" if sp[1] else "float")
        hist[key] = hist.get(key, 0) + 1
        if t[0] != "lit":
            nontrivial.add(s)
        if len(samples) < 6 and i % 401 == 11:
            samples.append(dict(input=s, impl=got, model=m, mag_spec=str(sp[0]) if sp else None))
        pi = Q.parse_enc(got)
        if sp is not None and pi[0] in ("num", "qty"):
            val, exact_impl = (pi[1], pi[2]) if pi[0] == "num" else pi[1]
            if sp[1]:
                ok = exact_impl and val == sp[0] and (("I:" in got.split("|")[0]) == (sp[0].denominator == 1))
            else:
                # a comparison of nearly equal float magnitudes is not stable: only check non-comparison trees
                ok = True if t[0] == "cmp" else Q.close(val, sp[0], 1e-9)
            if not ok:
                rep.violation(dict(kind="wrong-magnitude", top=t[0], op=t[1] if t[0] in ("bin", "cmp") else "", exact=sp[1]),
                              "C04 fails: %s gives %s on the implementation, ordinary arithmetic on base-unit values gives %s (%s)"
                              % (s, got, sp[0], "exactly" if sp[1] else "within 1e-9"),
                              dict(tree=t, text=s, impl=got, expected=str(sp[0]), exact=sp[1]))
                continue
        elif sp is not None and pi[0] == "err":
            rep.violation(dict(kind="unexpected-error", cls=got[:40]), "C04: %s should evaluate to %s but gives %s" % (s, sp[0], got),
                          dict(tree=t, text=s, impl=got, expected=str(sp[0])), found_input=True)
            continue
        if m is not None and m != "E:Unmodelled" and not (t[0] == "cmp" and sp is not None and not sp[1]) and not Q.same_value(m, got):
            disagreements += 1
            rep.violation(dict(kind="correspondence", family="qeval-magnitude", top=t[0]),
                          "model and implementation disagree on %s: impl %s, model %s" % (s, got, m),
                          dict(tree=t, text=s, impl=got, model=m), found_input=False)
    # --- the same conversions reached through arrays, comprehensions, variables (a quantity node evaluated once per
    # element of a comprehension follows the element)
    C.seam_check(rep, ctx["rundir"], "C04", texts=[texts[i] for i in range(0, len(texts), max(1, len(texts) // 50))][:50],
                 templates=[("%s km to m", ["1", "2", "3"]), ("%s degC to K", ["-40", "0", "100", "1/2"]), ("%s degF to degC", ["-40", "32", "212"]),
                            ("(%s km to m) m to km", ["1", "2", "7/3"]), ("(%s m) / 2", ["1", "3", "5/2"]), ("%s h + 30 min to min", ["1", "2", "1/2"]),
                            ("%s fs to s", ["1", "2.5", "3"]), ("%s km | h to m | s", ["36", "72"]), ("%s eV to J", ["1", "2"]), ("2.5 fs * %s to fs", ["1", "2"])])
    # --- signed literals written without parentheses: the sign belongs to the magnitude (matters for offset units)
    raw = [("-40 degC to K", Fraction(23315, 100)), ("-40 degC to degF", None), ("-40 degF to degC", None), ("-5 km to m", Fraction(-5000)),
           ("+3 m to cm", Fraction(300)), ("-273 degC to K", Fraction(15, 100)), ("-(40 degC) to K", Fraction(-31315, 100)),
           ("(-40 degC to K) K to degC", Fraction(-40)), ("- 2 h to min", Fraction(-120)),
           # magnitudes that are lazy factorials/coefficients or quotients of them (exact, fractional after resolving)
           ("(5!/7!) km to m", Fraction(500, 21)), ("(5!/7) m to cm", Fraction(12000, 7)), ("(3!/4!) degC to K", Fraction(2734, 10)),
           ("(C(5,2)/4) h to min", Fraction(150)), ("5! km to m", Fraction(120000)), ("(7!/5!) mm to m", Fraction(42, 1000)),
           ("((5!/7!) km + 1 m) to m", Fraction(521, 21)), ("(1/3!) min to s", Fraction(10))]
    raw_obs = C.run_impl(Q.impl_case, [t for t, _ in raw], ctx["rundir"], limit=10.0)
    for (t, want), o in zip(raw, raw_obs):
        got = Q.impl_error_class(o)
        pi = Q.parse_enc(got)
        if want is None:
            ok = pi[0] == "num" and Q.close(pi[1], Fraction(-40), 1e-9)
        else:
            ok = pi[0] == "num" and (pi[1] == want or (not pi[2] and Q.close(pi[1], want, 1e-9)))
        if not ok:
            rep.violation(dict(kind="wrong-magnitude", top="signed-literal", op="", exact=True),
                          "C04 fails: %s gives %s, expected %s" % (t, got, want if want is not None else -40),
                          dict(text=t, impl=got, expected=str(want if want is not None else -40)))
    rep.coverage.update(dict(
        evaluations=len(trees) + len(raw), distinct_nontrivial=len(nontrivial),
        rule="the C03 tree set plus, for up to 25 (quick) / 200 (thorough) spellings of every dimension: x U to U, (x U to V) V to U, (x U)/2, (x U + 3 V) to U, (7/2 * x U) to V; magnitudes compared exactly when every unit factor is int/Fraction used with non-negative exponent, within 1e-9 otherwise; non-trivial = not a bare literal",
        exhaustive=False, samples=samples, outcome_histogram=hist, traces_validated_against_impl=len(trees),
        disagreements=disagreements, kernel_lane_cases=len(model) if model else 0, unit_spellings=len(units)))
    rep.assumptions += ["float-factor units: the model carries the ideal rational value, compared within 1e-9 (no theorem about rounding)",
                        "unit name lookup is C13's subject"]
