"""C03 — quantity algebra is dimensionally sound.
Theorems: coq/Properties/C03.v.  Tie: quantity expression trees through execute() vs qeval in the Coq VM,
and the dimension oracle (dim_spec) directly on the implementation's results."""
import json
from fractions import Fraction
import common as C
from props import qtycommon as Q

ID = "C03"
COQ_TARGETS = ["Properties/C03.vo", "GenFacts/ResolutionFacts.vo", "GenFacts/UnitsSrcFacts.vo"]
EXTRA_OBLIGATIONS = ["resolution_facts_true"]
MODEL_TARGETS = ["Model/Qty.vo"]


def sig_dim(sig, units, n):
    v = [0] * n
    for nm, e in sig[0]:
        v = [a + e * b for a, b in zip(v, units[nm]["dim"])]
    for nm, e in sig[1]:
        v = [a - e * b for a, b in zip(v, units[nm]["dim"])]
    return tuple(v)


def dim_spec(t, units, n):
    """(is_qty, dims) or None (rejected by the dimension rules)"""
    k = t[0]
    zero = tuple([0] * n)
    if k == "lit":
        return (False, zero)
    if k == "tag":
        a = dim_spec(t[1], units, n)
        return (True, sig_dim(t[2], units, n)) if a and not a[0] else None
    if k == "bin":
        a, b = dim_spec(t[2], units, n), dim_spec(t[3], units, n)
        if not a or not b:
            return None
        if t[1] in ("QAdd", "QSub"):
            return (a[0] or b[0], a[1]) if a[1] == b[1] else None
        if t[1] == "QMul":
            return (a[0] or b[0], tuple(x + y for x, y in zip(a[1], b[1])))
        return (a[0] or b[0], tuple(x - y for x, y in zip(a[1], b[1])))
    if k == "cmp":
        a, b = dim_spec(t[2], units, n), dim_spec(t[3], units, n)
        return (False, zero) if a and b and a[1] == b[1] else None
    if k == "conv":
        a = dim_spec(t[1], units, n)
        return (False, zero) if a and a[0] and a[1] == sig_dim(t[2], units, n) else None
    return dim_spec(t[1], units, n)


def run(ctx):
    # long arrays: the dimension check does not depend on how many elements an aggregate sees
    _refused = lambda o: o.get("status") == 1 and not o.get("escaped")
    _its = []
    for _n in (1100, 2500):
        _m = ", ".join(["1 m"] * _n)
        _its += [(["sum({5, %s})" % _m], _refused, "a plain number among %d lengths is refused by sum" % _n),
                 (["sum({%s, 5})" % _m], _refused, "a plain number after %d lengths is refused by sum" % _n),
                 (["mean({%s, 1 s})" % _m], _refused, "a time among %d lengths is refused by mean" % _n),
                 (["max({%s, 2})" % _m], _refused, "a plain number among %d lengths is refused by max" % _n),
                 (["sum({1 s, %s})" % _m], _refused, "a time before %d lengths is refused by sum" % _n),
                 (["sum({%s})" % _m], "Q:I:%d|0,1,0,0,0,0,0,0" % _n, "the sum of %d lengths is a length" % _n),
                 (["sum({x m : x in 1..%d}) / sum({x s : x in 1..%d})" % (_n, _n)], "Q:I:1|0,1,-1,0,0,0,0,0", "a quotient of two long sums"),
                 (["prod({%s})" % ", ".join(["1 m"] * 12)], "Q:I:1|0,12,0,0,0,0,0,0", "a product of twelve lengths"),
                 (["sum({x m : x in 1..%d}) + 1" % _n], _refused, "a long sum of lengths plus a plain number is refused")]
    C.expect_sessions(ctx["report"], ctx["rundir"], "C03", _its, kind="long-array")
    C.seam_check(ctx["report"], ctx["rundir"], "C03", wrappers=[],
                 pairs=[("3 m^+2", "3 m^2"), ("1 s^+1 + 1 s", "2 s"), ("20000 m^+2 to ha", "2"), ("2 Hz to s^+1", "2 Hz to s"), ("1 s^+1 + 1 Hz", "1 s + 1 Hz"),
                        ("5 m^2 | m", "5 m"), ("6 kg m^2 | m s^2", "6 kg m | s^2"), ("5 m^2 | metre", "5 m"), ("5 m^2 | m + 1", "5 m + 1"), ("5 rad to m^3 | m^2", "5 rad to m"),
                        ("3 m^-2 * 1 m^+3", "3 m"), ("4 s^+2 | s", "4 s")])
    C.config_matrix(ctx["report"], ctx["rundir"], "C03", ["1 m + 2 cm", "1 m + 1 s", "(6 m) / (2 s)", "5 eur + 5 usd to eur", "5 eur + 5", "5 eur < 5 s", "(6 eur) / (2 eur)", "3 m^+2 + 1 m^2", "1 s^+1 + 1 s", "2 Hz to s^+1", "1 m | s + 1 m | s^2", "3 Hz == 3 s^-2", "5 m^2 | m + 1 m", "6 kg m^2 | m s^2 to kg m | s^2"])
    rep, tier = ctx["report"], ctx["tier"]
    trees, units, ndims, n_exh = Q.build_cases(ctx, 2000 if tier == "quick" else 30000, rational_only=False)
    texts, obs, model = Q.run_both(ctx, trees, units, ndims)
    nontrivial, samples, hist, disagreements = set(), [], {}, 0
    for i, (t, s, o) in enumerate(zip(trees, texts, obs)):
        got = Q.impl_error_class(o)
        m = model[i] if model else None
        spec = dim_spec(t, units, ndims)
        key = "rejected" if spec is None else ("qty" if spec[0] else "num")
        hist[key] = hist.get(key, 0) + 1
        if t[0] != "lit":
            nontrivial.add(s)
        if len(samples) < 6 and i % 389 == 7:
            samples.append(dict(input=s, impl=got, model=m, dim_spec=spec))
        pi = Q.parse_enc(got)
        # the property itself on the implementation
        if spec is None:
            if pi[0] != "err":
                rep.violation(dict(kind="mismatch-accepted", top=t[0], op=t[1] if t[0] in ("bin", "cmp") else ""),
                              "C03 fails: %s mixes dimensions but evaluates to %s" % (s, got),
                              dict(tree=t, text=s, impl=got, expected="an error (dim_spec = None)"))
                continue
        elif pi[0] in ("qty", "num"):
            gd = pi[2] if pi[0] == "qty" else tuple([0] * ndims)
            if (pi[0] == "qty") != spec[0] or gd != spec[1]:
                rep.violation(dict(kind="wrong-dimension", top=t[0], op=t[1] if t[0] in ("bin", "cmp") else ""),
                              "C03 fails: %s has dimension %r (quantity=%r) on the implementation, dim_spec gives %r" % (s, gd, pi[0] == "qty", spec),
                              dict(tree=t, text=s, impl=got, expected=spec))
                continue
        elif pi[0] == "err" and not (pi[1] in ("ZeroDivisionError", "EvalError", "KaRuntimeError", "OverflowError") and "escaped" not in got):
            rep.violation(dict(kind="unexpected-error", cls=got[:40]), "C03: %s is dimensionally fine but gives %s" % (s, got),
                          dict(tree=t, text=s, impl=got, expected=spec), found_input=("escaped" in got or got == "HUNG"))
            continue
        # correspondence with the model
        if m is not None and m != "E:Unmodelled" and not Q.same_value(m, got):
            disagreements += 1
            rep.violation(dict(kind="correspondence", family="qeval", top=t[0]),
                          "model and implementation disagree on %s: impl %s, model %s" % (s, got, m),
                          dict(tree=t, text=s, impl=got, model=m), found_input=False)
    # --- the same node evaluated repeatedly (a comprehension body runs once per element) must give the same value
    rep_idx = [i for i, t in enumerate(trees) if t[0] in ("tag", "bin", "conv") and "|" in texts[i]][:150]
    rep_texts = ["{%s : k in {1, 2, 3}}" % texts[i] for i in rep_idx]
    rep_obs = C.run_impl(Q.impl_case, rep_texts, ctx["rundir"], limit=10.0)
    for i, rt, ro in zip(rep_idx, rep_texts, rep_obs):
        single = Q.impl_error_class(obs[i])
        got = Q.impl_error_class(ro)
        want = "A:[%s;%s;%s]" % (single, single, single) if not (single or "").startswith("E:") else None
        if want is not None and got != want:
            rep.violation(dict(kind="re-evaluation-changes-result", top=trees[i][0]),
                          "C03 fails: %s evaluates to %s once but %s gives %s" % (texts[i], single, rt, got),
                          dict(tree=trees[i], text=rt, impl=got, expected=want))
    # --- the same expressions reached through arrays, comprehensions, variables; a quantity node evaluated once per
    # element follows the element; mixing dimensions inside an aggregate is refused like everywhere else
    C.seam_check(rep, ctx["rundir"], "C03", texts=[texts[i] for i in range(0, len(texts), max(1, len(texts) // 60))][:60],
                 wrappers=C.SEAM_WRAPPERS + [C.SEAM_CONDITION],
                 templates=[("%s km to m", ["1", "2", "3"]), ("%s m + 2 cm", ["1", "1/2", "0.5"]), ("(%s m) * (2 s)", ["1", "2", "3"]),
                            ("%s m > 2 m", ["1", "2", "3"]), ("(%s m | s) * (1 s)", ["1", "2", "3"]), ("%s m m", ["1", "2"]), ("%s m + 1 s", ["1", "2"]),
                            ("(6 m) / (%s s)", ["1", "2", "3"]), ("%s m^2 to cm^2", ["1", "2"])])
    REPEAT = [("1 m + 2 m m", None), ("2 s s + 1 s", None), ("4 A A to A", None), ("2 m m + 3 m^2", "qty"), ("2 K K; 1 K", "qty"), ("1 m; 2 m m", "qty"),
              ("(2 m m) / (1 m)", "qty"), ("3 m m m to m^3", "num"), ("1 m s + 1 s m", "qty"), ("1 m s s + 1 m s", None)]
    robs = C.run_impl(Q.impl_case, [t for t, _ in REPEAT] + ["2 K K; 1 K", "1 K"], ctx["rundir"], limit=10.0, chunksize=100, procs=1)
    for (text, kind), o in zip(REPEAT, robs):
        got = Q.impl_error_class(o)
        pk = Q.parse_enc(got)[0]
        if (kind is None and pk != "err") or (kind is not None and pk != kind):
            rep.violation(dict(kind="mismatch-accepted" if kind is None else "wrong-dimension", top="repeated-unit", op=""),
                          "C03 fails: %s %s but gives %s" % (text, "mixes dimensions" if kind is None else "is dimensionally fine", got), dict(text=text, impl=got))
    if Q.impl_error_class(robs[-2]) != Q.impl_error_class(robs[-1]):
        rep.violation(dict(kind="wrong-dimension", top="repeated-unit", op="history"),
                      "C03 fails: after evaluating 2 K K, 1 K gives %s; alone it gives %s" % (Q.impl_error_class(robs[-2]), Q.impl_error_class(robs[-1])),
                      dict(text="2 K K; 1 K", impl=Q.impl_error_class(robs[-2]), expected=Q.impl_error_class(robs[-1])))
    AGG_BAD = ["median({1 m, 2 s, 3 m})", "median({1, 2 m, 3})", "max({1 m, 2 s})", "min({1 s, 2 m, 3 s})", "sum({1 m, 1 s})", "mean({1 m, 1 s})",
               "max({1 m, 2})", "median({1 m, 2 s})", "sum({1 m, 2})", "max(1 m, 2 s)", "min(1 m, 2 s, 3 m)", "{1 m, 2 s}; sum({1 m, 2 s})"]
    AGG_OK = ["median({1 m, 200 cm, 3 m})", "max({1 m, 200 cm})", "sum({1 m, 1 cm})", "mean({1 m, 3 m})", "min({1 km, 2 m})"]
    aobs = C.run_impl(Q.impl_case, AGG_BAD + AGG_OK, ctx["rundir"], limit=10.0)
    for text, o in zip(AGG_BAD, aobs):
        got = Q.impl_error_class(o)
        if Q.parse_enc(got)[0] != "err":
            rep.violation(dict(kind="mismatch-accepted", top="aggregate", op=text.split("(")[0]),
                          "C03 fails: %s mixes dimensions but evaluates to %s" % (text, got), dict(text=text, impl=got, expected="an error"))
    for text, o in zip(AGG_OK, aobs[len(AGG_BAD):]):
        got = Q.impl_error_class(o)
        if Q.parse_enc(got)[0] != "qty":
            rep.violation(dict(kind="wrong-dimension", top="aggregate", op=text.split("(")[0]),
                          "C03 fails: %s is dimensionally fine but gives %s" % (text, got), dict(text=text, impl=got, expected="a quantity"))
    # --- every base dimension counts, the last one (money) included: mixing it with anything else is rejected, and
    # it multiplies/divides like any other
    MONEY_BAD = ["5 eur to dozen", "12 rad to eur", "20 eur | h to Hz", "3 m eur to m", "5 eur + 5", "5 eur + 5 m", "5 eur < 5 s",
                 "5 eur == 5", "1 usd to kg", "(6 eur) / (2 m) to eur", "7 to eur", "5 eur^2 to eur"]
    MONEY_OK = [("(6 eur) / (2 eur)", "num"), ("(6 eur) * (2 m) / (3 m) to eur", "qty"), ("(20 eur | h) * (2 h) to eur", "qty"),
                ("(6 eur m) / (2 m) + 1 eur", "qty"), ("6 eur < 7 eur", "num")]
    mobs = C.run_impl(Q.impl_case, MONEY_BAD + [t for t, _ in MONEY_OK], ctx["rundir"], limit=10.0)
    for text, o in zip(MONEY_BAD, mobs):
        got = Q.impl_error_class(o)
        if Q.parse_enc(got)[0] != "err":
            rep.violation(dict(kind="mismatch-accepted", top="money", op=""),
                          "C03 fails: %s mixes dimensions but evaluates to %s" % (text, got), dict(text=text, impl=got, expected="an error"))
    for (text, kind), o in zip(MONEY_OK, mobs[len(MONEY_BAD):]):
        got = Q.impl_error_class(o)
        if Q.parse_enc(got)[0] == "err":
            rep.violation(dict(kind="wrong-dimension", top="money", op=""),
                          "C03 fails: %s is dimensionally fine but gives %s" % (text, got), dict(text=text, impl=got, expected="a value"))
    rep.coverage.update(dict(
        evaluations=len(trees) + len(rep_texts), distinct_nontrivial=len(nontrivial),
        rule="quantity expression trees over live-resolved unit spellings (symbol, singular, plural, every prefix): exhaustive operator x kind pair (Q/Q, Q/N, N/Q, N/N) x dimension relation, all six comparisons, conversions among length/time spellings and back, compound signatures with negative exponents, offset units in every position (%d), plus seeded random trees; non-trivial = not a bare literal; distinct by text" % n_exh,
        exhaustive=False, samples=samples, outcome_histogram=hist, traces_validated_against_impl=len(trees),
        disagreements=disagreements, kernel_lane_cases=len(model) if model else 0, unit_spellings=len(units)))
    rep.assumptions += ["unit name lookup is C13's subject: units reach the model already resolved by the live lookup_unit"]
