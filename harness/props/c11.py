"""C11 — lexing is a faithful longest-match segmentation with exact literal values.
Theorems: coq/Properties/C11.v (all input strings; the character classes isspace/isalpha/isnumeric
are parameters constrained by Lexer.class_ok_b, checked here on every code point of CPython).
Tie: ka.tokens.tokenise against the Gallina lexer (Model/Lexer.v, run in the Coq VM) on
 * every string up to a length bound over a 33-symbol alphabet with one representative per
   character class (longer lengths over two reduced alphabets),
 * all ordered pairs of representative lexemes, with and without a space between them,
 * seeded random sequences of valid (and some invalid) tokens rendered with random whitespace,
comparing (tag, begin, end, value) per token or (error class, index).  The property's own
relations (reassembly, whitespace insertion at every token boundary, literal value against an
independent exact computation, longest match, keyword rule, unclosed-delimiter position) are
evaluated on the implementation for every generated string, independent of the model; a
subsample also goes through execute().  Inputs whose merged exponent has four or more digits are
not generated (10**exponent is computed eagerly by the lexer: a resource question, not C11's)."""
import random, itertools, json, sys, re
from fractions import Fraction
import common as C

ID = "C11"
COQ_TARGETS = ["Properties/C11.vo", "GenFacts/LexerSrcFacts.vo"]
MODEL_TARGETS = ["Model/Lexer.vo"]
IMPORTS = ("From Coq Require Import NArith List.\nFrom Ka Require Import Model.Lexer.\n"
           "Import ListNotations.\nOpen Scope string_scope.\nOpen Scope N_scope.\n")

ALPHABET = list("019aexbtoinAFd.-+<=!\"#\\ \t€²é@_|±μ")
RED1 = list("01ebx.-+\"\\ #=F")          # numbers, strings (thorough; quick uses the first 12)
RED2 = list("into 1_é.μa€")               # keywords / identifiers (thorough; quick uses the first 10)
WS = [" ", "\t", "\n", "\u00a0", "\u2003", "\x1c", "\r"]
IDENT_START = set("abcdefghijklmnopqrstuvwxyzABCDEFGHIJKLMNOPQRSTUVWXYZμ€$£¥")
IDENT_CHARS = set("abcdefghijklmnopqrstuvwxyzABCDEFGHIJKLMNOPQRSTUVWXYZ0123456789_μ€$£¥")

ERR_SHORT = {"UnknownTokenError": "U", "BadNumberError": "B", "UnclosedStringError": "S", "UnclosedInstantError": "H"}
ERR_LONG = {v: k for k, v in ERR_SHORT.items()}

REGRESSION = ["0." + "0" * 400 + "125e403", "0." + "0" * 399 + "1875e401", "0." + "0" * 1000 + "5e1001", "1." + "0" * 500 + "1e-2", "0." + "9" * 420 + "e1",
              "1.23457e+06", "1.5e999", "1..5", "0x1F", "0b102", "int", "in t", "\"abc", "#2024",
              "#2024-01-01" + " " * 55 + "# + 1", "#" + "x" * 100 + "#", "#2024-01-01T00:00:00" + " " * 200 + "#", "\"" + "a" * 300 + "\"", "#" + "9" * 64 + "#", "#" + "9" * 65 + "#",
              "0b0b1", "0b0B1", "0x0b1", "15.0e308", "0.0e309", "1.5e308", "1.5e-999", "1...", "1. .5", "1 ..5",
              "instant", "instantx", "instant x", "toé", "to1", "in€", "²", ".²", "1.", "1.e5", "1.5.5", "1e+",
              "1e-5", "10e-1", "1e-0", "0d19", "0x", "0xg", "٣", "一", "\"a\\\"b\"", "\"a\\", "\"\\\"",
              "1e5e5", "0O17", "1E5", "<==", "!==", ">==", "a<=b", "x±1", "#a#b#", "#\"#", "\"#\"", "", "  ",
              " x ", "to", "in", "to in", "into", "tox", "1to2", "1in2", "$5", "€_1", "1.5e+308",
              "179769313486231580793728971405303415079934132710037826936173778980444968292764750946649017977587207096330286416692887910946555547851940402630657488671505820681908902000708383676273854845817711531764475730270069855571366959622842914819860834936475292719074168444365510704342711559699508093042880177904174497791.9",
              "μs", "5μm", "aμ", "toμ", "inμ", "μ", "1μ", "00012", "0b", "0b1", "0o8", "0d", "0dA", "1_000", "a.b", "..", ". .", "1.e", ".5e1", "5.e-1"]


# ------------------------------------------------------------------ numeration of strings
def nth_string(alpha, n):
    k = len(alpha)
    out = []
    while n:
        m = n - 1
        out.append(alpha[m % k])
        n = m // k
    return "".join(out)


def count_upto(k, L):
    return sum(k ** i for i in range(L + 1))


# ------------------------------------------------------------------ implementation side
def _enc_val(v):
    if isinstance(v, bool):
        return "B:%s" % v
    if isinstance(v, int):
        return "I:%d" % v
    if isinstance(v, Fraction):
        return "F:%d/%d" % (v.numerator, v.denominator)
    if isinstance(v, float):
        if v != v or v in (float("inf"), float("-inf")):
            return "X:%r" % v
        return "X:" + v.hex()
    return "O:%s" % type(v).__name__


def _cps(s):
    return ".".join(str(ord(c)) for c in s)


def impl_line(s, T):
    """-> (line, tokens or None, exception or None)"""
    try:
        toks = T.tokenise(s)
    except (T.UnknownTokenError, T.BadNumberError, T.UnclosedStringError, T.UnclosedInstantError) as e:
        if type(e.index) is not int:      # the reported position must be an index of the input
            return "E %s ?%s" % (ERR_SHORT[type(e).__name__], type(e.index).__name__), None, e
        return "E %s %d" % (ERR_SHORT[type(e).__name__], e.index), None, e
    except C.CaseTimeout:
        raise
    except BaseException as e:
        return "X %s" % type(e).__name__, None, e
    parts = []
    for t in toks:
        tag, meta = t.tag, t._meta
        if tag == "number":
            k, v = "N", _enc_val(meta.get("value"))
        elif tag == "string":
            k, v = "S", "T:" + _cps(meta.get("value"))
        elif tag == "identifier":
            k, v = "V", "T:" + _cps(meta.get("name"))
        elif tag == "instant" and "value" in meta:
            k, v = "H", "T:" + _cps(meta["value"])
        elif tag in T.CONST_TOKENS and not meta:
            k, v = "C%d" % T.CONST_TOKENS.index(tag), "-"
        else:
            k, v = "?" + tag, "?"
        parts.append("%s,%d,%d,%s" % (k, t.begin_index_incl, t.end_index_excl, v))
    return "K " + " ".join(parts), toks, None


def exact_number(lex):
    """Independent exact value of a number spelling: ('int', n) | ('frac', Fraction) |
    ('dec', Fraction) | ('bad', why).  Positional notation, no int()/float()."""
    DIG = "0123456789abcdef"
    if len(lex) >= 3 and lex[0] == "0" and lex[1] in "xobd":
        base = {"x": 16, "o": 8, "b": 2, "d": 10}[lex[1]]
        ds = lex[2:]
        n = len(ds)
        tot = 0
        for i, ch in enumerate(ds):
            v = DIG.find(ch.lower())
            if v < 0 or v >= base:
                return ("bad", "digit %r not valid in base %d" % (ch, base)), "based"
            tot += v * base ** (n - 1 - i)
        return ("int", tot), "based"
    mant, _, ex = lex.partition("e")
    def dec(ds):
        return sum((ord(c) - 48) * 10 ** (len(ds) - 1 - i) for i, c in enumerate(ds))
    if any(c not in "0123456789.e+-" for c in lex):
        return ("bad", "not a number spelling"), "?"
    e = 0
    if ex:
        sg = -1 if ex[0] == "-" else 1
        e = sg * dec(ex.lstrip("+-"))
    if "." in mant:
        a, _, b = mant.partition(".")
        q = Fraction(dec(a + b), 10 ** len(b)) * Fraction(10) ** e
        return ("dec", q), ("decimal-sci" if ex else "decimal")
    m = dec(mant)
    if not ex:
        return ("int", m), "int"
    if e < 0:
        return ("frac", Fraction(m, 10 ** -e)), "sci"
    return ("int", m * 10 ** e), "sci"


FLT_MIN_NORMAL = Fraction(2) ** -1022
FLT_OVER = Fraction(2) ** 1024 - Fraction(2) ** 970


def float_close(f, q):
    """is the float f an acceptable image of the exact rational q (relative 1e-15 in the normal
    range; absolute 2^-1072 below it)"""
    if f != f or f in (float("inf"), float("-inf")):
        return False
    d = abs(Fraction(f) - q)
    if abs(q) >= FLT_MIN_NORMAL:
        return d <= abs(q) * Fraction(1, 10 ** 15)
    # below the normal range no float is within 1e-15: the property's tolerance does not apply;
    # any float that is itself not above the normal threshold is accepted
    return abs(Fraction(f)) <= FLT_MIN_NORMAL * (1 + Fraction(1, 10 ** 15))


def bad_number_legit(s, i):
    """Independent reading of the spelling at i: is a BadNumberError there justified?
    (no number spelling starts there; a based literal with a digit >= base; a decimal whose exact
    value is beyond the float range).  Integer and integer-mantissa spellings always have a value."""
    D = "0123456789"
    H = "0123456789abcdefABCDEF"
    n = len(s)
    if i + 2 < n and s[i] == "0" and s[i + 1] in "xobd" and s[i + 2] in H:
        j = i + 2
        while j < n and s[j] in H:
            j += 1
        base = {"x": 16, "o": 8, "b": 2, "d": 10}[s[i + 1]]
        return any("0123456789abcdef".index(c.lower()) >= base for c in s[i + 2:j]), "based"
    j = i
    while j < n and s[j] in D:
        j += 1
    a = s[i:j]
    dot = j < n and s[j] == "."
    b = ""
    if dot:
        k = j + 1
        while k < n and s[k] in D:
            k += 1
        b = s[j + 1:k]
        j = k
    if not a and not b:
        return True, "no-spelling"
    if not dot:
        return False, "int"
    e = 0
    if j < n and s[j] == "e":
        k = j + 1
        sg = 1
        if k < n and s[k] in "+-":
            sg = -1 if s[k] == "-" else 1
            k += 1
        k0 = k
        while k < n and s[k] in D:
            k += 1
        if k > k0:
            e = sg * int(s[k0:k])
    q = Fraction(int((a + b) or "0"), 10 ** len(b)) * Fraction(10) ** e
    return q >= FLT_OVER * (1 - Fraction(1, 10 ** 15)), "decimal"


def short(q):
    t = str(q)
    return t if len(t) < 60 else "%s (~%.17g)" % (t[:24] + "..." + t[-12:], float(q)) if abs(q) < FLT_OVER else t[:24] + "...(%d digits)" % len(t)


def unclosed_ref(s, i):
    """does a string opened at i lack a closing delimiter (backslash-quote pairs skipped)"""
    j = i + 1
    while j < len(s):
        if s[j] == "\\" and j + 1 < len(s) and s[j + 1] == "\"":
            j += 2
        elif s[j] == "\"":
            return False
        else:
            j += 1
    return True


def closing_ref(s, i):
    """index of the closing delimiter of a string opened at i (backslash-quote pairs skipped), or None"""
    j = i + 1
    while j < len(s):
        if s[j] == "\\" and j + 1 < len(s) and s[j + 1] == "\"":
            j += 2
        elif s[j] == "\"":
            return j
        else:
            j += 1
    return None


def _key(toks):
    out = []
    for t in toks:
        m = tuple(sorted((k, (type(v).__name__, repr(v))) for k, v in t._meta.items()))
        out.append((t.tag, m))
    return out


RANGE_FORM = re.compile(r"([0-9]+)\.\.([0-9]*)")


def relations(s, toks, exc, T, ws_choices):
    """The property's own relations on the implementation's result. -> list of (signature, text)"""
    bad = []
    m = RANGE_FORM.fullmatch(s)
    if m:          # "a.." / "a..b": number, range(, number)
        a, b = m.group(1), m.group(2)
        exp = [("number", 0, len(a), int(a)), ("..", len(a), len(a) + 2, None)] + ([("number", len(a) + 2, len(s), int(b))] if b else [])
        got = None if toks is None else [(t.tag, t.begin_index_incl, t.end_index_excl, t._meta.get("value")) for t in toks]
        if got != exp or any(type(g[3]) is not type(e[3]) for g, e in zip(got or [], exp)):
            bad.append((dict(kind="range-lex"), "%r must lex as number, range%s; got %r" % (s, ", number" if b else "", got if got is not None else type(exc).__name__)))
            return bad
    if exc is not None:
        if isinstance(exc, (T.UnknownTokenError, T.BadNumberError, T.UnclosedStringError, T.UnclosedInstantError)) \
                and type(exc.index) is not int:
            bad.append((dict(kind="error-position", what=type(exc).__name__ + ":not-an-index"),
                        "%s carries %r, which is not a position of the input" % (type(exc).__name__, exc.index)))
            return bad
        if isinstance(exc, T.UnclosedStringError):
            i = exc.index
            if not (0 <= i < len(s) and s[i] == "\"" and unclosed_ref(s, i)):
                bad.append((dict(kind="unclosed-position", what="string"),
                            "UnclosedStringError index %r is not an opening quote without a closing one" % (i,)))
        elif isinstance(exc, T.UnclosedInstantError):
            i = exc.index
            if not (0 <= i < len(s) and s[i] == "#" and "#" not in s[i + 1:]):
                bad.append((dict(kind="unclosed-position", what="instant"),
                            "UnclosedInstantError index %r is not an opening # without a closing one" % (i,)))
        elif isinstance(exc, (T.UnknownTokenError, T.BadNumberError)):
            i = exc.index
            if not (0 <= i < len(s)) or s[i].isspace():
                bad.append((dict(kind="error-position", what=type(exc).__name__),
                            "%s index %r is outside the input or on whitespace" % (type(exc).__name__, i)))
            elif isinstance(exc, T.UnknownTokenError):
                c = s[i]
                nxt = s[i + 1] if i + 1 < len(s) else ""
                lexable = (c in "\"#" or c.isnumeric() or (c == "." and nxt != "" and nxt.isnumeric()) or c in IDENT_START
                           or any(s.startswith(t, i) and not (t.isalpha() and i + len(t) < len(s) and s[i + len(t)].isalpha())
                                  for t in T.CONST_TOKENS))
                if lexable:
                    bad.append((dict(kind="unknown-token-at-lexable-position"),
                                "UnknownTokenError at %d although a token can start there (%r)" % (i, s[i:i + 8])))
            elif isinstance(exc, T.BadNumberError):
                legit, form = bad_number_legit(s, i)
                if not legit:
                    bad.append((dict(kind="literal-value", form="decimal-sci" if form == "decimal" else form, cause="rejected-in-range"),
                                "BadNumberError at %d although the spelling there has an exact value inside the float range" % i))
        else:
            bad.append((dict(kind="escaped-exception", cls=type(exc).__name__),
                        "tokenise raised %s instead of tokens or a lexical error" % type(exc).__name__))
        return bad
    pos = 0
    n = len(s)
    for k, t in enumerate(toks):
        b, e = t.begin_index_incl, t.end_index_excl
        if not (pos <= b < e <= n):
            bad.append((dict(kind="segmentation", what="span-order"), "token %d has span (%d,%d) after position %d in a string of length %d" % (k, b, e, pos, n)))
            return bad
        if not all(c.isspace() for c in s[pos:b]):
            bad.append((dict(kind="segmentation", what="gap-not-whitespace"), "characters %r skipped between tokens" % s[pos:b]))
        lex = s[b:e]
        nxt = s[e] if e < n else ""
        tag, meta = t.tag, t._meta
        if tag == "number":
            (kind, val), form = exact_number(lex)
            v = meta.get("value")
            ok = True
            why = ""
            if kind == "bad":
                ok, why = False, "the spelling has no value (%s) but lexed as %r" % (val, v)
            elif kind == "int":
                ok = type(v) is int and v == val
            elif kind == "frac":
                ok = isinstance(v, Fraction) and v == val
            else:
                ok = isinstance(v, float) and float_close(v, val)
            if not ok:
                cause = ("no-such-digit" if kind == "bad" else
                         "infinite" if isinstance(v, float) and v in (float("inf"), float("-inf")) else "wrong")
                bad.append((dict(kind="literal-value", form=form, cause=cause),
                            why or "literal %r has exact value %s but lexed as %r" % (lex, short(val), v)))
            if nxt and nxt in "0123456789":
                bad.append((dict(kind="maximal-munch", what="number"), "number %r is followed by the digit %r" % (lex, nxt)))
        elif tag == "identifier":
            if meta.get("name") != lex or not lex or lex[0] not in IDENT_CHARS - set("0123456789_") or any(c not in IDENT_CHARS for c in lex):
                bad.append((dict(kind="lexeme", what="identifier"), "identifier token %r over lexeme %r" % (meta.get("name"), lex)))
            if nxt and nxt in IDENT_CHARS:
                bad.append((dict(kind="maximal-munch", what="identifier"), "identifier %r is followed by %r" % (lex, nxt)))
            if lex in ("to", "in") and not (nxt and nxt.isalpha()):
                bad.append((dict(kind="keyword", what="not-keyword"), "%r not followed by a letter lexed as an identifier" % lex))
        elif tag == "string":
            if not (len(lex) >= 2 and lex[0] == "\"" and lex[-1] == "\"" and meta.get("value") == lex[1:-1]):
                bad.append((dict(kind="lexeme", what="string"), "string token %r over lexeme %r" % (meta.get("value"), lex)))
            elif closing_ref(s, b) != e - 1:
                cl = closing_ref(s, b)
                bad.append((dict(kind="string-extent", what="unclosed-accepted" if cl is None else "wrong-closing-delimiter"),
                            "string opened at %d ends at %d, but %s" % (b, e - 1, "it has no closing delimiter (must be reported unclosed at %d)" % b
                                                                        if cl is None else "its closing delimiter is at %d" % cl)))
        elif tag == "instant" and "value" in meta:
            if not (len(lex) >= 2 and lex[0] == "#" and lex[-1] == "#" and meta["value"] == lex[1:-1] and "#" not in lex[1:-1]):
                bad.append((dict(kind="lexeme", what="instant"), "instant token %r over lexeme %r" % (meta["value"], lex)))
        else:
            if tag != lex or tag not in T.CONST_TOKENS:
                bad.append((dict(kind="lexeme", what="constant"), "constant token %r over lexeme %r" % (tag, lex)))
            if tag.isalpha() and nxt and nxt.isalpha():
                bad.append((dict(kind="keyword", what="keyword-before-letter"), "%r followed by the letter %r lexed as a keyword" % (tag, nxt)))
            for t2 in T.CONST_TOKENS:
                if len(t2) > len(tag) and s.startswith(t2, b) and not (t2.isalpha() and b + len(t2) < n and s[b + len(t2)].isalpha()):
                    bad.append((dict(kind="longest-match", what="constant"), "%r chosen at %d although %r matches there" % (tag, b, t2)))
        pos = e
    if not all(c.isspace() for c in s[pos:]):
        bad.append((dict(kind="segmentation", what="gap-not-whitespace"), "characters %r skipped after the last token" % s[pos:]))
    # whitespace insertion at every token boundary
    base = _key(toks)
    cuts = sorted(set([0, n] + [t.begin_index_incl for t in toks] + [t.end_index_excl for t in toks]))
    for p in cuts:
        for w in ws_choices:
            s2 = s[:p] + w + s[p:]
            try:
                k2 = _key(T.tokenise(s2))
            except C.CaseTimeout:
                raise
            except BaseException as x:
                k2 = "raises %s" % type(x).__name__
            if k2 != base:
                left = next((t.tag for t in toks if t.end_index_excl == p), "^")
                right = next((t.tag for t in toks if t.begin_index_incl == p), "$")
                gen = lambda g: g if g in ("number", "identifier", "string", "instant", "^", "$") else "const"
                bad.append((dict(kind="whitespace-insertion", left=gen(left), right=gen(right)),
                            "inserting %r at boundary %d of %r changes the tokens: %r -> %r" % (w, p, s, base, k2)))
                break
    return bad


def impl_batch(job):
    """One shard on the live implementation: the observable line per string, the failed relations."""
    import ka.tokens as T
    if job["kind"] == "idx":
        alpha = job["alpha"]
        strs = [nth_string(alpha, n) for n in range(job["lo"], job["hi"])]
    else:
        strs = job["strs"]
    lines, fails = [], []
    st = dict(ok=0, err=0, tokens=0, ws_checks=0, numbers=0)
    for k, s in enumerate(strs):
        line, toks, exc = impl_line(s, T)
        lines.append(line)
        h = (len(s) * 7 + k) % len(WS)
        wsc = [WS[h]] if job.get("light") else [WS[h], WS[(h + 3) % len(WS)] + " "]
        bad = relations(s, toks, exc, T, wsc)
        if toks is not None:
            st["ok"] += 1
            st["tokens"] += len(toks)
            st["ws_checks"] += len(wsc) * len(set([0, len(s)] + [t.begin_index_incl for t in toks] + [t.end_index_excl for t in toks]))
            st["numbers"] += sum(1 for t in toks if t.tag == "number")
        else:
            st["err"] += 1
        for sig, txt in bad:
            fails.append((s, sig, txt))
    return dict(lines=lines, fails=fails[:50], nfails=len(fails), st=st)


def impl_shrink(cands):
    """first candidate substring on which a relation of the property fails"""
    import ka.tokens as T
    for c in cands:
        line, toks, exc = impl_line(c, T)
        bad = relations(c, toks, exc, T, [" "])
        if bad:
            return (c, bad[0][0], bad[0][1], line)
    return None


def impl_execute(s):
    """through execute(): a lexical error is a status-1 diagnostic with the caret under the index;
    a lone exact literal prints its exact value."""
    import io
    import ka.tokens as T
    import ka.interpret as I
    from ka.eval import EvalEnvironment
    line, toks, exc = impl_line(s, T)
    o, e = io.StringIO(), io.StringIO()
    r = dict(s=s, line=line)
    try:
        r["status"] = I.execute(s, EvalEnvironment(), out=o, errout=e)
    except C.CaseTimeout:
        raise
    except BaseException as x:
        r["escaped"] = type(x).__name__
        r["status"] = None
    r["out"], r["err"] = o.getvalue(), e.getvalue()
    if exc is not None and hasattr(exc, "index"):
        r["cls"] = type(exc).__name__
        msg = {"UnknownTokenError": "Unknown token!", "BadNumberError": "Bad number! (Probably mixing number bases).",
               "UnclosedStringError": "String is missing closing delimiter.",
               "UnclosedInstantError": "Instant/date is missing closing delimiter."}[type(exc).__name__]
        exp = io.StringIO()
        I.error(msg, exc.index, s, exp)
        r["expect_err"] = exp.getvalue()
    return r


# ------------------------------------------------------------------ generators
def rand_lexeme(rng, consts):
    k = rng.random()
    D = "0123456789"
    def digs(a, b, alpha=D):
        return "".join(rng.choice(alpha) for _ in range(rng.randint(a, b)))
    if k < 0.03:
        return digs(1, rng.choice([1, 2, 9])) + ".." + digs(0, rng.choice([1, 2, 9]))
    if k < 0.10:
        return digs(1, rng.choice([1, 3, 25]))
    if k < 0.20:
        b = rng.choice("xobd")
        al = {"x": "0123456789abcdefABCDEF", "o": "01234567", "b": "01", "d": D}[b]
        r = rng.random()
        if r < 0.12:
            al = "0123456789abcdefABCDEF"
        body = digs(1, rng.choice([1, 4, 20]), al)
        if r > 0.9:
            body = rng.choice(["0b", "0B", "0x", "0o", "0d"]) + body
        return "0" + b + body
    if k < 0.30:
        return digs(1, 6) + "e" + rng.choice(["", "+", "-"]) + rng.choice([digs(1, 2), str(rng.choice([0, 1, 22, 300, 308, 309, 320, 400]))])
    if k < 0.42:
        a, b = digs(0, rng.choice([1, 4, 18])), digs(0, rng.choice([1, 4, 18]))
        if not a and not b:
            a = "7"
        m = a + "." + b
        if rng.random() < 0.5:
            m += "e" + rng.choice(["", "+", "-"]) + rng.choice([digs(1, 2), str(rng.choice([0, 5, 17, 290, 300, 307, 308, 309, 310, 330, 340]))])
        return m
    if k < 0.50:
        body = "".join(rng.choice(["a", "b", " ", "\\\"", "\\", "é", "#", "1", "'", "\\\\", "€"]) for _ in range(rng.randint(0, 6)))
        return "\"" + body + ("\"" if rng.random() < 0.9 else "")
    if k < 0.56:
        body = "".join(rng.choice(["2", "0", "-", ":", " ", "T", "\"", "a", "é"]) for _ in range(rng.randint(0, 8)))
        return "#" + body + ("#" if rng.random() < 0.9 else "")
    if k < 0.70:
        if rng.random() < 0.45:
            return rng.choice(["to", "in", "instant", "tox", "int", "into", "in2", "to_", "t", "i", "ins", "instan", "instants", "toe", "e", "e5", "x1F", "b1", "d", "o7", "inf"])
        return rng.choice("abextoinAFdzZμ€$£¥") + "".join(rng.choice("abexto_019AFμ€$£¥") for _ in range(rng.randint(0, 5)))
    if k < 0.94:
        return rng.choice(consts)
    return rng.choice(["@", "²", "é", "_", "½", ".", "'", "\\", "٣", "一", "~", "&"])


HUGE_EXP = re.compile(r"[0-9.]e[-+]?[0-9]{4,}")


def rand_sequence(rng, consts):
    """Adjacent lexemes may merge (no separator); a merged exponent of four or more digits is
    rejected: 10**exponent is computed eagerly by the lexer (and by the model)."""
    while True:
        n = rng.choice([1, 2, 2, 3, 3, 4, 5, 6, 8])
        seps = ["", "", " ", " ", "  ", "\t", "\n", "\u00a0", " \t", "\u2003"]
        out = [rng.choice(["", "", " ", "\t "])]
        for i in range(n):
            out.append(rand_lexeme(rng, consts))
            out.append(rng.choice(seps))
        s = "".join(out)
        if not HUGE_EXP.search(s):
            return s


def representative_lexemes(consts):
    return sorted(set(consts)) + ["1", "0", "12", "1.", ".5", "1.5", "1e5", "1e+5", "1e-5", "1.5e3", "1.e2", "0x1F", "0b1", "0o7",
                                  "0d9", "0b2", "1e", "1e+", "0x", "a", "e", "e5", "x", "b", "d", "t", "i", "n", "tox", "int", "instantx",
                                  "_", "€", "$x", "μ", "μm", "\"s\"", "\"\"", "\"a\\\"\"", "#d#", "##", "\"", "#", ".", "²", "é", "@", "\\", "A", "F"]


# ------------------------------------------------------------------ comparison
def parse_line(line):
    head, _, rest = line.partition(" ")
    if head != "K":
        return head, rest
    return "K", [tuple(t.split(",", 3)) for t in rest.split(" ") if t]


def lines_agree(m, i):
    if m == i:
        return True
    hm, tm = parse_line(m)
    hi, ti = parse_line(i)
    if hm != hi or hm != "K" or len(tm) != len(ti):
        return False
    for a, b in zip(tm, ti):
        if a == b:
            continue
        if a[:3] != b[:3] or not (a[3].startswith("X:") and b[3].startswith("X:")):
            return False
        try:
            q = Fraction(a[3][2:])
            f = float.fromhex(b[3][2:])
        except ValueError:
            return False
        if not float_close(f, q):
            return False
    return True


def check_classes(consts):
    """class_ok_b of Model/Lexer.v evaluated on every code point with CPython's own functions."""
    sig = set("\"#.+-") | IDENT_CHARS | set("".join(consts))
    letters = set("abcdefghijklmnopqrstuvwxyzABCDEFGHIJKLMNOPQRSTUVWXYZ")
    bad = []
    for cp in range(0x110000):
        c = chr(cp)
        sp, al, nu = c.isspace(), c.isalpha(), c.isnumeric()
        ok = ((not sp or (c not in sig and not al and not nu))
              and (c not in letters or al)
              and (c not in IDENT_START or not nu)
              and (not (c in sig and al) or c in IDENT_CHARS)
              and (c not in "0123456789" or nu)
              and (c != "." or not nu))
        if not ok:
            bad.append(cp)
    return bad


def coq_text(s):
    return "[" + ";".join(str(ord(c)) for c in s) + "]"


def run(ctx):
    C.config_matrix(ctx["report"], ctx["rundir"], "C11", ["1" * 1500 + " % 7", "0d" + "1" * 1500 + " % 7", "0x" + "F" * 1300 + " % 255", "1e-5 + 0", "1.5e300 * 0", "1..5", "0b102", "\"abc", "#2024", "12 500", "3 m\u00a0s"])
    rep, tier, seed = ctx["report"], ctx["tier"], ctx["seed"]
    import time
    T0 = time.time()

    def lap(what):
        C.log("  [c11] %-28s %.1fs" % (what, time.time() - T0))
    rng = random.Random(seed * 104729 + 11)
    sys.path.insert(0, C.SRC)
    d = json.load(open(C.BUILD + "/dump.json"))
    consts = d["const_tokens"]
    quick = tier == "quick"

    # ---------------- cases
    explicit = []          # (family, string)
    if ctx.get("replay"):
        r = json.load(open(ctx["replay"]))
        explicit = [("replay", x["input"]) for x in [r["replay"]] + r.get("more", []) if "input" in x]
        idx_jobs = []
    else:
        explicit += [("regression", s) for s in REGRESSION]
        reps = representative_lexemes(consts)
        for a in reps:
            for b in reps:
                explicit.append(("pairs", a + b))
                explicit.append(("pairs", a + " " + b))
        n_rand = 8000 if quick else 120000
        for _ in range(n_rand):
            explicit.append(("random", rand_sequence(rng, consts)))
        L_full, L_red = (3, 4) if quick else (4, 5)
        red1 = RED1[:12] if quick else RED1
        red2 = RED2[:10] if quick else RED2
        idx_jobs = [("full", ALPHABET, 0, count_upto(len(ALPHABET), L_full)),
                    ("red1", red1, count_upto(len(red1), L_full), count_upto(len(red1), L_red)),
                    ("red2", red2, count_upto(len(red2), L_full), count_upto(len(red2), L_red))]
    seen = set()
    ex = []
    for fam, s in explicit:
        if s not in seen:
            seen.add(s)
            ex.append((fam, s))
    explicit = ex

    bad_cps = check_classes(consts)
    if bad_cps:
        rep.violation(dict(kind="class-hypothesis"),
                      "CPython's isspace/isalpha/isnumeric violate Lexer.class_ok_b on code points %r: the theorems' hypothesis does not hold" % bad_cps[:8],
                      dict(code_points=bad_cps[:50]), found_input=False)

    lap("cases+class check")
    # ---------------- implementation
    SH = 4000
    jobs = []
    for name, alpha, lo, hi in idx_jobs:
        for a in range(lo, hi, SH):
            jobs.append(dict(kind="idx", name=name, alpha=alpha, lo=a, hi=min(hi, a + SH), light=not quick and name == "full"))
    ex_strs = [s for _, s in explicit]
    for a in range(0, len(ex_strs), SH):
        jobs.append(dict(kind="list", name="explicit", strs=ex_strs[a:a + SH]))
    res = C.run_impl(impl_batch, jobs, ctx["rundir"], limit=600.0, chunksize=1)
    if any(r.get("hung") for r in res):
        raise RuntimeError("an implementation shard hung")

    lap("implementation shards")
    # ---------------- model
    try:   # a shard's output is one long Coq string: give coqc a deep stack
        import resource
        resource.setrlimit(resource.RLIMIT_STACK, (resource.RLIM_INFINITY, resource.RLIM_INFINITY))
    except Exception:
        pass
    model_lines = {}
    if ctx["model_ok"]:
        used = set("".join(ALPHABET + RED1 + RED2)) | set("".join(ex_strs))
        cps = sorted(ord(c) for c in used)
        tbl = lambda f: "[" + ";".join(str(c) for c in cps if f(chr(c))) + "]"
        extra = ("Definition T_space : list N := %s.\nDefinition T_alpha : list N := %s.\nDefinition T_num : list N := %s.\n"
                 "Definition lex (s : list N) : string := show_lres_short (ka_tokenise (in_table T_space) (in_table T_alpha) (in_table T_num) s).\n"
                 % (tbl(str.isspace), tbl(str.isalpha), tbl(str.isnumeric)))
        tasks = []
        for name, alpha, lo, hi in idx_jobs:
            ex2 = extra + "Definition ALPHA : list N := %s.\nDefinition lexn (n : N) : string := lex (nth_string 12 ALPHA %d n).\n" % (coq_text("".join(alpha)), len(alpha))
            tasks.append((name, "c11" + name, "lexn", [str(n) for n in range(lo, hi)], SH, ex2, "N"))
        tasks.append(("explicit", "c11ex", "lex", [coq_text(s) for s in ex_strs], 1000, extra, "list N"))

        def go(t):
            name, tag, show, terms, shard, ex2, ct = t
            return name, C.run_model(ctx["rundir"], tag, IMPORTS, show, terms, shard=shard, extra_defs=ex2, case_type=ct)
        from concurrent.futures import ThreadPoolExecutor
        with ThreadPoolExecutor(len(tasks)) as pool:
            for name, outs in pool.map(go, tasks):
                model_lines[name] = outs
        # the class hypothesis on the instantiated tables, for every character used
        chk = C.run_model(ctx["rundir"], "c11cls", IMPORTS,
                          "fun c => if class_ok_b (in_table T_space) (in_table T_alpha) (in_table T_num) gen_ctoks c then \"1\" else \"0\"",
                          [str(c) for c in cps], shard=5000, extra_defs=extra, case_type="N")
        if any(x != "1" for x in chk):
            rep.violation(dict(kind="class-hypothesis-tables"), "class_ok_b fails on the instantiated tables",
                          dict(code_points=[c for c, x in zip(cps, chk) if x != "1"][:20]), found_input=False)

    lap("model shards")
    # ---------------- compare
    stats = dict(ok=0, err=0, tokens=0, ws_checks=0, numbers=0)
    fam_count = {}
    disagreements = 0
    nontrivial = 0
    samples = []
    fail_inputs = {}
    pos = {}
    pending = []
    for job, r in zip(jobs, res):
        for k in stats:
            stats[k] += r["st"][k]
        if job["kind"] == "idx":
            strs = [nth_string(job["alpha"], n) for n in range(job["lo"], job["hi"])]
            base = job["lo"] - [j for j in idx_jobs if j[0] == job["name"]][0][2]
        else:
            strs = job["strs"]
            base = pos.get("explicit", 0)
            pos["explicit"] = base + len(strs)
        fam_count[job["name"]] = fam_count.get(job["name"], 0) + len(strs)
        for s, sig, txt in r["fails"]:
            fail_inputs.setdefault(s, []).append(sig)
            rep.violation(sig, "C11 fails on the implementation for input %r: %s" % (s, txt), dict(input=s, relation=sig, detail=txt))
        ml = model_lines.get(job["name"])
        for k, (s, il) in enumerate(zip(strs, r["lines"])):
            if il.startswith("K ") and len(il) > 2:
                nontrivial += 1
            elif il.startswith("E "):
                nontrivial += 1
            if ml is None:
                continue
            m = ml[base + k]
            if len(samples) < 8 and (base + k) % 7919 == 13:
                samples.append(dict(input=s, impl=il, model=m))
            if not lines_agree(m, il):
                disagreements += 1
                if s in fail_inputs:
                    continue            # already reported as a failure of the property itself
                pending.append((s, il, m))

    lap("compare")
    # ---------------- disagreements whose whole-input result passes the relations: the deviation may be
    # hidden behind a later error; look for a piece of the input on which a relation fails
    if pending:
        cand = []
        for s, il, m in pending[:400]:
            parts = [x for x in re.split(r"\s+", s) if x]
            cs = []
            for a in range(len(parts)):
                cs.append(parts[a])
                if a + 1 < len(parts):
                    cs.append(parts[a] + parts[a + 1])
                    cs.append(parts[a] + " " + parts[a + 1])
            cs += [s[:j] for j in range(1, min(len(s), 64) + 1)]
            for line in (m, il):          # prefixes that start where either side reports an error
                f = line.split(" ")
                if f[0] == "E" and f[-1].isdigit():
                    i0 = int(f[-1])
                    cs += [s[i0:j] for j in range(i0 + 1, min(len(s), i0 + 48) + 1)]
            cand.append(cs)
        sh = C.run_impl(impl_shrink, cand, ctx["rundir"], limit=30.0)
        for (s, il, m), r in zip(pending[:400], sh):
            if r and not (isinstance(r, dict) and r.get("hung")):
                c, sig, txt, line = r
                rep.violation(sig, "C11 fails on the implementation for input %r (a piece of %r, on which model and implementation disagree): %s" % (c, s, txt),
                              dict(input=c, within=s, relation=sig, detail=txt, impl=line))
            else:
                rep.violation(dict(kind="correspondence", impl=il.split(" ")[0] + ":" + (il.split(" ")[1] if il.startswith("E") else ""),
                                   model=m.split(" ")[0] + ":" + (m.split(" ")[1] if m.startswith("E") else "")),
                              "model and tokenise() disagree on %r: implementation %s, model %s (no relation of the property fails on the implementation's result)" % (s, il, m),
                              dict(input=s, impl=il, model=m), found_input=False)

    # ---------------- regression expectations (property level, stated directly)
    import importlib
    expect = {"1.23457e+06": "K N,0,11,X:0x1.2d68a00000000p+20", "1.5e999": "E B 0",
              "1..5": "K N,0,1,I:1 C0,1,3,- N,3,4,I:5", "0x1F": "K N,0,4,I:31", "0b102": "E B 0",
              "int": "K V,0,3,T:105.110.116", "in t": "K C%d,0,2,- V,3,4,T:116" % consts.index("in"),
              "\"abc": "E S 0", "#2024": "E H 0",
              "0b0b1": "E B 0", "0b0B1": "E B 0", "15.0e308": "E B 0", "0.0001e310": "K N,0,10,X:0x1.6c8e5ca239029p+1016",
              "instant": "K V,0,7,T:105.110.115.116.97.110.116", "0.0e309": "K N,0,7,X:0x0.0p+0"}
    reg_lines = dict(zip(ex_strs, itertools.chain.from_iterable(r["lines"] for j, r in zip(jobs, res) if j["kind"] == "list")))
    for s, e in expect.items():
        got = reg_lines.get(s)
        if got is not None and got != e and s not in fail_inputs:
            rep.violation(dict(kind="regression", input=s), "regression input %r lexes as %s, expected %s" % (s, got, e),
                          dict(input=s, impl=got, expected=e))

    lap("shrink+regression")
    # ---------------- through execute()
    sub = [s for s in REGRESSION] + [s for f, s in explicit if f == "random"][: (300 if quick else 3000)]
    if ctx.get("replay"):
        sub = ex_strs
    eres = C.run_impl(impl_execute, sub, ctx["rundir"], limit=10.0)
    n_exec_err = 0
    for r in eres:
        if r.get("hung"):
            continue
        if "expect_err" in r:
            n_exec_err += 1
            if r.get("status") != 1 or r.get("err") != r["expect_err"] or r.get("out"):
                rep.violation(dict(kind="execute-lexical-error", cls=r.get("cls")),
                              "execute(%r): tokenise gives %s but execute() reports status %r, stderr %r" % (r["s"], r["line"], r.get("status"), r.get("err")),
                              dict(input=r["s"], impl=r))
    # whitespace is whitespace through execute() too: the same text laid out with other space characters between its
    # tokens evaluates to the same result (word-like tokens must not fuse); literals of more than 10000 digits lex exactly
    canon = ["3 m s", "{k : k in 1..3}", "250 cm to m", "h = 2; h m", "1 + 2 * 3", "2 in {1, 2}", "12 500", "x = 4; x to m", "7 to m", "1 .. 3", "5 m to cm"]
    wpairs = []
    for t in canon:
        for ws in ("\u00a0", "\u202f", "\t", "\u2009", "\u3000", "  ", "\u00a0 "):
            wpairs.append((t.replace(" ", ws), t))
    big = "1" * 10001
    bigmod7 = sum(pow(10, k, 7) for k in range(10001)) % 7        # the value of the literal mod 7, without converting a 10001-digit string here
    wpairs += [(big + " % 7", str(bigmod7)), ("0d" + big + " % 7", str(bigmod7)), ("(" + "9" * 12000 + " + 1) / 10^12000", "1"),
               ("0x" + "F" * 9000 + " % 255", "0")]
    C.seam_check(rep, ctx["rundir"], "C11", pairs=wpairs)
    lap("execute lane")
    total = sum(fam_count.values())
    rep.coverage.update(dict(
        evaluations=total, distinct_nontrivial=nontrivial,
        rule="distinct input strings; non-trivial = lexes to at least one token or raises a lexical error. Exhaustive: all strings of length <= %d over the %d-symbol alphabet %r, lengths %d..%d over the reduced alphabets %r and %r; all ordered pairs of %d representative lexemes with and without a space, seeded random token sequences with random whitespace and the regression inputs (%d distinct strings; %d regression inputs)"
             % (L_full if not ctx.get("replay") else 0, len(ALPHABET), "".join(ALPHABET), (L_full + 1) if not ctx.get("replay") else 0, L_red if not ctx.get("replay") else 0,
                "".join(RED1[:12] if quick else RED1), "".join(RED2[:10] if quick else RED2), len(representative_lexemes(consts)), fam_count.get("explicit", 0), len(REGRESSION)),
        exhaustive=True, samples=samples, families=fam_count, lexed_ok=stats["ok"], lexical_errors=stats["err"],
        tokens_checked=stats["tokens"], number_literals_checked=stats["numbers"], whitespace_insertions=stats["ws_checks"],
        traces_validated_against_impl=total if ctx["model_ok"] else 0, disagreements=disagreements,
        through_execute=len(sub), execute_lexical_errors=n_exec_err,
        class_hypothesis_checked_on="all 1114112 code points (CPython) and every character used (instantiated tables, in Coq)"))
    rep.assumptions += [
        "str.isspace/isalpha/isnumeric are external: Section variables constrained by Lexer.class_ok_b, which is checked on every code point",
        "re: the automaton in Lexer.read_num implements the three pattern strings pinned in TokenTableFacts; Python's backtracking semantics for them is tied by the exhaustive correspondence",
        "floats are idealised as exact rationals (LFlt); decimal literals are compared within relative 1e-15 in the normal range only",
        "int(digits, base) and float(decimal) of CPython are external, tied by the literal-value relation against positional notation in Fraction arithmetic"]
