"""C07 — interval arithmetic encloses every point; interval predicates mean 'for all'.
Theorems: coq/Properties/C07.v (all rational bounds/scalars/points; sqrt/log/non-integer powers under
monotonicity premises).  Resolution table tied to the live registry in coq/GenFacts/IntervalFacts.v.
Tie: expressions over numbers, `[a, b]` literals and the interval functions run through execute() (and,
for the comparison registrations the parser never reaches, through dispatch()) and through the Gallina
`eval` in the Coq VM; the scalar sqrt/log/x**r values the model needs are the implementation's own
scalar results (tables), so the interval structure is compared exactly.
Oracle (the property itself, on the implementation only): sampled points p of the operand interval,
op(p, x) computed by the implementation's number registrations, must lie inside the returned interval;
comparison results against brute force over sampled points / endpoints; lower <= upper everywhere."""
import random, json, itertools, math
from fractions import Fraction
import common as C

ID = "C07"
COQ_TARGETS = ["GenFacts/IntervalFacts.vo", "GenFacts/IntervalSrcFacts.vo", "Properties/C07.vo"]
MODEL_TARGETS = ["Model/Interval.vo"]
IMPORTS = "From Ka Require Import Model.Interval.\nOpen Scope string_scope.\n"
CASE_TYPE = "list (Q * Q) * list (Q * Q * Q) * list (Q * Q * Q) * iexpr"
SHOW = "fun c => match c with (ts, tl, tp, e) => eval_tab ts tl tp e end"

FN = {"+": "FAdd", "-": "FSub", "*": "FMul", "/": "FDiv", "%": "FMod", "^": "FPow",
      "<": "FLt", "<=": "FLe", "==": "FEq", "!=": "FNe", ">": "FGt", ">=": "FGe",
      "sqrt": "FSqrt", "ln": "FLn", "log10": "FLog10", "log2": "FLog2", "abs": "FAbs", "log": "FLog",
      "max": "FMax", "min": "FMin", "size": "FSize", "in": "FIn", "interval": "FInterval",
      "contains": "FContains", "lower": "FLower", "upper": "FUpper", "±": "FPm", "tol": "FTol"}
INFIX = {"+", "-", "*", "/", "%", "^", "<", "<=", "==", "!=", ">", ">=", "in", "±"}
CMP = ("<", "<=", ">", ">=")
ENCL2 = ("+", "-", "*", "/", "^", "min", "max", "log")          # interval (x) number -> interval
ENCL1 = ("-", "+", "abs", "sqrt", "ln", "log2", "log10")         # interval -> interval

# ------------------------------------------------------------------ numbers and trees
# number token: "3", "-3/2", "f:<float.hex>", "e".  tree: ["n", tok] | ["c1", name, a] | ["c2", name, a, b]


def tok(v):
    if isinstance(v, float):
        return "f:" + v.hex()
    v = Fraction(v)
    return str(v.numerator) if v.denominator == 1 else "%d/%d" % (v.numerator, v.denominator)


def tok_value(t):
    """exact rational value of a token (floats: the binary value)"""
    if t == "e":
        return Fraction(math.e)
    if t.startswith("f:"):
        return Fraction(float.fromhex(t[2:]))
    return Fraction(t)


def tok_is_float(t):
    return t == "e" or t.startswith("f:")


def N(v):
    return ["n", v if isinstance(v, str) else tok(v)]


def IV(a, b):
    return ["c2", "interval", N(a), N(b)]


def ka_text(t):
    k = t[0]
    if k == "n":
        s = t[1]
        if s == "e":
            return "e"
        if s.startswith("f:"):
            r = repr(float.fromhex(s[2:]))
            return "(%s)" % r if r.startswith("-") else r
        return "(%s)" % s if (s.startswith("-") or "/" in s) else s
    if k == "c1":
        if t[1] in ("-", "+"):
            return "(%s(%s))" % (t[1], ka_text(t[2]))
        return "%s(%s)" % (t[1], ka_text(t[2]))
    name, a, b = t[1], t[2], t[3]
    if name == "interval":
        return "[%s, %s]" % (ka_text(a), ka_text(b))
    if name in INFIX:
        return "(%s %s %s)" % (ka_text(a), name, ka_text(b))
    return "%s(%s, %s)" % (name, ka_text(a), ka_text(b))


def coq_Q(fr):
    fr = Fraction(fr)
    return "(Qmake %s %d%%positive)" % (C.coq_Z(fr.numerator), fr.denominator)


def coq_term(t, surface=True):
    """iexpr of the tree; surface=True applies the parser's flip of a lone > / >= at every node"""
    k = t[0]
    if k == "n":
        return "(ENum %s)" % coq_Q(tok_value(t[1]))
    if k == "c1":
        return "(E1 %s %s)" % (FN[t[1]], coq_term(t[2]))
    if t[1] in (">", ">=") and surface:
        return "(surface_cmp %s %s %s)" % (FN[t[1]], coq_term(t[2]), coq_term(t[3]))
    return "(E2 %s %s %s)" % (FN[t[1]], coq_term(t[2]), coq_term(t[3]))


def tree_has_float(t):
    if t[0] == "n":
        return tok_is_float(t[1])
    return any(tree_has_float(x) for x in t[2:])


def tree_is_floaty(t):
    """a node whose value is computed in float arithmetic even on rational operands: sqrt/log, and
    ^ with a negative or non-integer exponent (int ** -k is a float)"""
    for n in subtrees(t):
        if n[0] == "n":
            continue
        if n[1] in ("sqrt", "ln", "log2", "log10", "log"):
            return True
        if n[1] == "^" and not (n[3][0] == "n" and not tok_is_float(n[3][1])
                                and tok_value(n[3][1]).denominator == 1 and tok_value(n[3][1]) >= 0):
            return True
    return False


def subtrees(t):
    yield t
    if t[0] != "n":
        for x in t[2:]:
            yield from subtrees(x)


# ------------------------------------------------------------------ worker side (implementation)
def _frac(v):
    """exact rational of a Ka number, None if not a finite number"""
    if isinstance(v, bool) or not isinstance(v, (int, float, Fraction)):
        return None
    if isinstance(v, float) and (v != v or v in (float("inf"), float("-inf"))):
        return None
    return Fraction(v)


def _fs(fr):
    return None if fr is None else "%d/%d" % (fr.numerator, fr.denominator)


def _eval_text(text):
    from ka.eval import EvalEnvironment, eval_node
    from ka.tokens import tokenise
    from ka.parse import parse_tokens
    import ka.interpret as I
    return I.reduce_result(eval_node(parse_tokens(tokenise(text)), EvalEnvironment()))


def _dispatch(name, args):
    """(ok, value | exception class name)"""
    import ka.functions as F
    try:
        return True, F.dispatch(name, tuple(args))
    except C.CaseTimeout:
        raise
    except BaseException as x:
        return False, type(x).__name__


def _simp(fr):
    import ka.types as T
    return T.simplify_number(fr)


def _has_float(v):
    import ka.types as T
    if isinstance(v, T.Interval):
        return isinstance(v.a, float) or isinstance(v.b, float)
    return isinstance(v, float)


def _sample_points(iv, rng):
    """>= 7 points of [a, b] as Ka numbers: both endpoints (as they are), midpoint, 0 if inside,
    random rationals"""
    a, b = _frac(iv.a), _frac(iv.b)
    pts = [iv.a, iv.b]
    if a is None or b is None or a > b:
        return pts
    pts.append(_simp((a + b) / 2))
    if a <= 0 <= b:
        pts.append(0)
    for _ in range(5):
        d = rng.choice([2, 3, 5, 7, 16, 97])
        pts.append(_simp(a + (b - a) * Fraction(rng.randrange(0, d + 1), d)))
    eps = (b - a) / 10 ** 6
    pts += [_simp(a + eps), _simp(b - eps)]
    return pts


def impl_case(case):
    import ka.types as T
    tree, via, idx = case["tree"], case["via"], case["idx"]
    rng = random.Random(idx * 2654435761 % (2 ** 31))
    text = ka_text(tree)
    r = dict(text=text)
    o = C.observe(text)
    r["obs"] = {k: o.get(k) for k in ("status", "value", "raw", "escaped")}
    r["err"] = (o.get("err") or "")[:160]
    if o.get("hung"):
        r["hung"] = True
        return r
    taint = tree_has_float(tree) or tree_is_floaty(tree)
    # operand values of the top node, by the implementation
    ops = []
    ops_ok = True
    if tree[0] != "n":
        for sub in tree[2:]:
            try:
                ops.append(_eval_text(ka_text(sub)))
            except C.CaseTimeout:
                raise
            except BaseException as x:
                ops_ok = False
                ops.append(None)
    r["operands"] = [C.enc_value(v) if v is not None else None for v in ops]
    # direct dispatch on the evaluated operands (reaches the ">" / ">=" registrations)
    if via == "dispatch" and ops_ok and tree[0] != "n":
        ok, v = _dispatch(tree[1], ops)
        r["dv"] = C.enc_value(v) if ok else "E:" + v
        top_val, top_ok = (v, True) if ok else (None, False)
    else:
        try:
            top_val, top_ok = _eval_text(text), True
        except C.CaseTimeout:
            raise
        except BaseException:
            top_val, top_ok = None, False
    # scalar tables for the model: every irrational node, at the endpoints (and 0) of its operand
    ts, tl, tp = [], [], []
    for node in subtrees(tree):
        if node[0] == "n":
            continue
        name = node[1]
        if name not in ("sqrt", "ln", "log2", "log10", "log", "^"):
            continue
        try:
            vals = [_eval_text(ka_text(s)) for s in node[2:]]
        except C.CaseTimeout:
            raise
        except BaseException:
            continue
        x = vals[0]
        xs = [x.a, x.b, 0] if isinstance(x, T.Interval) else [x]
        if name in ("log", "^"):
            y = vals[1]
            if _frac(y) is None:
                continue
        for p in xs:
            if _frac(p) is None:
                continue
            if name == "sqrt":
                ok, v = _dispatch("sqrt", [p])
                if ok and _frac(v) is not None:
                    ts.append((_fs(_frac(p)), _fs(_frac(v))))
            elif name in ("ln", "log2", "log10", "log"):
                base = {"ln": math.e, "log2": 2, "log10": 10}.get(name, None)
                if base is None:
                    base = y
                ok, v = _dispatch("log", [p, base])
                if ok and _frac(v) is not None:
                    tl.append((_fs(_frac(base)), _fs(_frac(p)), _fs(_frac(v))))
            else:
                fy = _frac(y)
                if fy.denominator == 1:
                    continue                      # integer exponents are exact in the model
                ok, v = _dispatch("^", [p, y])
                if ok and _frac(v) is not None:
                    tp.append((_fs(_frac(p)), _fs(fy), _fs(_frac(v))))
    r["tables"] = (ts, tl, tp)
    # ---- the property on the implementation
    viol = []
    r["viol"] = viol

    def wf_check(v, where):
        if isinstance(v, T.Interval):
            a, b = _frac(v.a), _frac(v.b)
            if a is None or b is None or a > b:
                viol.append(dict(kind="lower>upper", where=where, value=C.enc_value(v)))

    if top_ok:
        wf_check(top_val, "result")
        if _has_float(top_val):
            taint = True
    for v in ops:
        if v is not None:
            wf_check(v, "operand")
            if _has_float(v):
                taint = True
    r["taint"] = taint
    if tree[0] == "n" or not ops_ok:
        return r
    name = tree[1]
    samples = []
    r["samples"] = samples
    ivpos = [i for i, v in enumerate(ops) if isinstance(v, T.Interval)]

    def inside(v, R):
        fv, ra, rb = _frac(v), _frac(R.a), _frac(R.b)
        if fv is None or ra is None or rb is None:
            return False
        if taint or isinstance(v, float) or isinstance(R.a, float) or isinstance(R.b, float):
            slack = Fraction(1, 10 ** 12) * max(1, abs(fv), abs(ra), abs(rb))
        else:
            slack = 0
        return ra - slack <= fv <= rb + slack

    if name == "^" and len(ops) == 2 and ivpos == [0] and _frac(ops[1]) is not None and _frac(ops[1]).denominator != 1 \
            and _frac(ops[0].a) is not None and _frac(ops[0].a) < 0:
        # a fractional power of an interval that reaches negative numbers is undefined there: it must be rejected,
        # however close to a whole number the exponent is
        if top_ok:
            viol.append(dict(kind="accepted-where-undefined", op="^", point=C.enc_value(ops[0].a), point_error="fractional power of a negative",
                             result=C.enc_value(top_val)))
    enclosure_op = (len(ops) == 2 and name in ENCL2 and len(ivpos) == 1) or (len(ops) == 1 and name in ENCL1 and ivpos)
    if enclosure_op:
        i = ivpos[0]
        for p in _sample_points(ops[i], rng):
            args = list(ops)
            args[i] = p
            ok, v = _dispatch(name, args)
            samples.append((C.enc_value(p), C.enc_value(v) if ok else "E:" + v))
            if top_ok and isinstance(top_val, T.Interval):
                if not ok:
                    viol.append(dict(kind="accepted-where-undefined", op=name, point=C.enc_value(p), point_error=v,
                                     result=C.enc_value(top_val)))
                elif not inside(v, top_val):
                    viol.append(dict(kind="not-enclosed", op=name, point=C.enc_value(p), point_value=C.enc_value(v),
                                     result=C.enc_value(top_val)))
        if top_ok and not isinstance(top_val, T.Interval):
            viol.append(dict(kind="no-interval-returned", op=name, result=C.enc_value(top_val)))
    elif name in CMP and ivpos and len(ops) == 2 and all(isinstance(v, T.Interval) or _frac(v) is not None for v in ops):
        rel = {"<": lambda x, y: x < y, "<=": lambda x, y: x <= y, ">": lambda x, y: x > y, ">=": lambda x, y: x >= y}[name]
        sides = []
        ends = []
        for v in ops:
            if isinstance(v, T.Interval):
                sides.append([_frac(p) for p in _sample_points(v, rng)])
                ends.append([_frac(v.a), _frac(v.b)])
            else:
                sides.append([_frac(v)])
                ends.append([_frac(v)])
        if top_ok and all(x is not None for s in sides for x in s):
            if isinstance(top_val, bool) or top_val not in (0, 1) or not isinstance(top_val, int):
                viol.append(dict(kind="comparison-not-0/1", op=name, result=C.enc_value(top_val)))
            else:
                allhold = all(rel(x, y) for x in sides[0] for y in sides[1])
                endhold = all(rel(x, y) for x in ends[0] for y in ends[1])
                if top_val == 1 and not allhold:
                    cx = next((x, y) for x in sides[0] for y in sides[1] if not rel(x, y))
                    viol.append(dict(kind="comparison-1-but-fails-at-a-point", op=name, point=[str(cx[0]), str(cx[1])]))
                if top_val == 0 and endhold:
                    viol.append(dict(kind="comparison-0-but-holds-everywhere", op=name))
    elif name in ("in", "contains") and top_ok and len(ivpos) == 1 and len(ops) == 2:
        iv = ops[ivpos[0]]
        x = _frac(ops[1 - ivpos[0]])
        a, b = _frac(iv.a), _frac(iv.b)
        if None not in (x, a, b):
            want = 1 if a <= x <= b else 0
            if isinstance(top_val, bool) or top_val != want:
                viol.append(dict(kind="membership", op=name, result=C.enc_value(top_val), expected=want))
    elif name in ("==", "!=") and top_ok and len(ivpos) == 2:
        ok1, e = _dispatch("==", ops)
        ok2, n = _dispatch("!=", ops)
        same = (_frac(ops[0].a) == _frac(ops[1].a) and _frac(ops[0].b) == _frac(ops[1].b))
        if not (ok1 and ok2) or isinstance(e, bool) or isinstance(n, bool) or e not in (0, 1) or n not in (0, 1) \
                or e + n != 1 or e != (1 if same else 0):
            viol.append(dict(kind="eq-neq", eq=C.enc_value(e) if ok1 else e, neq=C.enc_value(n) if ok2 else n,
                             bounds_equal=same))
    elif name == "interval" and top_ok and not ivpos and len(ops) == 2:
        # the literal [a, b] with a <= b IS the interval with lower bound a and upper bound b (the bounds every
        # other clause of the property is stated in)
        a, b = _frac(ops[0]), _frac(ops[1])
        if a is not None and b is not None and a <= b:
            if not isinstance(top_val, T.Interval) or _frac(top_val.a) != a or _frac(top_val.b) != b:
                viol.append(dict(kind="literal-bounds", result=C.enc_value(top_val), expected="[%s, %s]" % (a, b)))
    elif name in ("lower", "upper") and top_ok and ivpos and len(ops) == 1:
        want = _frac(ops[0].a if name == "lower" else ops[0].b)
        if want is not None and _frac(top_val) != want:
            viol.append(dict(kind="bound-accessor", op=name, result=C.enc_value(top_val), expected=str(want)))
    elif name in ("==", "!=") and top_ok and len(ivpos) == 1 and len(ops) == 2:
        # an interval against a number: whatever the answer is, == and != must be negations of each other
        ok1, e = _dispatch("==", ops)
        ok2, n = _dispatch("!=", ops)
        if not (ok1 and ok2) or isinstance(e, bool) or isinstance(n, bool) or e not in (0, 1) or n not in (0, 1) or e + n != 1:
            viol.append(dict(kind="eq-neq-mixed", eq=C.enc_value(e) if ok1 else e, neq=C.enc_value(n) if ok2 else n))
    elif name in ("±", "tol") and top_ok and not ivpos and len(ops) == 2:
        x, y = _frac(ops[0]), _frac(ops[1])
        if x is not None and y is not None:
            if not isinstance(top_val, T.Interval):
                viol.append(dict(kind="no-interval-returned", op=name, result=C.enc_value(top_val)))
            else:
                for p in (ops[0], _simp(x - y) if not taint else ops[0], _simp(x + y) if not taint else ops[0]):
                    if not inside(p, top_val):
                        viol.append(dict(kind="not-enclosed", op=name, point=C.enc_value(p), result=C.enc_value(top_val)))
    elif name == "size" and top_ok and ivpos:
        a, b = _frac(ops[0].a), _frac(ops[0].b)
        fv = _frac(top_val)
        if None not in (a, b) and (fv is None or fv < 0 or (not taint and fv != b - a)):
            viol.append(dict(kind="size", result=C.enc_value(top_val)))
    return r


# ------------------------------------------------------------------ generators
SCALARS = [Fraction(-2), Fraction(-1), Fraction(-1, 2), Fraction(0), Fraction(1, 2), Fraction(1), Fraction(2), Fraction(3)]
EXPS = [Fraction(x) for x in (-3, -2, -1, 0, 1, 2, 3)] + [Fraction(1, 2), Fraction(-1, 2)]
BASES = [N(Fraction(1, 2)), N(2), N(10), N("e"), N(1), N(0), N(-2)]
IVS_QUICK = [(-3, -1), (-2, 3), (0, 2), (-2, 0), (2, 2), (0, 0), (-1, -1), (1, 2), (Fraction(1, 2), 2),
             (Fraction(-3, 2), Fraction(1, 2)), (1, 8), (3, 1), (Fraction(1, 4), 4), (Fraction(-1, 2), Fraction(-1, 4)),
             # exact bounds closer together than the doubles around them
             (10 ** 17, 10 ** 17 + 1), (-(10 ** 17) - 1, -(10 ** 17)), (Fraction(1, 3), Fraction(1, 3) + Fraction(1, 10 ** 18))]
IVS_FLOAT = [(0.5, 1.5), (-0.1, 0.3), (0.1, 0.7), (-2.5, -0.25), (0.0, 1.0), (-1.5e-200, 2.5e-200), (-2.5e-300, 1.5e-300)]
BIN_IN = ["+", "-", "*", "/", "%", "min", "max", "contains", "in", "<", "<=", ">", ">=", "==", "!="]
BIN_NI = ["+", "-", "*", "/", "^", "min", "max", "contains", "in", "log", "<", "<=", ">", ">=", "==", "!="]
BIN_II = ["<", "<=", ">", ">=", "==", "!="]
BIN_II_REJECTED = ["+", "-", "*", "/", "^", "min", "max", "in", "log", "contains", "±"]
UNARY = ["-", "+", "abs", "sqrt", "ln", "log2", "log10", "size", "lower", "upper"]


def pattern(a, b):
    a, b = Fraction(a), Fraction(b)
    if a > b:
        return "reversed"
    if a == b:
        return "degenerate0" if a == 0 else "degenerate"
    if b < 0:
        return "negative"
    if a > 0:
        return "positive"
    if a == 0 or b == 0:
        return "touching-zero"
    return "straddling-zero"


def exhaustive(tier):
    ivs = list(IVS_QUICK)
    if tier != "quick":
        ivs += [(a, b) for a in SCALARS for b in SCALARS if (a, b) not in ivs]
    ivs_all = ivs + IVS_FLOAT
    small = IVS_QUICK + IVS_FLOAT[:2]
    cases = []

    def add(tree, via="text", oracle_only=False):
        cases.append(dict(tree=tree, via=via, oracle_only=oracle_only))

    for (a, b) in ivs_all:
        I = IV(a, b)
        add(I)
        for u in UNARY:
            add(["c1", u, I])
        for x in SCALARS:
            for f in BIN_IN:
                add(["c2", f, I, N(x)])
            for f in BIN_NI:
                if f == "^" and max(abs(Fraction(a)), abs(Fraction(b))) > 10 ** 6:
                    continue        # number ^ interval is refused by signature; the oracle's own point evaluations would be astronomically large
                add(["c2", f, N(x), I])
            for f in CMP:
                add(["c2", f, I, N(x)], "dispatch")
                add(["c2", f, N(x), I], "dispatch")
        for e in EXPS:
            add(["c2", "^", I, N(e)])
        add(["c2", "^", I, N(0.5)])
        # exponents that are fractional by less than a double can show: still a fractional power
        for e in (Fraction(10 ** 17 + 1, 10 ** 17), Fraction(3 * 10 ** 20 - 1, 10 ** 20), 2.0000000000000004, 1.9999999999999998):
            add(["c2", "^", I, N(e)])
        for bs in BASES:
            add(["c2", "log", I, bs])
    # bounds below the smallest positive double (their logarithm lies far below log(5e-324)).  The model has no notion
    # of "too small to convert", so these go to the enclosure oracle only: a rejection is fine, a result must enclose
    for (a, b) in ((Fraction(1, 10 ** 400), 1), (Fraction(1, 10 ** 500), Fraction(1, 10 ** 400)), (Fraction(1, 10 ** 330), 2)):
        I = IV(a, b)
        for u in ("ln", "log2", "log10", "sqrt"):
            add(["c1", u, I], oracle_only=True)
        for bs in BASES:
            add(["c2", "log", I, bs], oracle_only=True)
    for (a, b) in (ivs_all if tier != "quick" else small):
        for (c, d) in (ivs_all if tier != "quick" else small):
            for f in BIN_II:
                add(["c2", f, IV(a, b), IV(c, d)])
            for f in CMP:
                add(["c2", f, IV(a, b), IV(c, d)], "dispatch")
    for (a, b) in small:
        for (c, d) in small[:6]:
            for f in BIN_II_REJECTED:
                add(["c2", f, IV(a, b), IV(c, d)])
    for x in SCALARS:
        for y in SCALARS:
            add(IV(x, y))
            add(["c2", "±", N(x), N(y)])
            add(["c2", "tol", N(x), N(y)])
    # nested constructors are not numbers
    add(["c2", "interval", IV(1, 2), N(3)])
    add(["c2", "interval", N(1), IV(2, 3)])
    add(["c2", "+", ["c2", "+", IV(1, 2), N(1)], ["c2", "*", IV(1, 2), N(2)]])
    return cases


def rand_q(rng, lo=-50, hi=50):
    return Fraction(rng.randint(lo, hi), rng.choice([1, 1, 1, 2, 3, 4, 5, 7, 12]))


def rand_lit(rng, floats=False):
    if floats:
        a, b = round(rng.uniform(-10, 10), 3), round(rng.uniform(-10, 10), 3)
    else:
        a, b = rand_q(rng), rand_q(rng)
    r = rng.random()
    if r < 0.8 and a > b:
        a, b = b, a
    elif r > 0.95:
        b = a
    return IV(a, b)


def rand_iv_tree(rng, depth):
    """interval-valued tree over rationals whose evaluation stays exact (no irrational op, no negative power)"""
    if depth == 0 or rng.random() < 0.3:
        if rng.random() < 0.15:
            return ["c2", rng.choice(["±", "tol"]), N(rand_q(rng)), N(rand_q(rng, -9, 9))]
        return rand_lit(rng)
    r = rng.random()
    sub = rand_iv_tree(rng, depth - 1)
    if r < 0.2:
        return ["c1", rng.choice(["-", "abs", "+"]), sub]
    if r < 0.7:
        f = rng.choice(["+", "-", "*", "/", "+", "*"])
        x = N(rand_q(rng, -9, 9))
        if f in ("+", "*") and rng.random() < 0.4:
            return ["c2", f, x, sub]
        return ["c2", f, sub, x]
    if r < 0.85:
        f = rng.choice(["min", "max"])
        x = N(rand_q(rng))
        return ["c2", f, sub, x] if rng.random() < 0.5 else ["c2", f, x, sub]
    return ["c2", "^", sub, N(rng.choice([0, 1, 2, 3]))]


def rand_case(rng):
    r = rng.random()
    if r < 0.22:    # irrational families on literals (rational or float bounds)
        I = rand_lit(rng, floats=rng.random() < 0.4)
        if rng.random() < 0.4:
            pos = rand_q(rng, 1, 60)
            I = IV(pos, pos + abs(rand_q(rng, 0, 40))) if rng.random() < 0.7 else I
        f = rng.choice(["sqrt", "ln", "log2", "log10", "log", "log", "^"])
        if f == "log":
            b = rng.choice([N(rand_q(rng, 1, 30) / 7), N(rand_q(rng, 1, 30)), N(round(rng.uniform(0.05, 5), 2)), N("e"), N(1), N(0), N(-3)])
            return dict(tree=["c2", "log", I, b], via="text")
        if f == "^":
            e = rng.choice([Fraction(1, 3), Fraction(3, 2), Fraction(-2, 3), Fraction(5, 2), Fraction(-1, 2), 0.25, -1.5, 2.5])
            return dict(tree=["c2", "^", I, N(e)], via="text")
        return dict(tree=["c1", f, I], via="text")
    if r < 0.34:    # integer powers incl. negative, on literals
        return dict(tree=["c2", "^", rand_lit(rng, floats=rng.random() < 0.25), N(rng.randint(-5, 6))], via="text")
    if r < 0.46:    # single arithmetic op on float-bounded literals / float scalars
        I = rand_lit(rng, floats=True)
        f = rng.choice(["+", "-", "*", "/", "min", "max"])
        x = N(round(rng.uniform(-5, 5), 2)) if rng.random() < 0.6 else N(rand_q(rng, -9, 9))
        if f in ("+", "*", "min", "max") and rng.random() < 0.4:
            return dict(tree=["c2", f, x, I], via="text")
        return dict(tree=["c2", f, I, x], via="text")
    depth = rng.choice([1, 2, 2, 3])
    A = rand_iv_tree(rng, depth)
    if r < 0.62:    # comparisons / membership with a number, both orders, text and dispatch
        f = rng.choice(list(CMP) + ["in", "contains", "==", "!="])
        x = N(rand_q(rng))
        if rng.random() < 0.35:   # a number on the boundary
            lit = next(s for s in subtrees(A) if s[0] == "c2" and s[1] in ("interval", "±", "tol"))
            x = lit[rng.choice([2, 3])]
        tree = ["c2", f, A, x] if (f == "contains" or (f != "in" and rng.random() < 0.5)) else ["c2", f, x, A]
        return dict(tree=tree, via="dispatch" if (f in CMP and rng.random() < 0.5) else "text")
    if r < 0.78:    # interval with interval
        B = rand_iv_tree(rng, rng.choice([0, 1, 2]))
        if rng.random() < 0.25:
            B = A if rng.random() < 0.5 else ["c2", "+", A, N(0)]
        f = rng.choice(list(CMP) + ["==", "!=", "==", "!="])
        return dict(tree=["c2", f, A, B], via="dispatch" if (f in CMP and rng.random() < 0.5) else "text")
    if r < 0.9:
        return dict(tree=A, via="text")
    return dict(tree=["c1", rng.choice(["size", "lower", "upper", "abs", "-"]), A], via="text")


REGRESSION = [
    ("[1,2] != [1,2]", "I:0"),
    ("log([1,8], 0.5)", "V:[I:-3;I:0]"),
    ("log([1,8], 1)", "E:KaRuntimeError"),
    ("[3,1]", "V:[I:0;I:0]"),
    ("2 - [1,2]", "E:NoMatchingFunctionSignatureError"),
    ("[1,3] > 2", "I:0"),
    ("[1,2] > 0", "I:1"),
    ("3 > [1,2]", "I:1"),
    ("[-3,-1]^2", "V:[I:1;I:9]"),
    ("[-2,3]^2", "V:[I:0;I:9]"),
    ("[1,2] / 0", "E:ZeroDivisionError"),
]


def impl_regression(item):
    text, want = item
    o = C.observe(text)
    return dict(text=text, want=want, raw=o.get("raw"), status=o.get("status"), value=o.get("value"),
                escaped=o.get("escaped"), hung=o.get("hung", False))


# ------------------------------------------------------------------ comparison of outcomes
def parse_enc(s):
    """impl encoding -> ('V', a, b) | ('N', q) | ('E', cls) | ('O', s); numbers as Fractions"""
    def num(x):
        if x.startswith("I:"):
            return Fraction(int(x[2:]))
        if x.startswith("F:"):
            return Fraction(x[2:])
        if x.startswith("X:"):
            f = float.fromhex(x[2:])
            if f != f or f in (float("inf"), float("-inf")):
                return None
            return Fraction(f)
        return None
    if s is None:
        return ("O", "None")
    if s.startswith("E:"):
        return ("E", s[2:])
    if s.startswith("V:["):
        a, b = s[3:-1].split(";")
        return ("V", num(a), num(b))
    n = num(s)
    if n is not None and not s.startswith("B:"):
        return ("N", n)
    return ("O", s)


def parse_model(s):
    if s.startswith("E:"):
        return ("E", s[2:])
    if s.startswith("V:"):
        a, b = s[2:].split(";")
        return ("V", Fraction(a), Fraction(b))
    if s.startswith("N:"):
        return ("N", Fraction(s[2:]))
    return ("O", s)


def close(x, y, taint):
    if x is None or y is None:
        return False
    if not taint:
        return x == y
    return abs(x - y) <= Fraction(1, 10 ** 12) * max(1, abs(x), abs(y))


def same_outcome(imp, mod, taint):
    if imp[0] != mod[0]:
        return False
    if imp[0] == "E":
        return imp[1] == mod[1]
    if imp[0] == "O":
        return False
    return all(close(x, y, taint) for x, y in zip(imp[1:], mod[1:]))


def shape_of(case, r):
    t = case["tree"]
    if t[0] == "n":
        return "number"
    kinds = "".join("I" if (e or "").startswith("V:") else ("N" if e else "?") for e in r.get("operands", []))
    return "%s(%s)" % (t[1], kinds)


def operand_pattern(r):
    ps = []
    for e in r.get("operands", []):
        p = parse_enc(e) if e else ("O",)
        if p[0] == "V" and p[1] is not None and p[2] is not None:
            ps.append(pattern(p[1], p[2]))
        elif p[0] == "N":
            ps.append("neg" if p[1] < 0 else ("zero" if p[1] == 0 else "pos"))
    return ps


def chain_and_seams(ctx):
    """comparison chains over intervals (if Ka evaluates a chain at all, it is the conjunction of its two halves),
    interval expressions reached through arrays / comprehensions / variables, an operand evaluated once"""
    rep = ctx["report"]
    ivs = ["[1,2]", "[0,1]", "[2,3]", "[-1,1]", "[1,1]", "[1/2, 3/2]"]
    nums = ["0", "1", "2", "3/2"]
    chains = []
    for a in ivs + nums:
        for b in ivs:
            for c in ivs + nums:
                for o1, o2 in (("<", "<"), ("<=", "<="), ("<", "<="), ("<=", "<"), (">=", ">="), (">", ">=")):
                    chains.append((a, o1, b, o2, c))
    # every number-interval-number chain (the form the language is most likely to grow), an even spread of the rest
    numfirst = [ch for ch in chains if ch[0] in nums and ch[4] in nums]
    rest = [ch for ch in chains if not (ch[0] in nums and ch[4] in nums)]
    chains = numfirst + rest[::max(1, len(rest) // 900)]
    texts = []
    for a, o1, b, o2, c in chains:
        texts += ["%s %s %s %s %s" % (a, o1, b, o2, c), "(%s %s %s) * (%s %s %s)" % (a, o1, b, b, o2, c)]
    obs = C.run_impl(C._seam_obs, texts, ctx["rundir"], limit=10.0)
    for i, ch in enumerate(chains):
        oc, oh = obs[2 * i], obs[2 * i + 1]
        if oc.get("escaped") or oc.get("hung"):
            rep.violation(dict(kind="escaped", exc=oc.get("escaped") or "hang", shape="chain"), "C07: the chain %s escapes or hangs" % texts[2 * i], dict(text=texts[2 * i]))
        elif oc.get("status") == 0 and oh.get("status") == 0 and oc.get("value") != oh.get("value"):
            rep.violation(dict(kind="chain-not-conjunction", ops="%s %s" % (ch[1], ch[3])),
                          "C07 fails on the implementation: %s gives %s but its two halves give %s" % (texts[2 * i], oc.get("value"), oh.get("value")),
                          dict(text=texts[2 * i], impl=oc.get("value"), expected=oh.get("value")))
    C.seam_check(rep, ctx["rundir"], "C07",
                 texts=["[1,2] * 2", "[-1,1] ^ 2", "1 ± 0.1", "10^16 ± 1", "[10^17, 10^17+1] + 0", "abs([-(10^17)-1, -(10^17)])", "[1/3, 1/3+1/10^18] * 3",
                        "sqrt([4, 9])", "ln([1, e])", "[1,2] < 3", "2 in [1,3]", "min(0, [-1,1])", "max([1,2], 3/2)", "[-2,2] ^ (1/2)", "1 / [-1, 1]", "[3,1]"],
                 wrappers=C.SEAM_WRAPPERS,
                 templates=[("[%s, 5] * 2", ["1", "2", "-3"]), ("%s ± 1/2", ["1", "10^16", "-2"]), ("[-1, %s] ^ 2", ["1", "2", "3"]), ("%s in [1, 2]", ["0", "1", "3/2", "3"]),
                            ("[1, 2] <= %s", ["1", "2", "3"]), ("min(%s, [-1, 1])", ["-2", "0", "2"])],
                 pairs=[("seed(2); zc = rand(); (zc ± 0.001) == tol(zc, 0.001)", "1"), ("seed(2); zc = rand(); zc in (zc ± 0.001)", "1"),
                        ("seed(2); size(rand() ± 0.001) <= 0.0021", "1"), ("seed(5); zi = rand() ± 0.25; size(zi) <= 0.5000001", "1"),
                        ("seed(5); zi = tol(rand(), 0.25); (upper(zi) - lower(zi)) <= 0.5000001", "1")])


def run(ctx):
    # an input whose last statement cannot be evaluated (deeper than the stack) has applied its earlier statements at
    # most once (where the stack gives out - in the parser, before anything ran, or in the evaluator - is not C07's business)
    _ones = " + 1" * 1200
    _one_of = lambda *vs: (lambda o: o.get("status") == 0 and o.get("value") in vs)
    _its = [(["w = [8, 16]", "w = w / 2; w" + _ones], (lambda o: (o.get("status") == 1 and not o.get("escaped")) or o.get("value") == "V:[I:1204;I:1208]"),
             "an interval halved once, then a sum too long for the stack"),
            (["w = [8, 16]", "w = w / 2; w" + _ones, "w"], _one_of("V:[I:4;I:8]", "V:[I:8;I:16]"), "an interval halved at most once by an input whose last statement is refused"),
            (["w = [1, 2]", "w = w + 1; w" + " * 1" * 1500, "w"], _one_of("V:[I:2;I:3]", "V:[I:1;I:2]"), "an interval shifted at most once by an input whose last statement is refused"),
            (["w = [1, 3]", "w = w * 3; w" + _ones, "w = w * 3; w" + _ones, "w"], _one_of("V:[I:9;I:27]", "V:[I:3;I:9]", "V:[I:1;I:3]"), "an interval tripled at most twice by two such inputs"),
            (["w = [8, 16]", "w = w / 2; w + 1", "w"], "V:[I:4;I:8]", "an interval halved once by an ordinary input")]
    C.expect_sessions(ctx["report"], ctx["rundir"], "C07", _its, kind="refused-tail")
    C.config_matrix(ctx["report"], ctx["rundir"], "C07", ["[1,2] * 2", "1 ± 0.1", "[-1,1] ^ 2", "sqrt([4,9])", "[1,2] < 3", "2 in [1,3]", "[2,2] == 2", "[2,2] != 2", "abs([-1.5e-200, 2.5e-200])", "[0.1+0.2, 1] + 0", "1 <= [1,2]"])
    chain_and_seams(ctx)
    rep, tier, seed = ctx["report"], ctx["tier"], ctx["seed"]
    rng = random.Random(seed * 104729 + 7)
    # ---- regression corpus first
    for g in C.run_impl(impl_regression, REGRESSION, ctx["rundir"], limit=10.0):
        bad = g["hung"] or g["raw"] != g["want"] or (g["want"].startswith("E:") and (g["status"] != 1 or g["escaped"])) \
            or (not g["want"].startswith("E:") and g["value"] != g["want"])
        if bad:
            rep.violation(dict(kind="regression", text=g["text"]),
                          "C07 regression: %s gives %s (status %r, escaped %r), expected %s"
                          % (g["text"], g["raw"], g["status"], g["escaped"], g["want"]),
                          dict(tree=None, text=g["text"], impl=g["raw"], expected=g["want"]))
    # ---- cases
    if ctx.get("replay"):
        rj = json.load(open(ctx["replay"]))
        cases = [dict(tree=x["tree"], via=x.get("via", "text")) for x in [rj["replay"]] + rj.get("more", []) if x.get("tree")]
        n_exh = 0
    else:
        cases = exhaustive(tier)
        n_exh = len(cases)
        n_rand = 2500 if tier == "quick" else 25000
        seen = set()
        tries = 0
        while len(cases) < n_exh + n_rand and tries < n_rand * 4:
            tries += 1
            c = rand_case(rng)
            key = (ka_text(c["tree"]), c["via"])
            if key in seen or len(key[0]) > 400:
                continue
            seen.add(key)
            cases.append(c)
    for i, c in enumerate(cases):
        c["idx"] = i + seed * 1000003
    res = C.run_impl(impl_case, cases, ctx["rundir"], limit=10.0)
    # ---- model
    model = None
    if ctx["model_ok"]:
        terms = []
        for c, r in zip(cases, res):
            ts, tl, tp = r.get("tables", ([], [], []))
            fq = lambda s: coq_Q(Fraction(s))
            t1 = "[" + ";".join("(%s, %s)" % (fq(a), fq(b)) for a, b in ts) + "]"
            t2 = "[" + ";".join("(%s, %s, %s)" % (fq(a), fq(b), fq(v)) for a, b, v in tl) + "]"
            t3 = "[" + ";".join("(%s, %s, %s)" % (fq(a), fq(b), fq(v)) for a, b, v in tp) + "]"
            top = c["tree"]
            if c["via"] == "dispatch" and top[0] == "c2":
                e = "(E2 %s %s %s)" % (FN[top[1]], coq_term(top[2]), coq_term(top[3]))
            else:
                e = coq_term(top)
            terms.append("(%s, %s, %s, %s)" % (t1, t2, t3, e))
        model = C.run_model(ctx["rundir"], "c07", IMPORTS, SHOW, terms, shard=300, case_type=CASE_TYPE)
    # ---- compare
    hist, shapes, pats = {}, {}, {}
    nontrivial = set()
    samples_out = []
    disagreements = 0
    points_checked = 0
    for i, (c, r) in enumerate(zip(cases, res)):
        text = r.get("text") or ka_text(c["tree"])
        replay = dict(tree=c["tree"], via=c["via"], text=text)
        if r.get("hung"):
            rep.violation(dict(kind="hang", op=c["tree"][1] if c["tree"][0] != "n" else "n"),
                          "evaluation of %s does not terminate" % text, replay)
            continue
        o = r["obs"]
        shp = shape_of(c, r)
        shapes[shp] = shapes.get(shp, 0) + 1
        for p in operand_pattern(r):
            pats[p] = pats.get(p, 0) + 1
        got = r["dv"] if (c["via"] == "dispatch" and "dv" in r) else o["raw"]
        imp = parse_enc(got)
        hist[imp[0] if imp[0] != "E" else "E:" + imp[1]] = hist.get(imp[0] if imp[0] != "E" else "E:" + imp[1], 0) + 1
        if c["tree"][0] != "n" and not (c["tree"][1] == "interval" and c["tree"][2][0] == "n" and c["tree"][3][0] == "n"
                                         and tok_value(c["tree"][2][1]) <= tok_value(c["tree"][3][1])):
            nontrivial.add((text, c["via"]))
        points_checked += len(r.get("samples", []))
        # execute() must deliver what the raw stages computed, errors diagnosed
        if c["via"] == "text":
            if o.get("escaped"):
                rep.violation(dict(kind="escaped", exc=o["escaped"], shape=shp),
                              "C07: %s is not rejected with a diagnostic, %s escapes execute()" % (text, o["escaped"]), replay)
            elif imp[0] == "E" and o["status"] != 1:
                rep.violation(dict(kind="error-not-diagnosed", shape=shp),
                              "%s raises %s but execute() returns status %r" % (text, imp[1], o["status"]), replay, found_input=False)
            elif imp[0] != "E" and o["value"] != o["raw"]:
                rep.violation(dict(kind="execute-vs-raw", shape=shp),
                              "%s: execute() delivers %r, the raw stages %r" % (text, o["value"], o["raw"]), replay, found_input=False)
        # the property itself, on the implementation
        for v in r.get("viol", []):
            sig = dict(kind=v["kind"], shape=shp, pattern=operand_pattern(r))
            rep.violation(sig, "C07 fails on the implementation: %s -> %s: %s" % (text, got, json.dumps(v, default=str)),
                          dict(replay, detail=v, impl=got))
        # correspondence with the model
        if model is not None:
            m = model[i]
            mod = parse_model(m)
            if len(samples_out) < 8 and i % 1201 == 7:
                samples_out.append(dict(input=text, via=c["via"], impl=got, model=m, points=r.get("samples", [])[:3]))
            if mod == ("E", "Unmodelled") or c.get("oracle_only"):
                continue
            if not same_outcome(imp, mod, r.get("taint", False)):
                disagreements += 1
                prop_fail = bool(r.get("viol"))
                # a result the model says is an error but the implementation accepts (or vice versa),
                # or different bounds: the sampled-point oracle above decides whether the property fails
                rep.violation(dict(kind="correspondence", shape=shp, impl=imp[0] if imp[0] != "E" else "E:" + imp[1],
                                   model=mod[0] if mod[0] != "E" else "E:" + mod[1]),
                              "model and implementation disagree on %s (%s): impl %s, model %s" % (text, c["via"], got, m),
                              dict(replay, impl=got, model=m), found_input=prop_fail)
    rep.coverage.update(dict(
        evaluations=len(cases), distinct_nontrivial=len(nontrivial),
        rule="exhaustive: every operation x operand order x %d bound patterns (negative, straddling, touching zero, degenerate, positive, reversed literal, fractions, float bounds) x scalars %s, exponents %s, bases {1/2,2,10,e,1,0,-2}; interval/interval comparisons over all pairs; the > / >= registrations also through dispatch() (the parser flips them in text) (%d cases); plus %d seeded random cases (rational bounds to 50/12, float bounds, nested interval expressions to depth 3, boundary scalars). non-trivial = an operation applied (not a bare number or an ordered literal); distinct by (text, route)"
             % (len(IVS_QUICK) + len(IVS_FLOAT) if tier == "quick" else len(SCALARS) ** 2 + len(IVS_QUICK) + len(IVS_FLOAT),
                [str(x) for x in SCALARS], [str(x) for x in EXPS], n_exh, len(cases) - n_exh),
        exhaustive=False, samples=samples_out, outcome_histogram=hist, shape_histogram=dict(sorted(shapes.items(), key=lambda kv: -kv[1])[:60]),
        operand_pattern_histogram=pats, sampled_point_evaluations=points_checked,
        traces_validated_against_impl=len(cases), disagreements=disagreements,
        kernel_lane_cases=len(model) if model else 0, regression_corpus=len(REGRESSION)))
    rep.assumptions += [
        "floats are idealised as the rationals they denote; float results are compared with 1e-12 relative slack and the enclosure oracle allows the same slack when a float is involved",
        "math.sqrt, math.log(x, base) and x ** r (non-integer r) are external: the theorems assume only their monotonicity (sqrt_monotone, log_monotone, pow_monotone); the kernel-lane runs use the implementation's own scalar results as tables",
        "CPython int/Fraction arithmetic and comparisons are exact (C01's tie)",
        "bounds are numbers (int, Fraction, float); quantities/arrays as bounds are rejected by the (Number, Number) signature of `interval`",
    ]
