"""Shared machinery for the Ka property checks: Coq build, kernel-lane model runs,
implementation workers, findings, evidence.  Python stdlib only; run with /venv/bin/python."""
import os, sys, json, re, time, subprocess, hashlib, shutil, fcntl, tempfile, random, signal
import multiprocessing as mp
from concurrent.futures import ThreadPoolExecutor

VERIF = os.path.dirname(os.path.dirname(os.path.abspath(__file__)))
# A run against another tree (KA_REPO=...) may be given a private copy of the Coq development and a private build
# directory (KA_COQ_DIR, KA_BUILD_DIR): coq/Gen is regenerated from the tree under test, so private copies let several
# such runs proceed at once without touching the development that the registered commands use.
COQ = os.environ.get("KA_COQ_DIR") or os.path.join(VERIF, "coq")
BUILD = os.environ.get("KA_BUILD_DIR") or os.path.join(VERIF, "build")
REPO = os.environ.get("KA_REPO", "/repo")
SRC = os.path.join(REPO, "src")
NCPU = min(16, os.cpu_count() or 4)
COQ_TIMEOUT = 900

ALLOWED_AXIOMS = {
    # stdlib axioms that may legitimately appear (named in the trusted base when they do)
    "Coq.Logic.FunctionalExtensionality.functional_extensionality_dep",
    "Coq.Logic.Classical_Prop.classic",
    "Coq.Logic.ProofIrrelevance.proof_irrelevance",
    "Coq.Logic.Eqdep.Eq_rect_eq.eq_rect_eq",
    "Coq.Logic.JMeq.JMeq_eq",
    "Coq.Reals.ClassicalDedekindReals.sig_forall_dec",
    "Coq.Reals.ClassicalDedekindReals.sig_not_dec",
}

FORBIDDEN = re.compile(
    r"\b(Admitted|admit|Axiom|Axioms|Parameter|Parameters|Conjecture|Conjectures|Admit\s+Obligations"
    r"|bypass_check|Unset\s+Guard\s+Checking|Unset\s+Positivity\s+Checking|Unset\s+Universe\s+Checking"
    r"|type-in-type|impredicative-set|native_compute)\b")


def log(*a):
    print(*a, file=sys.stderr, flush=True)


# --------------------------------------------------------------------------- build
class BuildResult:
    def __init__(self, ok, failed=None, text=""):
        self.ok, self.failed, self.text = ok, failed, text


def _lock():
    os.makedirs(BUILD, exist_ok=True)
    f = open(os.path.join(BUILD, ".lock"), "w")
    fcntl.flock(f, fcntl.LOCK_EX)
    return f


def coq_sources():
    out = []
    for d in ("Gen", "Model", "Proofs", "GenFacts", "Properties"):
        p = os.path.join(COQ, d)
        if os.path.isdir(p):
            for fn in sorted(os.listdir(p)):
                if fn.endswith(".v"):
                    out.append(os.path.join(d, fn))
    return out


def scan_forbidden():
    """The development must declare no axioms and contain no admits (Gen files included)."""
    bad = []
    for rel in coq_sources():
        txt = open(os.path.join(COQ, rel), encoding="utf-8").read()
        txt = re.sub(r"\(\*.*?\*\)", " ", txt, flags=re.S)
        txt = re.sub(r'"(?:[^"]|"")*"', '""', txt)
        for m in FORBIDDEN.finditer(txt):
            bad.append((rel, m.group(0)))
        if re.search(r"^\s*(Variable|Variables|Hypothesis|Hypotheses)\b", txt, flags=re.M):
            # allowed only inside sections: cheap structural check
            depth = 0
            for line in txt.splitlines():
                if re.match(r"\s*Section\b", line):
                    depth += 1
                elif re.match(r"\s*End\b", line) and depth > 0:
                    depth -= 1
                elif depth == 0 and re.match(r"\s*(Variable|Variables|Hypothesis|Hypotheses)\b", line):
                    bad.append((rel, "Variable/Hypothesis outside a section"))
    return bad


def write_if_changed(path, content):
    if os.path.exists(path) and open(path, encoding="utf-8").read() == content:
        return False
    os.makedirs(os.path.dirname(path), exist_ok=True)
    tmp = path + ".tmp%d" % os.getpid()
    with open(tmp, "w", encoding="utf-8") as f:
        f.write(content)
    os.replace(tmp, path)
    return True


def coq_make(targets=None):
    """Full .vo build (no -vos) of the given targets under the build lock."""
    lk = _lock()
    try:
        srcs = coq_sources()
        proj = open(os.path.join(COQ, "_CoqProject.in")).read() + "\n".join(srcs) + "\n"
        changed = write_if_changed(os.path.join(COQ, "_CoqProject"), proj)
        if changed or not os.path.exists(os.path.join(COQ, "Makefile")):
            subprocess.run(["coq_makefile", "-f", "_CoqProject", "-o", "Makefile"], cwd=COQ,
                           check=True, stdout=subprocess.DEVNULL, stderr=subprocess.DEVNULL)
        cmd = ["timeout", str(COQ_TIMEOUT), "make", "-j%d" % NCPU, "-k"]
        if targets:
            cmd += targets
        p = subprocess.run(cmd, cwd=COQ, stdout=subprocess.PIPE, stderr=subprocess.STDOUT, text=True)
        if p.returncode == 0:
            return BuildResult(True, text=p.stdout)
        m = re.findall(r'File "\./([^"]+)", line (\d+)', p.stdout)
        failed = sorted(set(f for f, _ in m))
        return BuildResult(False, failed=failed or ["<unknown>"], text=p.stdout)
    finally:
        lk.close()


def theorem_names(prop_file):
    txt = open(os.path.join(COQ, prop_file), encoding="utf-8").read()
    txt = re.sub(r"\(\*.*?\*\)", " ", txt, flags=re.S)
    return re.findall(r"^\s*(?:Theorem|Corollary)\s+([A-Za-z0-9_']+)", txt, flags=re.M)


def failing_lemmas(build_text):
    """From coqc's 'File "./X.v", line N' messages: the statement (Lemma/Theorem/Definition ...) that encloses line N."""
    out = []
    for m in re.finditer(r'File "\./([^"]+\.v)", line (\d+)', build_text or ""):
        f, line = m.group(1), int(m.group(2))
        try:
            lines = open(os.path.join(COQ, f), encoding="utf-8").read().split("\n")
        except OSError:
            continue
        name = None
        for i in range(min(line, len(lines)) - 1, -1, -1):
            mm = re.match(r"\s*(?:Local\s+|Global\s+|#\[[^\]]*\]\s*)*(Lemma|Theorem|Corollary|Fact|Example|Definition|Fixpoint|Instance)\s+([A-Za-z0-9_']+)", lines[i])
            if mm:
                name = "%s %s" % (mm.group(1), mm.group(2))
                break
        item = "%s: %s (line %d)" % (f, name or "?", line)
        if item not in out:
            out.append(item)
    return out


def assumption_targets(coq_file):
    """the lemmas a facts file itself lists under `Print Assumptions` (top level, as written there)"""
    txt = open(os.path.join(COQ, coq_file), encoding="utf-8").read()
    txt = re.sub(r"\(\*.*?\*\)", " ", txt, flags=re.S)
    names = re.findall(r"^\s*Print Assumptions\s+([A-Za-z0-9_'.]+?)\.\s*$", txt, flags=re.M)
    if not names:       # the table-fact files: every top-level lemma
        names = re.findall(r"^(?:Lemma|Theorem|Corollary)\s+([A-Za-z0-9_']+)", txt, flags=re.M)
    return names


def print_assumptions(prop_id, names, rundir, module=None):
    """Returns {theorem: [axioms]} ('Closed' -> []).  `module` (e.g. GenFacts.NumSrcFacts) replaces Properties.<id>."""
    body = "From Ka Require Import %s.\n" % (module or "Properties.%s" % prop_id)
    for n in names:
        body += 'Print Assumptions %s.\n' % n
    path = os.path.join(rundir, "Assume_%s_%s.v" % (prop_id, (module or "P").replace(".", "_")))
    open(path, "w").write(body)
    p = subprocess.run(["timeout", "300", "coqc", "-Q", COQ, "Ka", path], stdout=subprocess.PIPE,
                       stderr=subprocess.STDOUT, text=True, cwd=rundir)
    if p.returncode != 0:
        return None, p.stdout
    # split the output per theorem: each Print Assumptions prints either "Closed under..." or "Axioms:\n..."
    chunks = re.split(r"(?=^Closed under the global context|^Axioms:)", p.stdout, flags=re.M)
    chunks = [c for c in chunks if c.strip()]
    res = {}
    for n, c in zip(names, chunks):
        if c.startswith("Closed"):
            res[n] = []
        else:
            res[n] = re.findall(r"^([A-Za-z_][\w.']*)\s*:", c, flags=re.M)
    if len(chunks) != len(names):
        return None, p.stdout
    return res, p.stdout


# --------------------------------------------------------------------------- kernel lane
def coq_str(s):
    return '"' + s.replace('"', '""') + '"'


def coq_Z(n):
    return "(%d)%%Z" % n if n < 0 else "%d%%Z" % n


def _parse_string_output(out):
    """Extract the Coq string printed by one `Eval vm_compute in (... : string)`."""
    i = out.find('= "')
    if i < 0:
        raise RuntimeError("no string result in coqc output:\n" + out[:2000])
    j = out.rfind('"\n     : string')
    if j < 0:
        raise RuntimeError("unterminated string result:\n" + out[-2000:])
    return out[i + 3:j].replace('""', '"')


def run_model(rundir, tag, imports, show_expr, case_terms, shard=400, extra_defs="", case_type=None):
    """Evaluate `show_expr` (a Coq function  case -> string) on every case term inside the
    Coq kernel's VM; returns one output string per case (must not contain newlines)."""
    if not case_terms:
        return []
    shards = [case_terms[i:i + shard] for i in range(0, len(case_terms), shard)]
    files = []
    for k, sh in enumerate(shards):
        path = os.path.join(rundir, "cases_%s_%d.v" % (tag, k))
        with open(path, "w", encoding="utf-8") as f:
            f.write(imports + "\n" + extra_defs + "\n")
            f.write("Definition cases %s:= [\n" % ((": list (%s) " % case_type) if case_type else "") + ";\n".join(sh) + "\n].\n")
            f.write("Eval vm_compute in (lines (map (%s) cases)).\n" % show_expr)
        files.append(path)

    def big_stack():
        import resource
        try:
            soft, hard = resource.getrlimit(resource.RLIMIT_STACK)
            resource.setrlimit(resource.RLIMIT_STACK, (hard, hard))
        except Exception:
            pass

    def one(path):
        p = subprocess.run(["timeout", "300", "coqc", "-Q", COQ, "Ka", "-w", "none", path],
                           stdout=subprocess.PIPE, stderr=subprocess.STDOUT, text=True, cwd=rundir,
                           preexec_fn=big_stack)
        if p.returncode != 0:
            raise RuntimeError("coqc failed on %s:\n%s" % (path, p.stdout[-1500:]))
        return _parse_string_output(p.stdout)

    with ThreadPoolExecutor(NCPU) as ex:
        outs = list(ex.map(one, files))
    res = []
    for sh, o in zip(shards, outs):
        ls = o.split("\n")
        if len(ls) != len(sh):
            raise RuntimeError("model output has %d lines for %d cases" % (len(ls), len(sh)))
        res.extend(ls)
    for path in files:
        for ext in (".v", ".vo", ".vok", ".vos", ".glob"):
            q = path[:-2] + ext
            if os.path.exists(q):
                os.remove(q)
        aux = os.path.join(os.path.dirname(path), "." + os.path.basename(path)[:-2] + ".aux")
        if os.path.exists(aux):
            os.remove(aux)
    return res


# --------------------------------------------------------------------------- implementation workers
_WORKER_HOME = None


class CaseTimeout(Exception):
    pass


def _alarm(signum, frame):
    raise CaseTimeout()


def _worker_init(home, env_extra):
    os.environ["HOME"] = home
    os.environ["PYTHONHASHSEED"] = "0"
    for k, v in (env_extra or {}).items():
        os.environ[k] = v
    for m in [m for m in sys.modules if m == "ka" or m.startswith("ka.")]:
        del sys.modules[m]
    if SRC in sys.path:
        sys.path.remove(SRC)
    sys.path.insert(0, SRC)
    signal.signal(signal.SIGALRM, _alarm)
    # the process state a user's `ka` has, not the harness's: the check process may have raised the recursion limit,
    # lifted CPython's integer-digit limit or changed the decimal context for its own oracles, and a forked worker
    # would inherit all of that (Ka then sets what it sets itself when it is imported below)
    import decimal
    sys.setrecursionlimit(int(os.environ.get("KA_VERIF_RECURSION_LIMIT", "1000")))
    if hasattr(sys, "set_int_max_str_digits"):
        sys.set_int_max_str_digits(4300)
    decimal.setcontext(decimal.DefaultContext.copy())


INSPECTION_FAILURES = []


def _worker_call(args):
    fn, case, limit = args
    signal.setitimer(signal.ITIMER_REAL, limit)
    try:
        return fn(case)
    except CaseTimeout:
        return {"hung": True}
    except Exception as x:
        # the harness's own inspection of a delivered value failed (on the unchanged tree it never does: a run would
        # have ended here): the value, or the process state the evaluation left behind, is not what Ka delivers —
        # reported as an observation like an exception that escaped, with the case as the replay
        import traceback
        tb = traceback.extract_tb(x.__traceback__)
        where = "%s:%d" % (os.path.basename(tb[-1].filename), tb[-1].lineno) if tb else "?"
        text = case if isinstance(case, str) else (case.get("text") if isinstance(case, dict) else None)
        return {"escaped": "%s while the result was inspected (%s)" % (type(x).__name__, where), "status": None, "text": text, "out": "", "err": str(x)[:200],
                "value": None, "inspection_failed": True, "msg": str(x)[:200]}
    finally:
        signal.setitimer(signal.ITIMER_REAL, 0)


def run_impl(fn, cases, rundir, limit=5.0, env_extra=None, chunksize=None, procs=None):
    """Apply the module-level function `fn` to every case in fresh worker processes that import
    ka from /repo/src with an empty HOME."""
    home = os.path.join(rundir, "home")
    os.makedirs(home, exist_ok=True)
    ctx = mp.get_context("fork")
    procs = procs or NCPU
    if chunksize is None:
        chunksize = max(1, min(200, len(cases) // (procs * 4) or 1))
    with ctx.Pool(procs, initializer=_worker_init, initargs=(home, env_extra)) as pool:
        res = pool.map(_worker_call, [(fn, c, limit) for c in cases], chunksize=chunksize)
    INSPECTION_FAILURES.extend(r for r in res if isinstance(r, dict) and r.get("inspection_failed"))
    return res


# ----- generic observation of the implementation (used by most properties)
def enc_value(v):
    """Canonical text of a Ka value; the model's show_* functions produce the same text
    for the exact kinds."""
    from fractions import Fraction
    import ka.types as T
    if isinstance(v, bool):
        return "B:%s" % v
    if isinstance(v, int):
        return "I:%d" % v
    if isinstance(v, Fraction):
        return "F:%d/%d" % (v.numerator, v.denominator)
    if isinstance(v, float):
        return "X:%s" % v.hex()
    if isinstance(v, T.Combinatoric):
        return "C:%s" % v
    if isinstance(v, T.Quantity):
        return "Q:%s|%s" % (enc_value(v.mag), ",".join(str(x) for x in v.qv.v))
    if isinstance(v, T.Array):
        return "A:[%s]" % ";".join(enc_value(x) for x in v.contents)
    if isinstance(v, T.Interval):
        return "V:[%s;%s]" % (enc_value(v.a), enc_value(v.b))
    if isinstance(v, T.Instant):
        return "T:%s" % v.dt.isoformat()
    if isinstance(v, str):
        return "S:%s" % v
    if v is None:
        return "N"
    return "O:%s" % type(v).__name__


def observe(text, env=None):
    """Run `text` through execute() (status, streams) and, separately, through the raw stages
    (tokenise/parse/eval_node) to see the exception class before execute() renders it."""
    import io
    from ka.interpret import execute
    from ka.eval import EvalEnvironment, eval_node
    from ka.tokens import tokenise
    from ka.parse import parse_tokens
    import ka.interpret as I
    o, e = io.StringIO(), io.StringIO()

    class Box:
        value = None
    box = Box()
    r = {"text": text}
    try:
        st = execute(text, env if env is not None else EvalEnvironment(), out=o, errout=e, result_box=box)
        r["status"] = st
        r["out"] = o.getvalue()
        r["err"] = e.getvalue()
        r["value"] = enc_value(box.value) if st == 0 else None
    except CaseTimeout:
        raise
    except BaseException as x:  # escaped
        r["escaped"] = type(x).__name__
        r["status"] = None
        r["out"] = o.getvalue()
        r["err"] = e.getvalue()
        r["value"] = None
    # raw class
    try:
        toks = tokenise(text)
        tree = parse_tokens(toks)
        v = eval_node(tree, EvalEnvironment())
        v = I.reduce_result(v)
        r["raw"] = enc_value(v)
    except CaseTimeout:
        raise
    except BaseException as x:
        r["raw"] = "E:" + type(x).__name__
    return r


def well_formed_outcome(r):
    """The C06 outcome predicate on one observation."""
    if r.get("hung"):
        return False, "hang"
    if r.get("escaped"):
        return False, "escaped " + r["escaped"]
    if r["status"] == 0:
        if r["err"] != "":
            return False, "status 0 with text on the error stream"
        return True, ""
    if r["status"] == 1:
        if r["out"] != "" or r["err"].strip() == "":
            return False, "status 1 without a clean diagnostic"
        return True, ""
    return False, "status %r" % (r["status"],)


# --------------------------------------------------------------------------- findings, evidence, reporting
def load_findings():
    p = os.path.join(VERIF, "known_findings.json")
    if not os.path.exists(p):
        return []
    return json.load(open(p))["findings"]


class Report:
    def __init__(self, prop, tier, seed):
        self.prop, self.tier, self.seed = prop, tier, seed
        self.t0 = time.time()
        self.violations = []       # dicts: {signature, what, replay(dict), found_input(bool)}
        self.coverage = {}
        self.assumptions = []
        self.obligations = 0
        self.discharged = 0
        self.notes = []

    def violation(self, signature, what, replay, found_input=True):
        self.violations.append(dict(signature=signature, what=what, replay=replay, found_input=found_input))

    def unlisted_inputs(self):
        """violations with a failing input that are not open known findings"""
        open_keys = set(json.dumps(f["signature"], sort_keys=True) for f in load_findings() if f["property"] == self.prop and f["status"] == "open")
        return [v for v in self.violations if v["found_input"] and json.dumps(v["signature"], sort_keys=True) not in open_keys]

    def finish(self, level="proof"):
        findings = [f for f in load_findings() if f["property"] == self.prop]
        open_f = {json.dumps(f["signature"], sort_keys=True): f for f in findings if f["status"] == "open"}
        seen_known = {}
        unknown = []
        for v in self.violations:
            key = json.dumps(v["signature"], sort_keys=True)
            if key in open_f:
                seen_known.setdefault(key, v)
            else:
                unknown.append(v)
        rc = 0
        for key, f in open_f.items():
            if key in seen_known:
                print("KNOWN-FINDING: property=%s %s" % (self.prop, f["what"]))
            else:
                print("KNOWN-FINDING: property=%s %s [stale: the listed example no longer fails]" % (self.prop, f["what"]))
        os.makedirs(os.path.join(BUILD, "replays"), exist_ok=True)
        grouped = {}
        for v in unknown:
            grouped.setdefault(json.dumps(v["signature"], sort_keys=True), []).append(v)
        for key, vs in grouped.items():
            v = vs[0]
            h = hashlib.sha1((self.prop + key).encode()).hexdigest()[:10]
            path = os.path.join(BUILD, "replays", "%s-%s.json" % (self.prop, h))
            json.dump(dict(property=self.prop, signature=v["signature"], what=v["what"],
                           replay=v["replay"], more=[x["replay"] for x in vs[1:6]], count=len(vs),
                           how_to_replay="./check %s --replay %s" % (self.prop, path)),
                      open(path, "w"), indent=1, default=str)
            tail = "" if v["found_input"] else " no-failing-input-found"
            print("VIOLATION property=%s replay=%s%s" % (self.prop, path, tail))
            log("  -> " + v["what"])
            rc = 1
        cov = dict(self.coverage)
        cov.setdefault("obligations", self.obligations)
        cov.setdefault("discharged", self.discharged)
        ev = dict(property_id=self.prop, tier=self.tier, seed=self.seed, level=level, coverage=cov,
                  assumptions=self.assumptions, wall_s=round(time.time() - self.t0, 2),
                  violations=len(grouped), known_findings_seen=len(seen_known), notes=self.notes)
        # evidence/ records runs against /repo itself; a run against another tree (KA_REPO=..., used for
        # seeded changes) writes its record under build/ instead
        evdir = os.path.join(VERIF, "evidence") if os.path.realpath(REPO) == "/repo" else os.path.join(BUILD, "evidence-other-tree")
        os.makedirs(evdir, exist_ok=True)
        json.dump(ev, open(os.path.join(evdir, "%s.json" % self.prop), "w"), indent=1, default=str)
        return rc


def make_rundir(prop):
    os.makedirs(BUILD, exist_ok=True)
    d = tempfile.mkdtemp(prefix="run-%s-" % prop, dir=BUILD)
    return d


def cleanup_rundir(d):
    shutil.rmtree(d, ignore_errors=True)


TRUSTED_BASE = [
    "Coq 8.16.1 kernel and coqc (vm_compute used; native_compute not used)",
    "harness/translate.py (live dump of Ka's tables into coq/Gen/*.v)",
    "the correspondence harness (generators, comparators) and CPython 3.12.1 in /venv",
    "hand-written Gallina model of the anchored functions, tied to the code by differential runs",
]


def failing_resolution_facts():
    """Re-evaluate every item of GenFacts/ResolutionFacts.v against build/dump.json (the registry of the
    tree under test) and return the items that no longer hold: [(name, kinds, expected, now)]."""
    d = json.load(open(os.path.join(BUILD, "dump.json")))
    kinds, types = d["kinds"], d["sig_types"]
    isin, sub = d["isinstance"], d["subclass"]
    reg = {r["name"]: r["sigs"] for r in d["registry"]}
    tix = {t: i for i, t in enumerate(types)}

    def matches(s, ks):
        a = s["args"]
        if len(ks) < len(a) or any(not isin[k][tix[t]] for t, k in zip(a, ks)):
            return False
        return len(ks) == len(a) or (s["vararg"] is not None and all(isin[k][tix[s["vararg"]]] for k in ks))

    def resolve(name, kn):
        ks = [kinds.index(k) for k in kn]
        ms = [s for s in reg.get(name, []) if matches(s, ks)]
        if not ms:
            return None
        c = ms[0]
        for h in ms[1:]:
            if all(sub[tix[x]][tix[y]] for x, y in zip(h["args"], c["args"])):
                c = h
        return c["impl"]
    txt = open(os.path.join(COQ, "GenFacts", "ResolutionFacts.v"), encoding="utf-8").read()
    bad = []
    for m in re.finditer(r'^  (resolves|rejects) "((?:[^"]|"")*)" \[([^\]]*)\](?: "((?:[^"]|"")*)")?', txt, flags=re.M):
        kind, name, ks, impl = m.group(1), m.group(2).replace('""', '"'), m.group(3), m.group(4)
        kn = [k.strip().strip('"') for k in ks.split(";")] if ks.strip() else []
        now = resolve(name, kn)
        want = impl.replace('""', '"') if kind == "resolves" else None
        if now != want:
            bad.append((name, kn, want, now))
    return bad


# ----- sessions: several inputs evaluated one after the other in ONE environment of ONE process
def _session(texts):
    from ka.eval import EvalEnvironment
    env = EvalEnvironment()
    return [observe(t, env) for t in texts]


def run_sessions(rundir, sessions, limit=120.0):
    """sessions: list of lists of Ka inputs; returns per session the list of observations"""
    return run_impl(_session, sessions, rundir, limit=limit, chunksize=1)


def expect_sessions(rep, rundir, prop, items, kind="session-expectation"):
    """items: (inputs, expected canonical value of the LAST input or a predicate on its observation, what).
    Reports a violation of `prop` when the last observation differs."""
    obs = run_sessions(rundir, [list(i[0]) for i in items])
    n = 0
    for (inputs, want, what), os_ in zip(items, obs):
        n += 1
        if isinstance(os_, dict) and os_.get("hung"):
            rep.violation(dict(kind=kind, what=what[:40]), "%s fails: %s did not return" % (prop, " ;; ".join(inputs)), dict(text=" ;; ".join(inputs)))
            continue
        last = os_[-1]
        got = last.get("value") if last.get("status") == 0 else ("E:status%r/%s" % (last.get("status"), last.get("escaped")))
        ok = want(last) if callable(want) else got == want
        if not ok:
            def short(x):
                x = str(x)
                return x if len(x) < 160 else "%s...(%d characters)" % (x[:80], len(x))
            rep.violation(dict(kind=kind, what=what[:40]),
                          "%s fails (%s): after %s the last input gives %s (displayed %r), expected %s"
                          % (prop, what, " ;; ".join(inputs), short(got), (last.get("out") or "").strip()[:60],
                             "the stated relation" if callable(want) else short(want)),
                          dict(text=" ;; ".join(inputs), inputs=list(inputs), impl=short(got), expected=None if callable(want) else short(want)))
    return n


ERROR_PRELUDES = ["1/0", "nosuchfn(1)", "1 m + 1 s", "(", "\"abc", "[2, 3]^1000.5", "10^400 * 1.5", "sqrt(-1)", "log(0)", "(-8)^(1/3)", "sin(1, zz: 2)",
                  "5 m to s", "{1 : y in {1,2}, {}}", "max()", "171! * 1.5", "#2024-02-30#", "zz_unassigned + 1", "range(1, 5, 0)", "P(Binomial(3, 2) = 1)",
                  "1 kdegC", "[1, 2] / [-1, 1]", "{1, 2 m} to s", "sum({1, 1 m})", "(10^400 + 0.5) m", "1 +", "0b102", "#2024"]


def _seam_obs(text):
    if isinstance(text, (tuple, list)):          # (input that fails, expression): one process, the failure first
        from ka.eval import EvalEnvironment
        env = EvalEnvironment()
        observe(text[0], env)
        o1 = observe(text[1], env)
        o2 = observe(text[1])
        o = o1 if (o1.get("status"), o1.get("value")) != (o2.get("status"), o2.get("value")) or o1.get("escaped") else o2
        return dict(text=" ;; ".join(text), status=o.get("status"), value=o.get("value"), out=(o.get("out") or "")[:200], escaped=o.get("escaped"),
                    err=(o.get("err") or "")[:160], hung=o.get("hung"))
    o = observe(text)
    return dict(text=text, status=o.get("status"), value=o.get("value"), out=(o.get("out") or "")[:200], escaped=o.get("escaped"),
                err=(o.get("err") or "")[:160], hung=o.get("hung"))


SEAM_WRAPPERS = [      # (pattern, how the plain value v appears in the wrapped result)
    ("{%s}", lambda v: "A:[%s]" % v),
    ("{{%s}}", lambda v: "A:[A:[%s]]" % v),
    ("{%s : zk in 1..2}", lambda v: "A:[%s;%s]" % (v, v)),
    ("zz = %s; zz", lambda v: v),
    ("zz = %s; yy = zz; {yy, zz}", lambda v: "A:[%s;%s]" % (v, v)),
    ("zz = {%s}; {zy : zy in zz}", lambda v: "A:[%s]" % v),
    ("{zy : zy in {%s, %s}}", lambda v: "A:[%s;%s]" % (v, v)),
    ("((%s))", lambda v: v),
]
# as the condition of a comprehension (for values with a meaningful ==: numbers, quantities, instants, intervals):
# comparing the value with itself holds at every position; an expression that is refused alone is refused there too
# (nothing is swallowed into "condition false")
SEAM_CONDITION = ("{zk : zk in 1..2, (%s) == (%s)}", lambda v: "A:[I:1;I:2]")


def seam_check(rep, rundir, prop, texts=(), templates=(), wrappers=None, limit=10.0, pairs=()):
    """Metamorphic relations between a property's expressions standing alone and the same expressions reached through
    another construct (array element, nested array, comprehension body, variable, alias, generator source): the value,
    its kind and the refusal must be the same.  `templates` = (pattern with one %s, [operand texts]): the comprehension
    {pattern(x) : x in {operands}} must be the array of the individually evaluated patterns (a node evaluated once per
    element must follow the element).  No oracle is needed: the implementation is compared with itself."""
    wrappers = SEAM_WRAPPERS if wrappers is None else wrappers
    jobs = []
    for t in texts:
        jobs.append(("plain", t, None, t))
        for pat, f in wrappers:
            jobs.append(("wrap", t, f, pat.replace("%s", "(%s)" % t) if pat != "((%s))" else pat % t))
    for pat, ops in templates:
        for x in ops:
            jobs.append(("plain", pat % ("(%s)" % x), None, pat % ("(%s)" % x)))
        jobs.append(("comp", (pat, tuple(ops)), None, "{%s : zq in {%s}}" % (pat % "zq", ", ".join(ops))))
        jobs.append(("comp", (pat, tuple(ops)), None, "zv = {%s}; {%s : zq in zv}" % (", ".join(ops), pat % "zq")))
    for a, b in pairs:          # two spellings of one value (e.g. an aggregate and the folded operator)
        jobs.append(("plain", b, None, b))
        jobs.append(("pair", b, None, a))
    # an input that failed leaves nothing behind: the expression evaluated next in the same process (same session, and
    # a new one) gives what it gives in a fresh process
    afters = [t for t in list(texts)[:40]] + [pat % ("(%s)" % ops[0]) for pat, ops in list(templates)[:20] if ops]
    for i, t in enumerate(afters):
        for k in ([i % len(ERROR_PRELUDES)] if i >= 2 else range(len(ERROR_PRELUDES))):
            jobs.append(("after", t, None, (ERROR_PRELUDES[k], t)))
        if ("plain", t, None, t) not in jobs:
            jobs.append(("plain", t, None, t))
    obs = run_impl(_seam_obs, [j[3] for j in jobs], rundir, limit=limit)
    # an evaluation that did not return in time is given a second, much longer chance on its own before it counts
    # (the workers share the machine with whatever else is running)
    slow = [i for i, o in enumerate(obs) if o.get("hung")]
    if slow:
        again = run_impl(_seam_obs, [jobs[i][3] for i in slow], rundir, limit=max(60.0, 8 * limit), chunksize=1, procs=max(1, min(4, len(slow))))
        for i, o in zip(slow, again):
            obs[i] = o
    plain = {}
    for j, o in zip(jobs, obs):
        if j[0] == "plain":
            plain[j[3]] = o
    n = 0
    for j, o in zip(jobs, obs):
        if j[0] == "plain":
            continue
        n += 1
        if j[0] == "after":
            p = plain[j[1]]
            if p.get("hung") or p.get("escaped") or o.get("hung"):
                continue
            same = (o.get("status") == p.get("status") and o.get("value") == p.get("value") and (o.get("status") != 1 or (o.get("err") or "")[:60] == (p.get("err") or "")[:60]))
            if not same:
                got = o.get("value") if o.get("status") == 0 else "E:status%r/%s %s" % (o.get("status"), o.get("escaped"), (o.get("err") or "").strip()[:80])
                want = p.get("value") if p.get("status") == 0 else "E:status%r %s" % (p.get("status"), (p.get("err") or "").strip()[:80])
                rep.violation(dict(kind="seam", via="after-error"),
                              "%s fails after a failed input: once `%s` has been refused, `%s` gives %s; in a fresh process it gives %s" % (prop, j[3][0][:80], j[1][:160], str(got)[:160], str(want)[:160]),
                              dict(text="%s ;; %s" % j[3], inputs=list(j[3]), impl=str(got)[:400], expected=str(want)[:400]))
            continue
        if j[0] == "pair":
            p = plain[j[1]]
            if p.get("hung") or p.get("escaped"):
                continue
            if p.get("status") == 0:
                want, ok = p.get("value"), (o.get("status") == 0 and o.get("value") == p.get("value"))
            else:
                want, ok = "a diagnosed error (as %s)" % j[1], (o.get("status") == 1 and not o.get("escaped") and not o.get("hung"))
        elif j[0] == "wrap":
            p = plain[j[1]]
            if p.get("hung") or p.get("escaped"):
                continue            # the plain expression itself is the property check's business
            if p.get("status") == 0 and p.get("value") is not None:
                want, ok = j[2](p["value"]), None
                ok = (o.get("status") == 0 and o.get("value") == want)
            else:
                want, ok = "a diagnosed error (as for the expression alone)", (o.get("status") == 1 and not o.get("escaped") and not o.get("hung"))
        else:
            pat, ops = j[1]
            ps = [plain[pat % ("(%s)" % x)] for x in ops]
            if any(q.get("hung") or q.get("escaped") for q in ps):
                continue
            if all(q.get("status") == 0 and q.get("value") is not None for q in ps):
                want = "A:[%s]" % ";".join(q["value"] for q in ps)
                ok = o.get("status") == 0 and o.get("value") == want
            else:
                want, ok = "a diagnosed error (one element is refused alone)", (o.get("status") == 1 and not o.get("escaped") and not o.get("hung"))
        if not ok:
            got = o.get("value") if o.get("status") == 0 else ("hang" if o.get("hung") else "E:status%r/%s %s" % (o.get("status"), o.get("escaped"), (o.get("err") or "").strip()[:80]))
            rep.violation(dict(kind="seam", via=(j[3].split("%")[0][:12] if j[0] == "wrap" else "comprehension")),
                          "%s fails through another construct: %s gives %s, the expression alone gives %s" % (prop, j[3][:200], str(got)[:200], str(want)[:200]),
                          dict(text=j[3], impl=str(got)[:400], expected=str(want)[:400]))
    return n


def run_lock():
    """coq/Gen is regenerated from the tree under test and shared by every run: runs against /repo share this lock,
    a run against another tree (KA_REPO=...) holds it exclusively.  Returns the open file (close it to release)."""
    import fcntl
    os.makedirs(BUILD, exist_ok=True)
    f = open(os.path.join(BUILD, ".runlock"), "w")
    fcntl.flock(f, fcntl.LOCK_SH if os.path.realpath(REPO) == "/repo" else fcntl.LOCK_EX)
    return f


# --------------------------------------------------------------------------- configuration / environment matrix
CONFIG_MATRIX = [            # (tag, config file lines, extra environment)
    ("base-currency=usd", ["base-currency = usd"], {}),
    ("base-currency=gbp", ["base-currency = gbp"], {}),
    ("precision=0", ["precision = 0"], {}),
    ("precision=4", ["precision = 4"], {}),
    ("precision=17", ["precision = 17"], {}),
    ("empty config file", [""], {}),
    ("PYTHONINTMAXSTRDIGITS=1000", None, {"PYTHONINTMAXSTRDIGITS": "1000"}),
    ("TZ=Europe/London", None, {"TZ": "GMT0BST,M3.5.0/1,M10.5.0"}),          # a zone with daylight saving (rule spelled out: no tzdata needed)
    ("TZ=America/New_York", None, {"TZ": "EST5EDT,M3.2.0,M11.1.0"}),
]
_MATRIX_DRIVER = r'''
import sys, json
sys.path.insert(0, sys.argv[1])
import common as C
out = []
for t in json.loads(sys.argv[2]):
    try:
        o = C.observe(t)
        out.append(dict(text=t, status=o.get("status"), value=o.get("value"), escaped=o.get("escaped"), err=(o.get("err") or "")[:120], out=(o.get("out") or "")[:6000],
                        out_empty=(o.get("out") or "") == "", err_empty=(o.get("err") or "").strip() == ""))
    except BaseException as x:
        out.append(dict(text=t, status=None, value=None, escaped="harness:" + type(x).__name__, err=str(x)[:120], out_empty=True, err_empty=True))
print("\n@@MATRIX@@" + json.dumps(out))
'''
_NUM_ATOM = re.compile(r"I:-?\d+|F:-?\d+/\d+|X:-?0x[0-9a-f.]+p[+-]?\d+|X:-?(?:inf|nan)")


def enc_close(a, b, rel=1e-9):
    """two canonical value texts denote the same value: same structure, numbers equal or (where a float is involved) within rel"""
    from fractions import Fraction
    if a == b:
        return True
    if a is None or b is None:
        return False
    if _NUM_ATOM.sub("#", a) != _NUM_ATOM.sub("#", b) and not (_NUM_ATOM.fullmatch(a) and _NUM_ATOM.fullmatch(b)):
        # allow int/fraction/float kinds to differ only at the top level of a plain number
        return False

    def num(t):
        if t.startswith("I:"):
            return Fraction(int(t[2:])), True
        if t.startswith("F:"):
            n, d = t[2:].split("/")
            return Fraction(int(n), int(d)), True
        try:
            return Fraction(float.fromhex(t[2:])), False
        except (ValueError, OverflowError):
            return None, False
    for x, y in zip(_NUM_ATOM.findall(a), _NUM_ATOM.findall(b)):
        (p, pe), (q, qe) = num(x), num(y)
        if p is None or q is None:
            return False
        if p == q:
            continue
        if pe and qe:
            return False
        if abs(p - q) > rel * max(abs(p), abs(q)):
            return False
    return True


_NOT_REPRODUCIBLE = re.compile(r"rand|sample\(|now\(|today\(|plot|line\(|scatter|histogram|vline|hline|text\(|options\(|quit")


def entry_points(rep, root, prop, base):
    """What execute() writes for an input is what every way of handing that input to Ka writes: `python -m ka.cli
    "<input>"` (with the status as exit code), `python -m ka.cli --script FILE` (the statements on separate lines),
    and the interactive loop fed through standard input.  `base` = observations of execute() in a fresh process."""
    import subprocess
    home = os.path.join(root, "entry_points")
    os.makedirs(home, exist_ok=True)
    env = {k: v for k, v in os.environ.items() if not k.startswith(("XDG_", "PYTHON"))}
    env.update(HOME=home, PYTHONPATH=SRC, PYTHONHASHSEED="0", PYTHONDONTWRITEBYTECODE="1", MPLBACKEND="Agg")
    jobs = []
    for i, b in enumerate(base):
        t = b["text"]
        if b.get("status") not in (0, 1) or b.get("escaped") or _NOT_REPRODUCIBLE.search(t) or "\x00" in t or len(b.get("out") or "") >= 6000 or not t.strip():
            continue
        if len(t) < 20000:
            jobs.append((i, "command line", t))
        jobs.append((i, "script file", t))
        if "\n" not in t and "\r" not in t and not t.lstrip().startswith("%"):
            jobs.append((i, "interactive loop", t))

    def run(job):
        i, how, t = job
        try:
            if how == "command line":
                p = subprocess.run(["/venv/bin/python", "-m", "ka.cli", t], env=env, cwd=home, stdin=subprocess.DEVNULL, stdout=subprocess.PIPE, stderr=subprocess.PIPE, timeout=120)
            elif how == "script file":
                path = os.path.join(home, "script_%d.ka" % i)
                with open(path, "w") as f:
                    f.write(re.sub(r";[ ]*", ";\n", t) + "\n")
                p = subprocess.run(["/venv/bin/python", "-m", "ka.cli", "--script", path], env=env, cwd=home, stdin=subprocess.DEVNULL, stdout=subprocess.PIPE, stderr=subprocess.PIPE, timeout=120)
            else:
                p = subprocess.run(["/venv/bin/python", "-m", "ka.cli"], env=env, cwd=home, input=(t + "\nquit()\n").encode(), stdout=subprocess.PIPE, stderr=subprocess.PIPE, timeout=120)
            return p.returncode, p.stdout.decode("utf-8", "replace"), p.stderr.decode("utf-8", "replace")
        except (subprocess.TimeoutExpired, ValueError, OSError) as x:
            return None, "", type(x).__name__
    with ThreadPoolExecutor(8) as ex:
        results = list(ex.map(run, jobs))
    n = 0
    for (i, how, t), (rc, out, err) in zip(jobs, results):
        b = base[i]
        if rc is None:
            if err == "TimeoutExpired":
                rep.violation(dict(kind="entry-point", how=how), "%s: `%s` given to the %s does not return" % (prop, t[:160], how), dict(text=t, how=how))
            continue
        n += 1
        want = b.get("out") or ""
        if how == "script file" and ";" in t and re.search(r'"[^"]*;|#[^#]*;', t):
            continue            # a `;` inside a string or an instant: the script spelling above would split the literal
        if how == "interactive loop":
            lines = out.split("\n", 1)
            out = lines[1] if len(lines) > 1 and lines[0].startswith("ka version") else out
            out = out[4:] if out.startswith(">>> ") else out
            out = out[:-4] if out.endswith(">>> ") else out
        bad = None
        if "Traceback (most recent call last)" in err:
            bad = "ends in a traceback: %s" % err.strip().splitlines()[-1][:120]
        elif out != want:
            bad = "writes %r on the output stream, execute() writes %r" % (out[:80], want[:80])
        elif how == "command line" and rc != b["status"]:
            bad = "exits with %r, execute() returns %r" % (rc, b["status"])
        elif b["status"] == 0 and err.strip() != "":
            bad = "writes %r on the error stream of a successful evaluation" % err.strip()[:80]
        elif b["status"] == 1 and err.strip() == "":
            bad = "writes no diagnostic"
        if bad:
            rep.violation(dict(kind="entry-point", how=how), "%s fails through another entry point: `%s` given to the %s %s" % (prop, t[:200], how, bad),
                          dict(text=t, how=how, exit=rc, stdout=out[:400], stderr=err[:400], execute_status=b["status"], execute_out=want[:400]))
    return n


def config_matrix(rep, rundir, prop, texts, configs=None, rel=1e-9, what="the value does not depend on this setting"):
    """Evaluate `texts` in fresh interpreters under other configuration files / environments and compare with the
    default start-up (empty HOME): same status, same value (floats within rel), well-formed streams, nothing escapes.
    The implementation is compared with itself; the caller chooses texts whose value must not depend on the setting."""
    import subprocess, json as _json
    configs = CONFIG_MATRIX if configs is None else configs
    harness = os.path.dirname(os.path.abspath(__file__))
    root = tempfile.mkdtemp(prefix="matrix-", dir=rundir)

    def run(tag, lines, extra):
        home = os.path.join(root, re.sub(r"\W+", "_", tag))
        os.makedirs(os.path.join(home, ".config", "ka"), exist_ok=True)
        if lines is not None:
            open(os.path.join(home, ".config", "ka", "config"), "w").write("\n".join(lines) + ("\n" if lines and lines != [""] else ""))
        env = {k: v for k, v in os.environ.items() if not k.startswith(("XDG_", "PYTHON"))}
        env.update(HOME=home, PYTHONPATH=SRC, PYTHONHASHSEED="0", PYTHONDONTWRITEBYTECODE="1", KA_REPO=REPO, MPLBACKEND="Agg")
        env.update(extra)
        try:
            p = subprocess.run(["/venv/bin/python", "-c", _MATRIX_DRIVER, harness, _json.dumps(list(texts))], env=env, cwd=home,
                               stdout=subprocess.PIPE, stderr=subprocess.PIPE, timeout=600)
            s = p.stdout.decode("utf-8", "replace")
            i = s.rfind("@@MATRIX@@")
            if i < 0:
                return None, (p.stderr.decode("utf-8", "replace")[-400:] or s[-200:])
            return _json.loads(s[i + len("@@MATRIX@@"):]), None
        except subprocess.TimeoutExpired:
            return None, "timeout"
    base, err = run("default", None, {})
    if base is None:
        rep.violation(dict(kind="harness-matrix"), "the default start-up could not be observed: %s" % err, dict(error=err), found_input=False)
        return 0
    n = 0
    n += entry_points(rep, root, prop, base)
    with ThreadPoolExecutor(4) as ex:
        results = list(ex.map(lambda c: run(*c), configs))
    for (tag, lines, extra), (res, err) in zip(configs, results):
        if res is None:
            rep.violation(dict(kind="start-up-fails", config=tag), "%s: with %s the interpreter does not start or evaluate: %s" % (prop, tag, (err or "")[-300:]),
                          dict(config=tag, config_lines=lines, env=extra, error=err))
            continue
        for b, r in zip(base, res):
            n += 1
            same = (b["status"] == r["status"] and b.get("escaped") == r.get("escaped")
                    and (enc_close(b["value"], r["value"], rel) if b["status"] == 0 else True)
                    and b["out_empty"] == r["out_empty"] and b["err_empty"] == r["err_empty"])
            if not same:
                rep.violation(dict(kind="depends-on-configuration", config=tag),
                              "%s fails (%s): %s gives status %r value %s%s under the default start-up, and status %r value %s%s with %s"
                              % (prop, what, b["text"][:160], b["status"], str(b["value"])[:120], (" escaped " + b["escaped"]) if b.get("escaped") else "",
                                 r["status"], str(r["value"])[:120], (" escaped %s (%s)" % (r["escaped"], r["err"])) if r.get("escaped") else "", tag),
                              dict(text=b["text"], config=tag, config_lines=lines, env=extra, default=b, other=r))
    return n
