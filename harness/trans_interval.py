"""Translator plugin "interval": the `# Intervals #` section of ka/functions.py (and the two Interval accessors of
ka/types.py) -> coq/Gen/GenIntervalSrc.v, regenerated on every run from the Python AST of the tree under check.
coq/GenFacts/IntervalSrcFacts.v proves the hand-written model (coq/Model/Interval.v) equal to these definitions.

Fail-closed: a construct outside the subset below raises Untranslatable and the function gets NO definition
(a comment `(* UNTRANSLATABLE name: why *)` instead), so the fact about it cannot be proved.  Nothing is repaired or
guessed: operand order, comparison names, constants, branch order, exception class and place are what the AST says.

The trusted construct mapping is the text of MAPPING below (it is copied into the generated file)."""
import ast, os, sys
sys.path.insert(0, os.path.dirname(os.path.abspath(__file__)))
import common as C
from pytrans import Untranslatable

MAPPING = r"""
   TRUSTED CONSTRUCT MAPPING (everything else is checked by GenFacts/IntervalSrcFacts.v)
   values      a parameter declared Number is a Gallina Q, a parameter declared Interval is an `ival`
               (declaration table DECL in harness/trans_interval.py; a registration whose signature disagrees
               with the declaration makes the registration table untranslatable); a closure's free string
               variable (opname, name) is a Gallina `string` parameter placed first; a closure's free function
               variable (f) is a Gallina function parameter whose type is read off its call site.
   results     every translated function returns `res T` (Model/Prelude.v): `return e` is `Ok e`,
               `raise KaRuntimeError(...)` is `Raise KaRuntimeError` (exception class by name; the message, a
               constant or an f-string over names/attributes, is dropped).
   sequencing  every call is bound with `do t <- call; ...` in source order: arguments left to right, operands of a
               binary operator left to right, statements top to bottom; `A if c else B` evaluates c, then only the
               chosen branch; `c1 and c2` evaluates c2 only if c1 is true (`or` dually).
   dispatch    `dispatch(NAME, (e1, .., en))` with number operands is `dname NAME [e1; ..; en]`, where
                 dname s xs = match fname_of s with Some f => dnum f xs | None => Raise Unmodelled end
                 fname_of s = the model's fname whose fname_str is s (searched in all_fnames)
                 dnum f xs  = the model's dispatch `ka_apply sqrtK logK powK f (map VN xs)`, result projected to Q
               NAME is the string literal of the source, or the closure variable (opname / name) itself.
               `dispatch(NAME, v)` with v a tuple variable built by `tuple(.. for ..)` is `dname NAME v`.
   truth       `if e` / `not e` / `e1 and e2` / `c if e else d` on a number e is `truthy e` (Python: e != 0);
               on the result of is_fractional (a Python bool) it is the bool itself.
   is_fractional(x)   the model's pure `is_fractional x : bool` (functions.py:239, outside this package).
   math.e      the model's `e_float` (tied to the language constant by GenFacts/IntervalFacts.v).
   Interval(a, b) is `mkI a b`;  x.a / x.b  are `lo x` / `hi x`.
   integer literal k is the rational `k # 1`;  Python `*`, `-`, `+` on numbers are Q's `*`, `-`, `+`.
   [e1, e2] is a Gallina list; `v.append(e)` rebinds v to `v ++ [e]`; `tuple(E for x in L)` is
               `mapM (fun x => E) L` (left to right, stops at the first exception).
   a direct call `g(args)` of another translated function is `g_g args` (bound with do); a definition is emitted
               only after all its callees were translated.
   registrations  (section statements that are not `def`): `register_function(F, NAME, SIG[, docstring])` adds the row
               (NAME, SIG as kinds, key of F) to g_registered and the case  key, arguments of shape SIG => F args  to
               g_run.  Any other called function (register_commutative_op, register_interval_cmp) is read as a
               *registrar*: its body (nested defs and calls only) is interpreted with the parameters bound to the
               argument values, `for n in ["..", ..]` loops are unrolled.  Interval is kind KI, Number is kind KN.
               The key of F is the text harness/dump_live.py:impl_key gives the live function object:
               ka.<module>.<qualname>, for a closure followed by [var='string'] or [var=<key of function>],
               for a lambda followed by {the source line, blanks normalised, 160 characters}.
"""

# declared parameter kinds (positional) and, for closures, the kind of each free variable
#   Q number, I interval, ? polymorphic (a type variable), S string, F function
DECL = {
    "make_interval_with_num_op.op": dict(free={"opname": "S"}, params=["I", "Q"]),
    "make_num_with_interval_op.op": dict(free={"opname": "S"}, params=["I", "Q"]),
    "make_interval_from_bounds": dict(params=["Q", "Q"]),
    "make_interval": dict(params=["Q", "Q"]),
    "interval_contains": dict(params=["I", "Q"]),
    "interval_has_negative": dict(params=["I"]),
    "interval_to_power": dict(params=["I", "Q"]),
    "interval_flip": dict(params=["I"]),
    "interval_sqrt": dict(params=["I"]),
    "interval_ln": dict(params=["I"]),
    "interval_log10": dict(params=["I"]),
    "interval_log2": dict(params=["I"]),
    "interval_log": dict(params=["I", "Q"]),
    "interval_abs": dict(params=["I"]),
    "register_interval_cmp.swap.swapped_f": dict(free={"f": "F"}, params=["?", "?"]),
    "register_interval_cmp.interval_num": dict(free={"name": "S"}, params=["I", "Q"]),
    "register_interval_cmp.num_interval": dict(free={"name": "S"}, params=["Q", "I"]),
    "register_interval_cmp.interval_interval": dict(free={"name": "S"}, params=["I", "I"]),
    "in_interval": dict(params=["Q", "I"]),
    "interval_eq": dict(params=["I", "I"]),
    "interval_neq": dict(params=["I", "I"]),
    "interval_min": dict(params=["I", "Q"]),
    "interval_max": dict(params=["I", "Q"]),
    "interval_size": dict(params=["I"]),
    "interval_plusminus": dict(params=["Q", "Q"]),
    "register_commutative_op.reverse_f": dict(free={"f": "F"}, params=["?", "?"]),
    "types:interval_get_lower": dict(params=["I"]),
    "types:interval_get_upper": dict(params=["I"]),
}
# emitted in this order (callees are pulled in front when needed)
ORDER = list(DECL)

EXN = {"KaRuntimeError": "KaRuntimeError", "ZeroDivisionError": "ZeroDivisionError", "ValueError": "ValueError",
       "TypeError": "TypeError", "OverflowError": "OverflowError", "IndexError": "IndexError",
       "FunctionArgError": "FunctionArgError"}
KIND_OF_TYPE = {"Interval": "KI", "Number": "KN"}
TY_OF_KIND = {"KI": "I", "KN": "Q"}
RESERVED = {"lo", "hi", "mkI", "Ok", "Raise", "dname", "dnum", "mapM", "truthy", "is_fractional", "e_float", "negb",
            "fun", "if", "then", "else", "let", "in", "do", "match", "with", "end", "true", "false", "res", "Q",
            "ival", "bool", "list", "string", "sqrtK", "logK", "powK", "VN", "VI", "fname_of", "bind", "forall",
            "Type", "Prop", "Set", "fix", "as", "return", "at", "using", "where"}


def coq_str(s):
    return '"' + s.replace('"', '""') + '"%string'


def is_tvar(t):
    return isinstance(t, str) and t.startswith("'")


def coq_ty(t):
    if isinstance(t, tuple):        # ("F", (args..), ret)
        return "(" + " -> ".join([coq_ty(a) for a in t[1]] + ["res " + coq_ty(t[2])]) + ")"
    if is_tvar(t):
        return t[1:]
    return {"Q": "Q", "I": "ival", "B": "bool", "LQ": "(list Q)", "S": "string"}[t]


def qlit(n):
    return "(%d # 1)" % n if n >= 0 else "((%d) # 1)" % n


class FnTr:
    """one function body -> one Gallina term of type `res T`, in continuation-passing style so that the
    do-bindings come out in Python's evaluation order"""

    def __init__(self, unit, qual, params, free):
        self.unit, self.qual = unit, qual
        self.n = 0
        self.ret = None
        self.tvars = []
        self.fsigs = {}                         # free function variable -> (argtypes, ret)
        self.env0 = {}
        for name, t in list(free.items()) + params:
            self.check_name(name)
            self.env0[name] = self.newvar() if t == "?" else t

    # ---------------------------------------------------------------- helpers
    def check_name(self, name):
        if name in RESERVED or (name[:1] == "t" and name[1:].isdigit()) or name.startswith("g_") or not name.isidentifier() \
                or not name.isascii():
            raise Untranslatable("variable name %s clashes with the generated vocabulary" % name)

    def newvar(self):
        v = "'" + "ABCDEFGH"[len(self.tvars)]
        self.tvars.append(v)
        return v

    def fresh(self):
        self.n += 1
        return "t%d" % self.n

    def need(self, ty, want, what):
        if ty != want:
            raise Untranslatable("%s has kind %s where %s is required" % (what, ty, want))

    # ---------------------------------------------------------------- expressions
    def exprs(self, es, env, k):
        def go(i, acc):
            if i == len(es):
                return k(acc)
            return self.expr(es[i], env, lambda a, t: go(i + 1, acc + [(a, t)]))
        return go(0, [])

    def numlist(self, e, env, k):
        """the tuple of operands of a dispatch: a tuple literal of numbers, or a tuple variable"""
        if isinstance(e, ast.Tuple):
            def fin(ats):
                for a, t in ats:
                    self.need(t, "Q", "dispatch operand")
                return k("[" + "; ".join(a for a, _ in ats) + "]")
            return self.exprs(e.elts, env, fin)
        if isinstance(e, ast.Name) and env.get(e.id) == "LQ":
            return k(e.id)
        raise Untranslatable("dispatch operands " + ast.dump(e)[:60])

    def expr(self, e, env, k):
        """k(atom, kind) -> text; atom is a pure Gallina term"""
        if isinstance(e, ast.Constant) and isinstance(e.value, int) and not isinstance(e.value, bool):
            return k(qlit(e.value), "Q")
        if isinstance(e, ast.Name):
            if e.id not in env:
                raise Untranslatable("unbound name %s" % e.id)
            if env[e.id] in ("S", "F"):
                raise Untranslatable("closure variable %s used as a value" % e.id)
            return k(e.id, env[e.id])
        if isinstance(e, ast.Attribute):
            if isinstance(e.value, ast.Name) and e.value.id == "math" and e.attr == "e" and "math" not in env:
                return k("e_float", "Q")
            if e.attr not in ("a", "b"):
                raise Untranslatable("attribute %s" % e.attr)
            return self.expr(e.value, env, lambda a, t: (self.need(t, "I", "object of .%s" % e.attr),
                                                         k("(%s %s)" % ("lo" if e.attr == "a" else "hi", a), "Q"))[1])
        if isinstance(e, ast.List):
            def fin(ats):
                for a, t in ats:
                    self.need(t, "Q", "list element")
                return k("[" + "; ".join(a for a, _ in ats) + "]", "LQ")
            return self.exprs(e.elts, env, fin)
        if isinstance(e, ast.BinOp) and isinstance(e.op, (ast.Mult, ast.Sub, ast.Add)):
            sym = {ast.Mult: "*", ast.Sub: "-", ast.Add: "+"}[type(e.op)]

            def fin(ats):
                for a, t in ats:
                    self.need(t, "Q", "operand of %s" % sym)
                return k("(%s %s %s)" % (ats[0][0], sym, ats[1][0]), "Q")
            return self.exprs([e.left, e.right], env, fin)
        if isinstance(e, ast.IfExp):
            def after(c):
                tys = []

                def ret(a, t):
                    tys.append(t)
                    return "Ok %s" % a
                th = self.expr(e.body, env, ret)
                el = self.expr(e.orelse, env, ret)
                if len(set(tys)) != 1:
                    raise Untranslatable("conditional expression of two kinds")
                v = self.fresh()
                return "do %s <- (if %s then (%s) else (%s));\n%s" % (v, c, th, el, k(v, tys[0]))
            return self.cond(e.test, env, after)
        if isinstance(e, ast.Call):
            return self.call(e, env, k)
        raise Untranslatable(ast.dump(e)[:80])

    def call(self, e, env, k):
        if e.keywords:
            raise Untranslatable("keyword arguments")
        if not isinstance(e.func, ast.Name):
            raise Untranslatable("call of " + ast.dump(e.func)[:60])
        f = e.func.id
        if f in env:
            if env[f] != "F":
                raise Untranslatable("call of non-function variable %s" % f)

            def fin(ats):
                tys = tuple(t for _, t in ats)
                if f in self.fsigs:
                    if self.fsigs[f][0] != tys:
                        raise Untranslatable("function variable %s called at two types" % f)
                else:
                    self.fsigs[f] = (tys, self.newvar())
                v = self.fresh()
                return "do %s <- %s %s;\n%s" % (v, f, " ".join(a for a, _ in ats), k(v, self.fsigs[f][1]))
            return self.exprs(e.args, env, fin)
        if f == "dispatch":
            if len(e.args) != 2:
                raise Untranslatable("dispatch with keyword table")
            nm = e.args[0]
            if isinstance(nm, ast.Constant) and isinstance(nm.value, str):
                name = coq_str(nm.value)
            elif isinstance(nm, ast.Name) and env.get(nm.id) == "S":
                name = nm.id
            else:
                raise Untranslatable("dispatch name " + ast.dump(nm)[:60])

            def fin(lst):
                v = self.fresh()
                return "do %s <- dname %s %s;\n%s" % (v, name, lst, k(v, "Q"))
            return self.numlist(e.args[1], env, fin)
        if f == "Interval":
            def fin(ats):
                if len(ats) != 2:
                    raise Untranslatable("Interval arity")
                for a, t in ats:
                    self.need(t, "Q", "Interval bound")
                return k("(mkI %s %s)" % (ats[0][0], ats[1][0]), "I")
            return self.exprs(e.args, env, fin)
        if f == "is_fractional":
            def fin(ats):
                if len(ats) != 1:
                    raise Untranslatable("is_fractional arity")
                self.need(ats[0][1], "Q", "is_fractional argument")
                return k("(is_fractional %s)" % ats[0][0], "B")
            return self.exprs(e.args, env, fin)
        if f == "tuple":
            if len(e.args) != 1 or not isinstance(e.args[0], ast.GeneratorExp):
                raise Untranslatable("tuple(...) of something else than a generator")
            g = e.args[0]
            if len(g.generators) != 1 or g.generators[0].ifs or g.generators[0].is_async \
                    or not isinstance(g.generators[0].target, ast.Name):
                raise Untranslatable("generator shape")
            var = g.generators[0].target.id
            self.check_name(var)

            def fin(lst):
                env2 = dict(env)
                env2[var] = "Q"
                body = self.expr(g.elt, env2, lambda a, t: (self.need(t, "Q", "generator element"), "Ok %s" % a)[1])
                v = self.fresh()
                return "do %s <- mapM (fun %s => (%s)) %s;\n%s" % (v, var, body, lst, k(v, "LQ"))
            it = g.generators[0].iter
            if isinstance(it, ast.List):
                it = ast.Tuple(elts=it.elts, ctx=ast.Load())
            return self.numlist(it, env, fin)
        # a direct call of another function of the package
        info = self.unit.translate(self.unit.resolve_name(f))
        if info["free"]:
            raise Untranslatable("direct call of closure %s" % f)

        def fin(ats):
            if [t for _, t in ats] != info["ptypes"]:
                raise Untranslatable("call %s(..) with kinds %s, declared %s" % (f, [t for _, t in ats], info["ptypes"]))
            v = self.fresh()
            return "do %s <- %s %s;\n%s" % (v, info["gname"], " ".join(a for a, _ in ats), k(v, info["ret"]))
        return self.exprs(e.args, env, fin)

    def cond(self, e, env, k):
        """k(bool atom) -> text"""
        if isinstance(e, ast.BoolOp):
            isand = isinstance(e.op, ast.And)

            def chain(vals):
                if len(vals) == 1:
                    return lambda kk: self.cond(vals[0], env, kk)

                def run(kk):
                    def after(c):
                        rest = chain(vals[1:])(lambda c2: "Ok %s" % c2)
                        v = self.fresh()
                        if isand:
                            return "do %s <- (if %s then (%s) else Ok false);\n%s" % (v, c, rest, kk(v))
                        return "do %s <- (if %s then Ok true else (%s));\n%s" % (v, c, rest, kk(v))
                    return self.cond(vals[0], env, after)
                return run
            return chain(e.values)(k)
        if isinstance(e, ast.UnaryOp) and isinstance(e.op, ast.Not):
            return self.cond(e.operand, env, lambda c: k("(negb %s)" % c))

        def fin(a, t):
            if t == "Q":
                return k("(truthy %s)" % a)
            if t == "B":
                return k(a)
            raise Untranslatable("truth value of kind %s" % t)
        return self.expr(e, env, fin)

    # ---------------------------------------------------------------- statements
    def terminates(self, stmts):
        if not stmts:
            return False
        last = stmts[-1]
        if isinstance(last, (ast.Return, ast.Raise)):
            return True
        if isinstance(last, ast.If):
            return self.terminates(last.body) and bool(last.orelse) and self.terminates(last.orelse)
        return False

    def pure_message(self, e):
        if isinstance(e, ast.Constant) and isinstance(e.value, str):
            return True
        if isinstance(e, ast.JoinedStr):
            for v in e.values:
                if isinstance(v, ast.Constant):
                    continue
                if isinstance(v, ast.FormattedValue) and v.format_spec is None and \
                        (isinstance(v.value, ast.Name) or
                         (isinstance(v.value, ast.Attribute) and isinstance(v.value.value, ast.Name))):
                    continue
                return False
            return True
        return False

    def block(self, stmts, env):
        if not stmts:
            raise Untranslatable("fall-through (implicit return None)")
        s, rest = stmts[0], stmts[1:]
        if isinstance(s, ast.Expr) and isinstance(s.value, ast.Constant) and isinstance(s.value.value, str):
            return self.block(rest, env)
        if isinstance(s, ast.Return):
            if s.value is None:
                raise Untranslatable("return without value")

            def fin(a, t):
                if self.ret is None:
                    self.ret = t
                if self.ret != t:
                    raise Untranslatable("returns of two kinds (%s, %s)" % (self.ret, t))
                return "Ok %s" % a
            return self.expr(s.value, env, fin)
        if isinstance(s, ast.Raise):
            x = s.exc
            if s.cause is not None or not isinstance(x, ast.Call) or not isinstance(x.func, ast.Name) \
                    or x.func.id not in EXN or x.keywords or not all(self.pure_message(a) for a in x.args):
                raise Untranslatable("raise " + (ast.dump(x)[:60] if x is not None else ""))
            return "Raise %s" % EXN[x.func.id]
        if isinstance(s, ast.If):
            def after(c):
                th = self.block(s.body + ([] if self.terminates(s.body) else rest), dict(env))
                el_stmts = list(s.orelse)
                el = self.block(el_stmts + ([] if el_stmts and self.terminates(el_stmts) else rest), dict(env))
                return "if %s then (%s)\nelse (%s)" % (c, th, el)
            return self.cond(s.test, env, after)
        if isinstance(s, ast.Assign) and len(s.targets) == 1 and isinstance(s.targets[0], ast.Name):
            name = s.targets[0].id
            self.check_name(name)
            if env.get(name) in ("S", "F"):
                raise Untranslatable("assignment to closure variable %s" % name)

            def fin(a, t):
                env2 = dict(env)
                env2[name] = t
                return "let %s := %s in\n%s" % (name, a, self.block(rest, env2))
            return self.expr(s.value, env, fin)
        if isinstance(s, ast.Expr) and isinstance(s.value, ast.Call) and isinstance(s.value.func, ast.Attribute) \
                and s.value.func.attr == "append" and isinstance(s.value.func.value, ast.Name) \
                and env.get(s.value.func.value.id) == "LQ" and len(s.value.args) == 1 and not s.value.keywords:
            name = s.value.func.value.id

            def fin(a, t):
                self.need(t, "Q", "appended element")
                return "let %s := (%s ++ [%s])%%list in\n%s" % (name, name, a, self.block(rest, dict(env)))
            return self.expr(s.value.args[0], env, fin)
        raise Untranslatable("statement " + type(s).__name__)


class Unit:
    def __init__(self, srcdir):
        self.text = {}
        self.tree = {}
        for m in ("functions", "types"):
            self.text[m] = open(os.path.join(srcdir, "ka", m + ".py"), encoding="utf-8").read()
            self.tree[m] = ast.parse(self.text[m])
        self.done = {}          # key -> info | Untranslatable
        self.active = set()
        self.emitted = []       # (key, text)
        self.imported_from_types = set()
        for s in self.tree["functions"].body:
            if isinstance(s, ast.ImportFrom) and s.module == "types" and s.level == 1:
                self.imported_from_types |= {a.name for a in s.names if a.asname is None}

    # ---------------------------------------------------------------- lookup
    def toplevel(self, module, name):
        ds = [n for n in self.tree[module].body if isinstance(n, ast.FunctionDef) and n.name == name]
        if len(ds) != 1:
            raise Untranslatable("%d definitions of %s in %s.py" % (len(ds), name, module))
        # a later rebinding of the name by assignment / import / class would change what a call means
        for n in self.tree[module].body:
            if isinstance(n, (ast.Assign, ast.AugAssign, ast.AnnAssign)):
                for t in ast.walk(n):
                    if isinstance(t, ast.Name) and isinstance(t.ctx, ast.Store) and t.id == name:
                        raise Untranslatable("%s is rebound by an assignment in %s.py" % (name, module))
            if isinstance(n, ast.ClassDef) and n.name == name:
                raise Untranslatable("%s is also a class in %s.py" % (name, module))
        return ds[0]

    def resolve_name(self, name):
        """a global name used inside functions.py -> key of DECL"""
        here = [n for n in self.tree["functions"].body if isinstance(n, ast.FunctionDef) and n.name == name]
        if here:
            key = name
        elif name in self.imported_from_types:
            key = "types:" + name
        else:
            raise Untranslatable("call of %s, which is not a function of this package" % name)
        if key not in DECL:
            raise Untranslatable("call of %s, which is not a function of this package" % name)
        return key

    def node_of(self, key):
        module, qual = ("types", key[6:]) if key.startswith("types:") else ("functions", key)
        parts = qual.split(".")
        node = self.toplevel(module, parts[0])
        outer_params = []
        for p in parts[1:]:
            outer_params.append([a.arg for a in node.args.args])
            ds = [n for n in node.body if isinstance(n, ast.FunctionDef) and n.name == p]
            if len(ds) != 1:
                raise Untranslatable("%d nested definitions %s" % (len(ds), p))
            node = ds[0]
        return module, qual, node, outer_params

    # ---------------------------------------------------------------- one function
    def translate(self, key):
        if key in self.done:
            if isinstance(self.done[key], Untranslatable):
                raise Untranslatable("callee %s is untranslatable" % key)
            return self.done[key]
        if key in self.active:
            raise Untranslatable("recursion through %s" % key)
        self.active.add(key)
        try:
            info = self._translate(key)
            self.done[key] = info
            self.emitted.append((key, info["text"]))
            return info
        except Untranslatable as x:
            self.done[key] = x
            self.emitted.append((key, "(* UNTRANSLATABLE %s: %s *)" % (key, str(x).replace("*)", "* )").replace("(*", "( *"))))
            raise
        finally:
            self.active.discard(key)

    def check_args(self, node):
        a = node.args
        if a.vararg or a.kwarg or a.kwonlyargs or a.defaults or a.kw_defaults or getattr(a, "posonlyargs", []):
            raise Untranslatable("parameter list of %s" % node.name)
        if node.decorator_list:
            raise Untranslatable("decorated function %s" % node.name)

    def _translate(self, key):
        module, qual, node, outer_params = self.node_of(key)
        decl = DECL[key]
        self.check_args(node)
        pnames = [a.arg for a in node.args.args]
        if len(pnames) != len(decl["params"]):
            raise Untranslatable("%s has %d parameters, declared %d" % (key, len(pnames), len(decl["params"])))
        # free variables: loaded names that are parameters of an enclosing function
        outer = [p for ps in outer_params for p in ps]
        assigned = {t.id for n in ast.walk(node) for t in ast.walk(n) if isinstance(t, ast.Name) and isinstance(t.ctx, ast.Store)}
        for n in ast.walk(node):
            if isinstance(n, (ast.Global, ast.Nonlocal, ast.FunctionDef, ast.Lambda, ast.AsyncFunctionDef, ast.ClassDef)) and n is not node:
                raise Untranslatable("%s inside %s" % (type(n).__name__, key))
        used = []
        for n in ast.walk(node):
            if isinstance(n, ast.Name) and isinstance(n.ctx, ast.Load) and n.id in outer and n.id not in pnames \
                    and n.id not in assigned and n.id not in used:
                used.append(n.id)
        declared_free = decl.get("free", {})
        if set(used) != set(declared_free):
            raise Untranslatable("free variables of %s are %s, declared %s" % (key, used, sorted(declared_free)))
        if len(used) > 1:
            raise Untranslatable("closure with more than one free variable")
        free = {v: declared_free[v] for v in used}
        tr = FnTr(self, qual, list(zip(pnames, decl["params"])), free)
        body = tr.block(node.body, dict(tr.env0))
        if tr.ret is None:
            raise Untranslatable("%s never returns a value" % key)
        gname = "g_" + qual.replace(".", "_")
        binders = []
        freeinfo = []
        for v in used:
            if free[v] == "F":
                if v not in tr.fsigs:
                    raise Untranslatable("function variable %s is never called" % v)
                ty = ("F", tr.fsigs[v][0], tr.fsigs[v][1])
            else:
                ty = free[v]
            freeinfo.append((v, ty))
            binders.append("(%s : %s)" % (v, coq_ty(ty)))
        ptypes = [tr.env0[p] for p in pnames]
        for p, t in zip(pnames, ptypes):
            binders.append("(%s : %s)" % (p, coq_ty(t)))
        tv = ""
        if tr.tvars:
            tv = "{%s : Type} " % " ".join(v[1:] for v in tr.tvars)
        text = "(* %s.py:%d  %s *)\nDefinition %s %s%s : res %s :=\n%s." % (
            module, node.lineno, qual, gname, tv, " ".join(binders), coq_ty(tr.ret), body)
        return dict(key=key, module=module, qual=qual, gname=gname, free=freeinfo, ptypes=ptypes, ret=tr.ret, text=text)

    # ---------------------------------------------------------------- registrations
    def section_statements(self):
        lines = self.text["functions"].splitlines()
        marks = [i + 1 for i, l in enumerate(lines) if l.strip() == "# Intervals #"]
        if len(marks) != 1:
            raise Untranslatable("%d section markers '# Intervals #'" % len(marks))
        body = self.tree["functions"].body
        ends = [s for s in body if s.lineno > marks[0] and isinstance(s, ast.Assign)
                and any(isinstance(t, ast.Name) and t.id == "FUNCTION_NAMES" for t in s.targets)]
        if len(ends) != 1:
            raise Untranslatable("end of the section (FUNCTION_NAMES = ...) not found")
        # nothing interval-related may be registered outside the section
        for s in body:
            if not (marks[0] < s.lineno < ends[0].lineno):
                for n in ast.walk(s):
                    if isinstance(n, ast.Call) and any(isinstance(m, ast.Name) and m.id == "Interval" for a in n.args for m in ast.walk(a)) \
                            and isinstance(n.func, ast.Name) and n.func.id.startswith("register"):
                        raise Untranslatable("registration mentioning Interval outside the section, line %d" % n.lineno)
        return [s for s in body if marks[0] < s.lineno < ends[0].lineno]

    def registrations(self):
        self.regs = []
        for s in self.section_statements():
            self.cur_stmt = s
            self.reg_stmt(s, {}, None)
        return self.regs

    def reg_stmt(self, s, env, scope):
        if isinstance(s, ast.FunctionDef):
            return
        if isinstance(s, ast.Expr) and isinstance(s.value, ast.Constant) and isinstance(s.value.value, str):
            return
        if isinstance(s, ast.For):
            if s.orelse or not isinstance(s.target, ast.Name) or not isinstance(s.iter, (ast.List, ast.Tuple)) \
                    or not all(isinstance(c, ast.Constant) and isinstance(c.value, str) for c in s.iter.elts):
                raise Untranslatable("for loop at line %d" % s.lineno)
            for c in s.iter.elts:
                env2 = dict(env)
                env2[s.target.id] = ("S", c.value)
                for b in s.body:
                    self.reg_stmt(b, env2, scope)
            return
        if isinstance(s, ast.Expr) and isinstance(s.value, ast.Call):
            return self.reg_call(s.value, env, scope)
        raise Untranslatable("section statement %s at line %d" % (type(s).__name__, s.lineno))

    def reg_call(self, call, env, scope):
        if not isinstance(call.func, ast.Name):
            raise Untranslatable("call at line %d" % call.lineno)
        f = call.func.id
        if f == "register_function":
            self.check_register_function()
            if len(call.args) not in (3, 4) or any(k.arg != "docstring" for k in call.keywords):
                raise Untranslatable("register_function arguments at line %d" % call.lineno)
            for extra in list(call.args[3:]) + [k.value for k in call.keywords]:
                if not (isinstance(extra, ast.Constant) and isinstance(extra.value, (str, type(None)))):
                    raise Untranslatable("docstring argument at line %d" % call.lineno)
            name = self.value(call.args[1], env, scope)
            sig = self.value(call.args[2], env, scope)
            if name[0] != "S" or sig[0] != "SIG":
                raise Untranslatable("register_function name/signature at line %d" % call.lineno)
            fv = self.value(call.args[0], env, scope, hint=sig[1])
            if fv[0] != "FN":
                raise Untranslatable("registered object at line %d is not a function" % call.lineno)
            self.regs.append((name[1], sig[1], fv[1]))
            return
        # a registrar: its body is interpreted
        if call.keywords:
            raise Untranslatable("keywords at line %d" % call.lineno)
        node = self.toplevel("functions", f)
        self.check_args(node)
        params = [a.arg for a in node.args.args]
        if len(params) != len(call.args):
            raise Untranslatable("arity of %s at line %d" % (f, call.lineno))
        env2 = {}
        for p, a in zip(params, call.args):
            env2[p] = self.value(a, env, scope)
        scope2 = dict(qual=f, locals={n.name: n for n in node.body if isinstance(n, ast.FunctionDef)})
        for b in node.body:
            if isinstance(b, ast.FunctionDef):
                continue
            if isinstance(b, ast.Expr) and isinstance(b.value, ast.Constant):
                continue
            if isinstance(b, ast.Expr) and isinstance(b.value, ast.Call):
                self.reg_call(b.value, env2, scope2)
                continue
            raise Untranslatable("statement %s in registrar %s" % (type(b).__name__, f))

    def check_register_function(self):
        """register_function itself must still append FunctionHeader(name, f, FunctionSignature(arg_types, ...)) — checked
        structurally: the first append in its body has these three names in this order"""
        node = self.toplevel("functions", "register_function")
        ps = [a.arg for a in node.args.args][:3]
        if ps != ["f", "name", "arg_types"]:
            raise Untranslatable("register_function parameters %s" % ps)
        for n in ast.walk(node):
            if isinstance(n, ast.Call) and isinstance(n.func, ast.Name) and n.func.id == "FunctionHeader":
                if len(n.args) >= 3 and isinstance(n.args[0], ast.Name) and n.args[0].id == "name" \
                        and isinstance(n.args[1], ast.Name) and n.args[1].id == "f" \
                        and isinstance(n.args[2], ast.Call) and isinstance(n.args[2].func, ast.Name) \
                        and n.args[2].func.id == "FunctionSignature" and n.args[2].args \
                        and isinstance(n.args[2].args[0], ast.Name) and n.args[2].args[0].id == "arg_types":
                    return
        raise Untranslatable("register_function no longer builds FunctionHeader(name, f, FunctionSignature(arg_types, ..))")

    def value(self, e, env, scope, hint=None):
        if isinstance(e, ast.Constant) and isinstance(e.value, str):
            return ("S", e.value)
        if isinstance(e, ast.Name) and e.id in env:
            return env[e.id]
        if isinstance(e, ast.Name) and e.id in KIND_OF_TYPE and not (scope and e.id in scope["locals"]):
            return ("T", KIND_OF_TYPE[e.id])
        if isinstance(e, ast.Tuple):
            vs = [self.value(x, env, scope) for x in e.elts]
            if not all(v[0] == "T" for v in vs):
                raise Untranslatable("signature at line %d" % e.lineno)
            return ("SIG", [v[1] for v in vs])
        return ("FN", self.fvalue(e, env, scope, hint))

    def closure(self, key, bound_env):
        """function value for the (possibly nested) definition `key` with its free variables bound"""
        info = self.translate(key)
        pyqual = "ka.%s.%s" % (info["module"], ".<locals>.".join(info["qual"].split(".")))
        args, ret = list(info["ptypes"]), info["ret"]
        term = info["gname"]
        if info["free"]:
            cells = []
            for v, ty in info["free"]:
                if v not in bound_env:
                    raise Untranslatable("free variable %s of %s is unbound at the registration" % (v, key))
                b = bound_env[v]
                if ty == "S":
                    if b[0] != "S":
                        raise Untranslatable("free variable %s of %s bound to a non-string" % (v, key))
                    cells.append("%s=%r" % (v, b[1]))
                    term += " " + coq_str(b[1])
                else:
                    if b[0] != "FN":
                        raise Untranslatable("free variable %s of %s bound to a non-function" % (v, key))
                    fargs, fret = ty[1], ty[2]
                    if len(fargs) != len(b[1]["args"]):
                        raise Untranslatable("arity of function bound to %s" % v)
                    sub = {}

                    def unify(a, c):
                        if is_tvar(a):
                            if sub.setdefault(a, c) != c:
                                raise Untranslatable("kinds of function bound to %s" % v)
                        elif a != c:
                            raise Untranslatable("kinds of function bound to %s" % v)
                    for a, c in zip(fargs, b[1]["args"]):
                        unify(a, c)
                    unify(fret, b[1]["ret"])
                    args = [sub.get(a, a) for a in args]
                    ret = sub.get(ret, ret)
                    cells.append("%s=%s" % (v, b[1]["key"]))
                    term += " " + b[1]["term"]
            pyqual += "[" + ",".join(cells) + "]"
            term = "(" + term + ")"
        if any(is_tvar(a) for a in args) or is_tvar(ret):
            raise Untranslatable("kinds of %s not determined at the registration" % key)
        return dict(key=pyqual, term=term, args=args, ret=ret)

    def fvalue(self, e, env, scope, hint):
        if isinstance(e, ast.Name):
            if scope and e.id in scope["locals"]:
                return self.closure(scope["qual"] + "." + e.id, env)
            return self.closure(self.resolve_name(e.id), {})
        if isinstance(e, ast.Call) and isinstance(e.func, ast.Name) and not e.keywords:
            # a closure factory: def g(p): def inner(..): ..; return inner
            g = e.func.id
            if scope and g in scope["locals"]:
                node, gq = scope["locals"][g], scope["qual"] + "." + g
            else:
                node, gq = self.toplevel("functions", g), g
            self.check_args(node)
            body = [b for b in node.body if not (isinstance(b, ast.Expr) and isinstance(b.value, ast.Constant))]
            if len(body) != 2 or not isinstance(body[0], ast.FunctionDef) or not isinstance(body[1], ast.Return) \
                    or not isinstance(body[1].value, ast.Name) or body[1].value.id != body[0].name:
                raise Untranslatable("%s is not a closure factory" % g)
            params = [a.arg for a in node.args.args]
            if len(params) != len(e.args):
                raise Untranslatable("arity of %s" % g)
            env2 = {p: self.value(a, env, scope) for p, a in zip(params, e.args)}
            return self.closure(gq + "." + body[0].name, env2)
        if isinstance(e, ast.Lambda):
            if hint is None:
                raise Untranslatable("lambda without signature")
            a = e.args
            if a.vararg or a.kwarg or a.kwonlyargs or a.defaults or a.kw_defaults or getattr(a, "posonlyargs", []) \
                    or len(a.args) != len(hint):
                raise Untranslatable("lambda parameters")
            tr = FnTr(self, "<lambda>", [(p.arg, TY_OF_KIND[k]) for p, k in zip(a.args, hint)], {})
            body = tr.block([ast.Return(value=e.body)], dict(tr.env0))
            term = "(fun %s => %s)" % (" ".join("(%s : %s)" % (p.arg, coq_ty(TY_OF_KIND[k])) for p, k in zip(a.args, hint)), body)
            s = self.cur_stmt
            src = "\n".join(self.text["functions"].splitlines()[s.lineno - 1:s.end_lineno])
            key = "ka.functions.<lambda>{%s}" % " ".join(src.strip().split())[:160]
            return dict(key=key, term=term, args=[TY_OF_KIND[k] for k in hint], ret=tr.ret)
        raise Untranslatable("registered object " + ast.dump(e)[:60])


PREAMBLE = """From Coq Require Import String List QArith.
From Ka Require Import Model.Interval.
Import ListNotations.
Open Scope Q_scope.

Section Src.
Variable sqrtK : Q -> Q.
Variable logK : Q -> Q -> Q.
Variable powK : Q -> Q -> Q.

(* --- the fixed terms of the construct mapping *)
Definition fname_of (s : string) : option fname :=
  find (fun f => String.eqb (fname_str f) s) all_fnames.
Definition dnum (f : fname) (xs : list Q) : res Q :=
  match ka_apply sqrtK logK powK f (map VN xs) with
  | Ok (VN q) => Ok q
  | Ok (VI _) => Raise Unmodelled
  | Raise e => Raise e
  end.
Definition dname (s : string) (xs : list Q) : res Q :=
  match fname_of s with Some f => dnum f xs | None => Raise Unmodelled end.
Fixpoint mapM {A B : Type} (f : A -> res B) (l : list A) : res (list B) :=
  match l with
  | [] => Ok []
  | x :: r => do y <- f x; do ys <- mapM f r; Ok (y :: ys)
  end.

(* --- translated functions *)
"""


def gen(dump):
    u = Unit(C.SRC)
    for key in ORDER:
        try:
            u.translate(key)
        except Untranslatable:
            pass
    L = ["(* GENERATED by harness/trans_interval.py from src/ka/functions.py (section # Intervals #) and src/ka/types.py",
         "   (interval_get_lower / interval_get_upper) by AST translation — do not edit", MAPPING.rstrip("\n"), "*)", PREAMBLE]
    # registrations may pull further definitions in, so interpret them before printing
    try:
        regs = u.registrations()
        reg_err = None
    except Untranslatable as x:
        regs, reg_err = None, x
    for key, text in u.emitted:
        L.append(text)
        L.append("")
    L.append("(* --- registrations of the section, in source order: (name, signature, key of the registered function) *)")
    if regs is None:
        L.append("(* UNTRANSLATABLE registrations: %s *)" % str(reg_err).replace("*)", "* )").replace("(*", "( *"))
    else:
        try:
            L.append(gen_regs(regs))
        except Untranslatable as x:
            L.append("(* UNTRANSLATABLE registrations: %s *)" % str(x).replace("*)", "* )").replace("(*", "( *"))
    L.append("")
    L.append("End Src.")
    return "\n".join(L) + "\n"


def gen_regs(regs):
    rows = []
    cases = []      # (key, sig) -> case text, in first-seen order
    seen = {}
    for name, sig, fv in regs:
        rows.append("(%s, [%s], %s)" % (coq_str(name), "; ".join(sig), coq_str(fv["key"])))
        if [TY_OF_KIND[k] for k in sig] != fv["args"]:
            raise Untranslatable("%s registered for %s with signature %s but its parameters are declared %s"
                                 % (fv["key"], name, sig, fv["args"]))
        if fv["ret"] not in ("Q", "I"):
            raise Untranslatable("%s returns kind %s" % (fv["key"], fv["ret"]))
        k = (fv["key"], tuple(sig))
        if k in seen:
            if seen[k] != fv["term"]:
                raise Untranslatable("two different functions with key %s" % fv["key"])
            continue
        seen[k] = fv["term"]
        pats = "; ".join("%s a%d" % ("VI" if kd == "KI" else "VN", i) for i, kd in enumerate(sig))
        args = " ".join("a%d" % i for i in range(len(sig)))
        cases.append((fv["key"], "[%s] => do r <- %s %s; Ok (%s r)" % (pats, fv["term"], args, "VI" if fv["ret"] == "I" else "VN")))
    out = ["Definition g_registered : list (string * list kind * string) := [\n  " + ";\n  ".join(rows) + "\n]."]
    out.append("")
    out.append("(* the function a key denotes, applied to arguments of the registered shape *)")
    out.append("Definition g_run (impl : string) (args : list val) : res val :=")
    keys = []
    for key, _ in cases:
        if key not in keys:
            keys.append(key)
    for key in keys:
        out.append("  if String.eqb impl %s then\n    match args with\n%s\n    | _ => Raise Unmodelled\n    end else" % (
            coq_str(key), "\n".join("    | " + c for kk, c in cases if kk == key)))
    out.append("  Raise Unmodelled.")
    return "\n".join(out)


GENERATES = {"GenIntervalSrc.v": gen}

if __name__ == "__main__":
    sys.stdout.write(gen({}))
