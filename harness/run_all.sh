#!/bin/bash
# run every registered check once on /repo (quick tier unless $1 given); prints one line per check
cd "$(dirname "$0")/.."
tier=${1:-quick}
for i in $(seq -w 1 20); do
  p=C$i
  s=$(date +%s)
  out=$(./check $p --tier $tier 2>/dev/null)
  rc=$?
  echo "$p rc=$rc $(( $(date +%s) - s ))s $(echo "$out" | grep -c '^VIOLATION') violations $(echo "$out" | grep -c '^KNOWN-FINDING') known"
done
