"""Translator plugin "dispatch": the overload machinery of ka/functions.py (FunctionSignature, FunctionHeader, dispatch,
lookup_function, get_closest_match, types_below, type_below, register_function, register_binary_op,
register_commutative_op, intify, the (Any, Any) lambdas) and is_type / TypeAlias of ka/types.py
-> coq/Gen/GenDispatchSrc.v, regenerated on every run from the Python AST of the tree under check (C.SRC).
coq/GenFacts/DispatchSrcFacts.v (property C10) proves the hand-written model coq/Model/Dispatch.v equal to these
definitions; coq/GenFacts/DispatchSrcCmpFacts.v (property C09) holds the facts about intify and the (Any, Any)
fallbacks of == and !=.

Fail-closed: a construct outside the subset handled below raises Untranslatable and the function gets NO definition
(a comment `(* UNTRANSLATABLE name: why *)` instead), and neither does any function that calls it, so the facts about
it cannot be proved.  Nothing is repaired or guessed.

The trusted construct mapping is the text of MAPPING (copied into the generated file) together with the Gallina text
of PRELUDE1/PRELUDE2 (the model of the Python objects and builtins involved)."""
import ast, os, re, sys
sys.path.insert(0, os.path.dirname(os.path.abspath(__file__)))
import common as C
from pytrans import Untranslatable

MAPPING = r"""
   TRUSTED CONSTRUCT MAPPING (everything else is checked by GenFacts/DispatchSrcFacts.v and DispatchSrcCmpFacts.v)

   world       every definition takes W : world first.  V W is the type of Ka runtime values (abstract);
               kind_of W v is the runtime class of v as an index into kind_names (Gen/GenFunctions.v);
               coerce_to W, simplify_type W stand for functions.coerce_to / types.simplify_type (translated by
               package "num", here one fixed function each); call W f args kwargs stands for calling the registered
               Python callable f (a callable is represented by the key harness/dump_live.py:impl_key prints for it,
               the g_impl of the regenerated registry); sig_str W s is str(s) (FunctionSignature.__str__, not
               translated), ext_type_name W v is types.get_external_type_name(v) (not translated), truthy W v the
               truth value of v, of_int W k the Python int k as a value.
   types       a signature type is a tyobj: Cls i (the class with index i in type_names) or Alias i (a TypeAlias
               object whose NAME has index i; the table rows of i are those of the class the alias stands for).
               isinstance(t, TypeAlias) -> py_is_alias t; t.actual_type -> py_actual_type t (Alias i -> Cls i;
               AttributeError on a class); isinstance(x, t) -> py_isinstance (kind_of W x) t = the regenerated
               isinstance table (Model/Dispatch.v isinst) on Cls i, TypeError on an Alias (Python demands a
               class); issubclass(a, b) -> py_issubclass a b = the regenerated subclass table (subcls) on classes,
               TypeError otherwise.  A global type name (Number, Any, ..) -> py_global_type "Name" = the index of
               that name in type_names, tagged Alias iff ka/types.py binds the name by `Name = TypeAlias("Name", ..)`
               (g_aliases below, read from the AST).
   objects     FunctionSignature -> record psig (ps_args, ps_vararg, ps_kws: .args .vararg .kw_args), FunctionHeader
               -> record hdr (h_name, h_f, h_sig: .name .f .sig); the constructors are the translations of the
               two __init__ (g_FunctionSignature, g_FunctionHeader), attribute reads are projections (the
               translator refuses if any of these attributes is assigned outside its __init__).  Tuples of types
               and lists are lists; a dict is its list of (key, value) in insertion order: d.get(k, None) ->
               assoc k d, d[k] -> py_dict_index (KeyError), d.items() -> d, dict() -> [], `d or dict()` ->
               py_or_dict d, dict((k, e) for k, v in d.items()) -> mapM.  None-able values are options;
               `x is None` / `x is not None` is a match on the option and x stands for the content in the
               non-None branch.  FUNCTIONS (must be `collections.defaultdict(list)`) -> fdict, an association list in
               insertion order, passed explicitly to the functions that read it and returned by those that append
               to it: FUNCTIONS[name] -> py_ddict_get (missing key: []), name in FUNCTIONS -> py_dict_mem,
               FUNCTIONS[name].append(h) -> py_ddict_append (append to the entry, or a new entry at the end).
               live_FUNCTIONS is the regenerated registry read as such a dictionary.
   results     a function that can raise returns dres (V W) T: DOk v for `return v`, DRaise e for `raise X(a, ..)`
               with e the constructor for X applied to the translated arguments (EUnknownFunction, ENoMatch,
               EUnknownKeyword, EBadTypeKeyword); Python's own exceptions are EExn IndexError (xs[i] out of
               range: py_index), EExn TypeError, EPy "KeyError", EPy "AttributeError".
   sequencing  every call that may raise is bound with dbind IN SOURCE ORDER (arguments left to right, statements
               top to bottom); `a and b` / `a or b` evaluate b only when needed; `A if c else B` evaluates c first;
               `return f(..)` of a call that may raise is that call (tail call).  f( *a, **k ) evaluates f, a, k.
   loops       `while c: body` -> a Fixpoint on explicit fuel (Raise OutOfFuel when it runs out; the facts state
               that the result is the model's, hence never OutOfFuel) taking every local variable; `return` inside
               the body returns from the function, the end of the body is the recursive call, loop exit continues
               with the statements after the loop.  `for x in L: body` (no return inside) -> foldM over L, left to
               right, on the variables the body assigns; all(e for x in L) -> allM (stops at the first false);
               [x for x in L if c] -> filterM; [e for x in L] / list(map(f, L)) -> map; zip -> combine (truncates);
               L[k:] -> skipn k; len -> length; v.append(e) -> rebinding v ++ [e]; i += 1 -> rebinding.
               `if c: x = e` (no else) -> rebinding x := if c then e else x; `if c: x = a else: x = b` -> rebinding
               x := if c then a else b.  Any other `if` must return/raise on every path of a branch.
   closures    a nested def is translated with its free variables as leading arguments; the function VALUE it
               denotes is its key py_closure_key "ka.functions.<outer>.<locals>.<inner>" [(free name, key)]
               (impl_key's format).  A lambda registered for (Any, Any) is keyed by its source statement.
   dropped     `global FUNCTIONS`; docstrings; in register_function the statement that fills
               FUNCTION_DOCUMENTATION (no translated function reads it); exception messages do not exist here.
   names       the functions, classes and exception classes used must be bound exactly once at module level to what
               their name says; builtins used (len isinstance issubclass all list map str dict zip) must not be
               rebound; else the function using them is untranslatable.
"""

PRELUDE1 = r"""
From Coq Require Import List String ZArith Bool Arith.
From Ka Require Import Model.Dispatch.
Import ListNotations.
Local Open Scope string_scope.
Local Open Scope nat_scope.

(* ---- PRELUDE (trusted; see the mapping above) *)
Inductive tyobj := Cls (i : nat) | Alias (i : nat).
Definition ix (t : tyobj) : nat := match t with Cls i => i | Alias i => i end.
Record psig := { ps_args : list tyobj; ps_vararg : option tyobj; ps_kws : list (string * tyobj) }.
Record hdr := { h_name : string; h_f : string; h_sig : psig }.
Definition fdict := list (string * list hdr).

Inductive derr (VT : Type) :=
| EUnknownFunction (name : string)
| ENoMatch (name : string) (attempted : list string) (sig_names : list string)
| EUnknownKeyword (h : hdr) (k : string)
| EBadTypeKeyword (h : hdr) (k : string) (v : VT) (t : tyobj)
| EExn (e : exn)
| EPy (cls : string).
Arguments EUnknownFunction {VT} name.
Arguments ENoMatch {VT} name attempted sig_names.
Arguments EUnknownKeyword {VT} h k.
Arguments EBadTypeKeyword {VT} h k v t.
Arguments EExn {VT} e.
Arguments EPy {VT} cls.
Inductive dres (VT A : Type) := DOk (a : A) | DRaise (e : derr VT).
Arguments DOk {VT A} a.
Arguments DRaise {VT A} e.
Definition dbind {VT A B} (r : dres VT A) (k : A -> dres VT B) : dres VT B :=
  match r with DOk a => k a | DRaise e => DRaise e end.

Record world := {
  V : Type;
  kind_of : V -> nat;
  coerce_to : V -> option tyobj -> dres V V;
  simplify_type : V -> dres V V;
  call : string -> list V -> list (string * V) -> dres V V;
  sig_str : psig -> string;
  ext_type_name : V -> string;
  truthy : V -> bool;
  of_int : Z -> V }.

Definition py_is_alias (t : tyobj) : bool := match t with Alias _ => true | Cls _ => false end.
Definition py_actual_type {VT} (t : tyobj) : dres VT tyobj :=
  match t with Alias i => DOk (Cls i) | Cls _ => DRaise (EPy "AttributeError") end.
Definition py_isinstance {VT} (k : nat) (t : tyobj) : dres VT bool :=
  match t with Cls i => DOk (isinst k i) | Alias _ => DRaise (EExn TypeError) end.
Definition py_issubclass {VT} (a b : tyobj) : dres VT bool :=
  match a, b with Cls i, Cls j => DOk (subcls i j) | _, _ => DRaise (EExn TypeError) end.
Definition py_index {VT A} (l : list A) (i : nat) : dres VT A :=
  match nth_error l i with Some x => DOk x | None => DRaise (EExn IndexError) end.
Definition py_nonempty {A} (l : list A) : bool := match l with [] => false | _ :: _ => true end.
Definition py_dict_mem {A} (d : list (string * A)) (k : string) : bool :=
  match assoc k d with Some _ => true | None => false end.
Definition py_dict_index {VT A} (d : list (string * A)) (k : string) : dres VT A :=
  match assoc k d with Some v => DOk v | None => DRaise (EPy "KeyError") end.
Definition py_or_dict {A} (x : option (list A)) : list A := match x with Some l => l | None => [] end.
Definition py_ddict_get (d : fdict) (k : string) : list hdr :=
  match assoc k d with Some l => l | None => [] end.
Fixpoint py_ddict_append (d : fdict) (k : string) (h : hdr) : fdict :=
  match d with
  | [] => [(k, [h])]
  | (k', l) :: r => if String.eqb k k' then (k', (l ++ [h])%list) :: r else (k', l) :: py_ddict_append r k h
  end.
Fixpoint foldM {VT S A} (f : S -> A -> dres VT S) (l : list A) (s : S) : dres VT S :=
  match l with [] => DOk s | x :: r => dbind (f s x) (fun s' => foldM f r s') end.
Fixpoint allM {VT A} (f : A -> dres VT bool) (l : list A) : dres VT bool :=
  match l with [] => DOk true | x :: r => dbind (f x) (fun b => if b then allM f r else DOk false) end.
Fixpoint filterM {VT A} (f : A -> dres VT bool) (l : list A) : dres VT (list A) :=
  match l with
  | [] => DOk []
  | x :: r => dbind (f x) (fun b => dbind (filterM f r) (fun r' => DOk (if b then x :: r' else r')))
  end.
Fixpoint mapM {VT A B} (f : A -> dres VT B) (l : list A) : dres VT (list B) :=
  match l with [] => DOk [] | x :: r => dbind (f x) (fun y => dbind (mapM f r) (fun ys => DOk (y :: ys))) end.
Definition py_closure_key (qual : string) (cells : list (string * string)) : string :=
  (qual ++ "[" ++ String.concat "," (map (fun c => fst c ++ "=" ++ snd c) cells) ++ "]")%string.
"""

PRELUDE2 = r"""
Definition tyobj_of (i : nat) : tyobj :=
  if existsb (fun a => String.eqb (fst a) (nth i type_names "")) g_aliases then Alias i else Cls i.
Definition py_global_type (nm : string) : tyobj := tyobj_of (type_ix nm).
(* the regenerated registry read as the Python objects it was dumped from *)
Definition psig_of (s : gsig) : psig :=
  {| ps_args := map tyobj_of (g_args s); ps_vararg := option_map tyobj_of (g_vararg s);
     ps_kws := map (fun kv => (fst kv, tyobj_of (snd kv))) (g_kws s) |}.
Definition header_of (name : string) (s : gsig) : hdr := {| h_name := name; h_f := g_impl s; h_sig := psig_of s |}.
Definition live_FUNCTIONS : fdict := map (fun e => (fst e, map (header_of (fst e)) (snd e))) registry.

(* ---- translated definitions *)
"""

# ------------------------------------------------------------------ translator types
V, TY, PSIG, HDR, STR, NAT, BOOL, CALL, FDICT, UNIT = "V", "tyobj", "psig", "hdr", "string", "nat", "bool", "callable", "fdict", "unit"


def opt(t):
    return ("opt", t)


def lst(t):
    return ("list", t)


def pair(a, b):
    return ("pair", a, b)


KW = lst(pair(STR, V))
TKW = lst(pair(STR, TY))


def coqty(t):
    if t == V:
        return "(V W)"
    if t in (CALL, STR):
        return "string"
    if isinstance(t, tuple):
        if t[0] == "opt":
            return "(option %s)" % coqty(t[1])
        if t[0] == "list":
            return "(list %s)" % coqty(t[1])
        if t[0] == "pair":
            return "(%s * %s)" % (coqty(t[1]), coqty(t[2]))
    return t


def coq_str(s):
    return '"' + s.replace('"', '""') + '"'


RESERVED = {"fun", "let", "in", "if", "then", "else", "match", "with", "end", "fix", "forall", "exists", "as", "at",
            "return", "Type", "Prop", "Set", "W", "V", "fuel", "DOk", "DRaise", "dbind", "Some", "None", "true", "false",
            "negb", "length", "map", "filter", "combine", "skipn", "assoc", "call", "kind_of", "coerce_to", "simplify_type",
            "sig_str", "ext_type_name", "truthy", "of_int", "foldM", "allM", "filterM", "mapM", "registry", "nat", "bool",
            "string", "list", "option", "tt", "unit", "fst", "snd", "ix", "O", "S", "Cls", "Alias", "psig", "hdr",
            "fdict", "tyobj", "isinst", "subcls", "struct", "cofix", "where", "using", "IF"}

ATTRS = {PSIG: {"args": ("ps_args", lst(TY)), "vararg": ("ps_vararg", opt(TY)), "kw_args": ("ps_kws", TKW)},
         HDR: {"name": ("h_name", STR), "f": ("h_f", CALL), "sig": ("h_sig", PSIG)}}
CLASS_OF = {PSIG: "FunctionSignature", HDR: "FunctionHeader"}
EXCS = {"UnknownFunctionError": ("EUnknownFunction", [STR]),
        "NoMatchingFunctionSignatureError": ("ENoMatch", [STR, lst(STR), lst(STR)]),
        "UnknownKeywordError": ("EUnknownKeyword", [HDR, STR]),
        "BadTypeKeywordError": ("EBadTypeKeyword", [HDR, STR, V, TY])}
BUILTINS = {"len", "isinstance", "issubclass", "all", "list", "map", "str", "dict", "zip"}

# names a module must bind exactly once, to this
EXPECT = {
    "types": {"TypeAlias": "class", "is_type": "def"},
    "functions": {"is_type": ".types.is_type", "TypeAlias": ".types.TypeAlias", "simplify_type": ".types.simplify_type",
                  "get_external_type_name": ".types.get_external_type_name", "coerce_to": "def",
                  "collections": "import collections", "FUNCTIONS": "assign",
                  "FunctionSignature": "class", "FunctionHeader": "class",
                  "UnknownFunctionError": "class", "NoMatchingFunctionSignatureError": "class",
                  "UnknownKeywordError": "class", "BadTypeKeywordError": "class"},
}
# global type names usable in translated code: name -> where functions.py must import it from
TYPE_IMPORTS = {"Number": "numbers.Number", "Integral": "numbers.Integral", "Rational": "numbers.Rational",
                "Any": ".types.Any", "String": ".types.String", "Bool": ".types.Bool", "Quantity": ".types.Quantity",
                "Array": ".types.Array", "Instant": ".types.Instant", "Interval": ".types.Interval",
                "Combinatoric": ".types.Combinatoric"}


def D(mod, qual, params, ret, mode, reads_F=False, self_ty=None, closure=None, free=None):
    return dict(mod=mod, qual=qual, params=params, ret=ret, mode=mode, reads_F=reads_F or mode == "state",
                self_ty=self_ty, closure=closure, free=free or [],
                gname="g_" + (qual + ("." + closure if closure else "")).replace(".__init__", "").replace(".", "_"))


# the functions, in emission order (callees first).  params: declared types by position (after self for methods).
FUNS = [
    D("types", "is_type", [V, TY], BOOL, "eff"),
    D("functions", "FunctionSignature.__init__", [lst(TY), opt(TY), opt(TKW)], PSIG, "ctor", self_ty=PSIG),
    D("functions", "FunctionSignature.matches", [lst(V)], BOOL, "eff", self_ty=PSIG),
    D("functions", "FunctionSignature.coerce_args", [lst(V)], lst(V), "eff", self_ty=PSIG),
    D("functions", "FunctionSignature.coerce_kwarg", [STR, V], V, "eff", self_ty=PSIG),
    D("functions", "FunctionHeader.__init__", [STR, CALL, PSIG], HDR, "ctor", self_ty=HDR),
    D("functions", "FunctionHeader.sig_matches", [lst(V)], BOOL, "eff", self_ty=HDR),
    D("functions", "FunctionHeader.coerce_args", [lst(V)], lst(V), "eff", self_ty=HDR),
    D("functions", "FunctionHeader.coerce_kwarg", [STR, V], V, "eff", self_ty=HDR),
    D("functions", "type_below", [TY, TY], BOOL, "eff"),
    D("functions", "types_below", [PSIG, PSIG], BOOL, "eff"),
    D("functions", "get_closest_match", [lst(HDR)], HDR, "eff"),
    D("functions", "lookup_function", [STR, lst(V)], lst(HDR), "eff", reads_F=True),
    D("functions", "dispatch", [STR, lst(V), opt(KW)], V, "eff", reads_F=True),
    D("functions", "register_function", [CALL, STR, lst(TY), opt(STR), opt(TKW), opt(TY)], FDICT, "state"),
    D("functions", "register_binary_op", [STR, CALL, opt(STR)], FDICT, "state"),
    D("functions", "register_commutative_op", [V, V], V, "eff", closure="reverse_f", free=[("f", CALL)]),
    D("functions", "register_commutative_op", [CALL, STR, TY, TY], FDICT, "state"),
    D("functions", "intify", [V, V], V, "eff", closure="f_new", free=[("f", CALL)]),
    D("functions", "intify", [CALL], CALL, "pure"),
]


# ------------------------------------------------------------------ module facts
class Module:
    def __init__(self, short):
        self.short = short
        path = os.path.join(C.SRC, "ka", short + ".py")
        self.text = open(path, encoding="utf-8").read()
        self.tree = ast.parse(self.text)
        self.bind = {}
        for n in self.tree.body:
            self._scan(n)

    def _add(self, name, what):
        self.bind.setdefault(name, []).append(what)

    def _scan(self, n):
        if isinstance(n, ast.Import):
            for a in n.names:
                self._add(a.asname or a.name.split(".")[0], "import " + a.name)
        elif isinstance(n, ast.ImportFrom):
            for a in n.names:
                self._add(a.asname or a.name, "." * n.level + (n.module or "") + "." + a.name)
        elif isinstance(n, ast.FunctionDef):
            self._add(n.name, "def")
        elif isinstance(n, ast.ClassDef):
            self._add(n.name, "class")
        elif isinstance(n, (ast.Assign, ast.AugAssign, ast.AnnAssign)):
            tgts = n.targets if isinstance(n, ast.Assign) else [n.target]
            for t in tgts:
                for x in ast.walk(t):
                    if isinstance(x, ast.Name) and isinstance(x.ctx, ast.Store):
                        self._add(x.id, "assign")
        elif isinstance(n, (ast.For, ast.While, ast.If, ast.With, ast.Try)):
            if isinstance(n, ast.For):
                for x in ast.walk(n.target):
                    if isinstance(x, ast.Name):
                        self._add(x.id, "assign")
            for f in ("body", "orelse", "finalbody"):
                for m in getattr(n, f, []):
                    self._scan(m)
            for h in getattr(n, "handlers", []):
                for m in h.body:
                    self._scan(m)

    def bound_to(self, name):
        b = self.bind.get(name, [])
        if len(b) != 1:
            raise Untranslatable("name %s is bound %d times at module level in %s.py" % (name, len(b), self.short))
        return b[0]

    def need(self, name):
        want = EXPECT[self.short].get(name) or (TYPE_IMPORTS.get(name) if self.short == "functions" else None)
        if want is None:
            raise Untranslatable("no expectation recorded for the name %s" % name)
        got = self.bound_to(name)
        if got != want:
            raise Untranslatable("name %s in %s.py is bound to %s, expected %s" % (name, self.short, got, want))

    def builtin(self, name):
        if name in self.bind:
            raise Untranslatable("builtin %s is rebound at module level in %s.py" % (name, self.short))

    def find(self, qual):
        body, node = self.tree.body, None
        parts = qual.split(".")
        if self.bound_to(parts[0]) not in ("def", "class"):
            raise Untranslatable("%s is not a module-level def/class" % parts[0])
        for p in parts:
            cands = [n for n in body if isinstance(n, (ast.FunctionDef, ast.ClassDef)) and n.name == p]
            if len(cands) != 1:
                raise Untranslatable("%d definitions of %s" % (len(cands), qual))
            node = cands[0]
            body = node.body
        return node


def islist(t):
    return isinstance(t, tuple) and t[0] == "list"


def isopt(t):
    return isinstance(t, tuple) and t[0] == "opt"


def ident(name):
    if not re.fullmatch(r"[A-Za-z][A-Za-z0-9_]*", name) or name in RESERVED \
            or re.match(r"(g|py|ps|h)_|(v|nv)\d+$|E[A-Z]", name):
        raise Untranslatable("local name %r is not usable as a Gallina variable" % name)
    return name


# ------------------------------------------------------------------ one function body -> one Gallina term
class Fn:
    def __init__(self, unit, decl, node, outer=None):
        self.u, self.d, self.node, self.outer = unit, decl, node, outer
        self.m = unit.mod(decl["mod"])
        self.mode, self.ret = decl["mode"], decl["ret"]
        self.n = 0          # binds generated so far
        self.nn = 0         # narrowing names
        self.nloops = 0
        self.aux = []
        self.noreturn = 0
        self.tail_ty = None

    # -- helpers
    def fresh(self):
        self.n += 1
        return "v%d" % self.n

    def bad(self, why):
        raise Untranslatable(why)

    def coerce(self, text, ty, want):
        if want is None or ty == want:
            return text, ty
        if isopt(want) and ty == want[1]:
            return "(Some %s)" % text, want
        raise Untranslatable("a %s where a %s is needed" % (ty, want))

    def effect(self, text, ty, k, tail=None):
        """a call that may raise: bound, unless it is the returned expression itself (tail call)"""
        if self.mode != "eff":
            raise Untranslatable("a call that may raise inside a function translated as pure")
        if tail is not None and (tail == "any" or tail == ty):
            self.tail_ty = ty
            return text
        v = self.fresh()
        return "(dbind %s (fun %s => %s))" % (text, v, k(v, ty))

    def truth(self, text, ty):
        if ty == BOOL:
            return text
        if islist(ty):
            return "(py_nonempty %s)" % text
        if ty == V:
            return "(truthy W %s)" % text
        raise Untranslatable("truth value of a %s" % (ty,))

    def pure(self, e, env, want=None):
        out, mark = [], self.n
        r = self.atom(e, env, lambda t, ty: (out.append((t, ty)), "@")[1], want)
        if r != "@" or self.n != mark or len(out) != 1:
            raise Untranslatable("a call that may raise where only a pure value can be translated")
        return out[0]

    def closed(self, e, env, want=None):
        """e as a complete term: (text, type, raises?) -- a pure value, or a dres computation"""
        out, mark = [], self.n
        self.tail_ty = None

        def k(t, ty):
            t2, ty2 = self.coerce(t, ty, want)
            out.append((t2, ty2))
            return "(DOk %s)" % t2
        r = self.atom(e, env, k, want, tail=(want if want is not None else "any"))
        if self.n == mark and self.tail_ty is None:
            if len(out) != 1:
                raise Untranslatable("expression shape")
            return out[0][0], out[0][1], False
        ty = out[0][1] if out else self.tail_ty
        self.tail_ty = None
        return r, ty, True

    def atoms(self, es, env, k, wants=None, acc=None):
        acc = acc or []
        if not es:
            return k(acc)
        w = wants[len(acc)] if wants else None
        return self.atom(es[0], env, lambda t, ty: self.atoms(es[1:], env, k, wants, acc + [(t, ty)]), w)

    # -- expressions
    def atom(self, e, env, k, want=None, tail=None):
        if isinstance(e, ast.Constant):
            v = e.value
            if v is None:
                if isopt(want):
                    return k("None", want)
                raise Untranslatable("None where the type is not known to be optional")
            if isinstance(v, bool):
                return k("true" if v else "false", BOOL)
            if isinstance(v, int):
                if want == V:
                    return k("(of_int W (%d)%%Z)" % v, V)
                if v >= 0 and want in (None, NAT):
                    return k("%d" % v, NAT)
                raise Untranslatable("integer literal where a %s is needed" % (want,))
            if isinstance(v, str):
                return k(coq_str(v), STR)
            raise Untranslatable("constant %r" % (v,))
        if isinstance(e, ast.Name):
            return self.name(e, env, k)
        if isinstance(e, ast.Attribute):
            return self.attribute(e, env, k, tail)
        if isinstance(e, ast.Subscript):
            return self.subscript(e, env, k, tail)
        if isinstance(e, ast.Call):
            return self.call(e, env, k, want, tail)
        if isinstance(e, ast.Compare):
            return self.compare(e, env, k)
        if isinstance(e, ast.UnaryOp) and isinstance(e.op, ast.Not):
            return self.atom(e.operand, env, lambda t, ty: k("(negb %s)" % self.truth(t, ty), BOOL))
        if isinstance(e, ast.BoolOp) and isinstance(e.op, ast.Or) and len(e.values) == 2 \
                and isinstance(e.values[1], ast.Call) and isinstance(e.values[1].func, ast.Name) \
                and e.values[1].func.id == "dict" and not e.values[1].args and not e.values[1].keywords:
            self.builtin("dict", env)
            return self.atom(e.values[0], env, lambda t, ty: (isopt(ty) and islist(ty[1]) or self.bad("`or dict()` on a %s" % (ty,)))
                             and k("(py_or_dict %s)" % t, ty[1]))
        if isinstance(e, ast.IfExp):
            def got(c, cty):
                a, aty = self.pure(e.body, env, want)
                b, bty = self.pure(e.orelse, env, want)
                if aty != bty:
                    raise Untranslatable("conditional expression with branches of different types")
                return k("(if %s then %s else %s)" % (self.truth(c, cty), a, b), aty)
            return self.atom(e.test, env, got)
        if isinstance(e, ast.Tuple):
            return self.tuple_(e, env, k, want)
        if isinstance(e, ast.ListComp):
            return self.listcomp(e, env, k, tail)
        if isinstance(e, ast.List):
            if e.elts:
                return self.tuple_(e, env, k, want if islist(want) else None)
            # the element type of an empty list: asked for by the context, else that of the declared result
            ty = want if islist(want) else self.ret if islist(self.ret) else None
            if ty is None:
                raise Untranslatable("empty list of unknown element type")
            return k("[]", ty)
        raise Untranslatable(ast.dump(e)[:80])

    def builtin(self, name, env):
        if name in env:
            raise Untranslatable("builtin %s is shadowed by a local" % name)
        self.m.builtin(name)

    def name(self, e, env, k):
        nm = e.id
        if nm in env:
            ty, cn = env[nm]
            if isinstance(ty, tuple) and ty[0] == "closure":
                return k(self.closure_value(ty[1], env), CALL)
            return k(cn, ty)
        if nm in TYPE_IMPORTS and self.m.short == "functions":
            self.m.need(nm)
            return k("(py_global_type %s)" % coq_str(nm), TY)
        raise Untranslatable("free variable %s" % nm)

    def closure_value(self, d, env):
        if d["gname"] not in self.u.done:
            raise Untranslatable("closure %s was not translated" % d["gname"])
        cells = []
        for fname, fty in d["free"]:
            if fname not in env or env[fname][0] != fty or fty != CALL:
                raise Untranslatable("free variable %s of the closure %s" % (fname, d["closure"]))
            cells.append("(%s, %s)" % (coq_str(fname), env[fname][1]))
        return "(py_closure_key %s [%s])" % (coq_str("ka.%s.%s.<locals>.%s" % (d["mod"], d["qual"], d["closure"])), "; ".join(cells))

    def attribute(self, e, env, k, tail=None):
        key = ("narrow", ast.unparse(e))
        if key in env:
            return k(env[key][1], env[key][0])

        def got(t, ty):
            if ty in ATTRS and e.attr in ATTRS[ty]:
                self.u.check_record(ty)
                proj, pty = ATTRS[ty][e.attr]
                return k("(%s %s)" % (proj, t), pty)
            if ty == TY and e.attr == "actual_type":
                self.u.check_typealias()
                return self.effect("(py_actual_type %s)" % t, TY, k, tail)
            raise Untranslatable("attribute %s of a %s" % (e.attr, ty))
        return self.atom(e.value, env, got)

    def subscript(self, e, env, k, tail=None):
        sl = e.slice
        if isinstance(sl, ast.Slice):
            if sl.upper is not None or sl.step is not None or not (isinstance(sl.lower, ast.Constant)
                                                                   and type(sl.lower.value) is int and sl.lower.value >= 0):
                raise Untranslatable("slice shape")
            return self.atom(e.value, env, lambda t, ty: (islist(ty) or self.bad("slice of a %s" % (ty,)))
                             and k("(skipn %d %s)" % (sl.lower.value, t), ty))

        def got(ats):
            (t, ty), (i, ity) = ats
            if ty == FDICT and ity == STR:
                return k("(py_ddict_get %s %s)" % (t, i), lst(HDR))
            if islist(ty) and ity == NAT:
                return self.effect("(py_index %s %s)" % (t, i), ty[1], k, tail)
            if islist(ty) and ity == STR and ty[1][0] == "pair" and ty[1][1] == STR:
                return self.effect("(py_dict_index %s %s)" % (t, i), ty[1][2], k, tail)
            raise Untranslatable("subscript of a %s by a %s" % (ty, ity))
        return self.atoms([e.value, sl], env, got)

    def compare(self, e, env, k):
        if len(e.ops) != 1:
            raise Untranslatable("comparison chain")
        op = type(e.ops[0])

        def got(ats):
            (a, aty), (b, bty) = ats
            if op in (ast.In, ast.NotIn):
                if aty == STR and (bty == FDICT or (islist(bty) and bty[1][0] == "pair" and bty[1][1] == STR)):
                    t = "(py_dict_mem %s %s)" % (b, a)
                    return k(t if op is ast.In else "(negb %s)" % t, BOOL)
                raise Untranslatable("membership of a %s in a %s" % (aty, bty))
            if aty != NAT or bty != NAT:
                raise Untranslatable("comparison of a %s with a %s" % (aty, bty))
            t = {ast.Lt: "(%s <? %s)%%nat" % (a, b), ast.LtE: "(%s <=? %s)%%nat" % (a, b), ast.Gt: "(%s <? %s)%%nat" % (b, a),
                 ast.GtE: "(%s <=? %s)%%nat" % (b, a), ast.Eq: "(%s =? %s)%%nat" % (a, b), ast.NotEq: "(negb (%s =? %s)%%nat)" % (a, b)}.get(op)
            if t is None:
                raise Untranslatable("comparison %s" % op.__name__)
            return k(t, BOOL)
        return self.atoms([e.left, e.comparators[0]], env, got)

    def tuple_(self, e, env, k, want):
        n = len(e.elts)
        if islist(want):
            return self.atoms(list(e.elts), env, lambda ats: k("[%s]" % "; ".join(self.coerce(t, ty, want[1])[0] for t, ty in ats), want),
                              wants=[want[1]] * n)

        def got(ats):
            tys = [ty for _, ty in ats]
            if n == 2 and (tys[0] != tys[1] or (isinstance(want, tuple) and want[0] == "pair")):
                return k("(%s, %s)" % (ats[0][0], ats[1][0]), pair(tys[0], tys[1]))
            if n >= 1 and all(t == tys[0] for t in tys):
                return k("[%s]" % "; ".join(t for t, _ in ats), lst(tys[0]))
            raise Untranslatable("tuple of mixed types")
        return self.atoms(list(e.elts), env, got)

    # -- generators
    def iterable(self, e, env, k):
        if isinstance(e, ast.Call) and isinstance(e.func, ast.Name) and e.func.id == "zip" and len(e.args) == 2 and not e.keywords:
            self.builtin("zip", env)
            return self.atoms(list(e.args), env, lambda ats: (all(islist(ty) for _, ty in ats) or self.bad("zip of non-lists"))
                              and k("(combine %s %s)" % (ats[0][0], ats[1][0]), lst(pair(ats[0][1][1], ats[1][1][1]))))
        return self.atom(e, env, lambda t, ty: (islist(ty) or self.bad("iteration over a %s" % (ty,))) and k(t, ty))

    def bind_target(self, target, elty, env):
        env2 = dict(env)
        if isinstance(target, ast.Name):
            nm = ident(target.id)
            env2[nm] = (elty, nm)
            return nm, env2
        if isinstance(target, ast.Tuple) and len(target.elts) == 2 and all(isinstance(x, ast.Name) for x in target.elts) \
                and isinstance(elty, tuple) and elty[0] == "pair":
            a, b = (ident(x.id) for x in target.elts)
            if a == b:
                raise Untranslatable("duplicate loop target")
            env2[a] = (elty[1], a)
            env2[b] = (elty[2], b)
            return "'(%s, %s)" % (a, b), env2
        raise Untranslatable("loop target")

    def comp(self, gens, env, k):
        if len(gens) != 1 or gens[0].is_async:
            raise Untranslatable("comprehension shape")
        c = gens[0]

        def got(it, ity):
            pat, env2 = self.bind_target(c.target, ity[1], env)
            return k(it, ity[1], pat, env2, c.ifs)
        return self.iterable(c.iter, env, got)

    def gen_all(self, g, env, k, tail):
        def got(it, elty, pat, env2, ifs):
            if ifs:
                raise Untranslatable("all() over a filtered generator")
            body, ty, eff = self.closed(g.elt, env2, BOOL)
            if eff:
                return self.effect("(allM (fun %s => %s) %s)" % (pat, body, it), BOOL, k, tail)
            return k("(forallb (fun %s => %s) %s)" % (pat, body, it), BOOL)
        return self.comp(g.generators, env, got)

    def listcomp(self, e, env, k, tail=None):
        def got(it, elty, pat, env2, ifs):
            if len(ifs) == 1 and isinstance(e.elt, ast.Name) and isinstance(e.generators[0].target, ast.Name) \
                    and e.elt.id == e.generators[0].target.id:
                body, ty, eff = self.closed(ifs[0], env2, BOOL)
                if eff:
                    return self.effect("(filterM (fun %s => %s) %s)" % (pat, body, it), lst(elty), k, tail)
                return k("(filter (fun %s => %s) %s)" % (pat, body, it), lst(elty))
            if ifs:
                raise Untranslatable("list comprehension shape")
            body, ty, eff = self.closed(e.elt, env2)
            if eff:
                return self.effect("(mapM (fun %s => %s) %s)" % (pat, body, it), lst(ty), k, tail)
            return k("(map (fun %s => %s) %s)" % (pat, body, it), lst(ty))
        return self.comp(e.generators, env, got)

    def gen_dict(self, g, env, k, tail):
        def got(it, elty, pat, env2, ifs):
            if ifs or not (isinstance(g.elt, ast.Tuple) and len(g.elt.elts) == 2):
                raise Untranslatable("dict() generator shape")
            body, ty, eff = self.closed(g.elt, env2)
            if not (isinstance(ty, tuple) and ty[0] == "pair" and ty[1] == STR):
                raise Untranslatable("dict() of %s" % (ty,))
            if eff:
                return self.effect("(mapM (fun %s => %s) %s)" % (pat, body, it), lst(ty), k, tail)
            return k("(map (fun %s => %s) %s)" % (pat, body, it), lst(ty))
        return self.comp(g.generators, env, got)

    def map_call(self, e, env, k):
        """list(map(F, L)) with F a one-argument lambda with a pure body, or get_external_type_name"""
        self.builtin("map", env)
        if len(e.args) != 2 or e.keywords:
            raise Untranslatable("map shape")
        f = e.args[0]

        def got(it, ity):
            if not islist(ity):
                raise Untranslatable("map over a %s" % (ity,))
            if isinstance(f, ast.Name) and f.id == "get_external_type_name" and f.id not in env and ity[1] == V:
                self.m.need(f.id)
                return k("(map (ext_type_name W) %s)" % it, lst(STR))
            if isinstance(f, ast.Lambda):
                a = f.args
                if a.vararg or a.kwarg or a.kwonlyargs or a.defaults or a.kw_defaults or getattr(a, "posonlyargs", []) or len(a.args) != 1:
                    raise Untranslatable("lambda arguments")
                nm = ident(a.args[0].arg)
                env2 = dict(env)
                env2[nm] = (ity[1], nm)
                body, bty = self.pure(f.body, env2)
                return k("(map (fun %s => %s) %s)" % (nm, body, it), lst(bty))
            raise Untranslatable("mapped function")
        return self.atom(e.args[1], env, got)

    # -- calls
    def call(self, e, env, k, want=None, tail=None):
        f = e.func
        if any(isinstance(a, ast.Starred) for a in e.args) or any(kw.arg is None for kw in e.keywords):
            # header.f( *A, **K ): f, then A, then K are evaluated, then the call
            if len(e.args) == 1 and isinstance(e.args[0], ast.Starred) and len(e.keywords) == 1 and e.keywords[0].arg is None:
                def got(ats):
                    (ft, fty), (at, aty), (kt_, kty) = ats
                    if fty != CALL or aty != lst(V) or kty != KW:
                        raise Untranslatable("starred call of a %s with %s and %s" % (fty, aty, kty))
                    return self.effect("(call W %s %s %s)" % (ft, at, kt_), V, k, tail)
                return self.atoms([f, e.args[0].value, e.keywords[0].value], env, got, wants=[None, lst(V), KW])
            raise Untranslatable("starred call shape")
        if isinstance(f, ast.Name):
            nm = f.id
            if nm in env:
                ty = env[nm][0]
                if ty == CALL and not e.keywords:
                    def got(ats):
                        if any(ty2 != V for _, ty2 in ats):
                            raise Untranslatable("argument of a callable is not a value")
                        return self.effect("(call W %s [%s] [])" % (env[nm][1], "; ".join(t for t, _ in ats)), V, k, tail)
                    return self.atoms(list(e.args), env, got)
                raise Untranslatable("call of the local %s" % nm)
            if nm in BUILTINS:
                return self.builtin_call(nm, e, env, k, want, tail)
            if nm == "coerce_to" and len(e.args) == 2 and not e.keywords:
                self.m.need(nm)
                return self.atoms(list(e.args), env, lambda ats: (ats[0][1] == V or self.bad("coerce_to of a %s" % (ats[0][1],))) and
                                  self.effect("(coerce_to W %s %s)" % (ats[0][0], self.coerce(ats[1][0], ats[1][1], opt(TY))[0]), V, k, tail),
                                  wants=[V, opt(TY)])
            if nm == "simplify_type" and len(e.args) == 1 and not e.keywords:
                self.m.need(nm)
                return self.atom(e.args[0], env, lambda t, ty: (ty == V or self.bad("simplify_type of a %s" % (ty,))) and
                                 self.effect("(simplify_type W %s)" % t, V, k, tail), V)
            if nm == "get_external_type_name" and len(e.args) == 1 and not e.keywords:
                self.m.need(nm)
                return self.atom(e.args[0], env, lambda t, ty: (ty == V or self.bad("type name of a %s" % (ty,))) and
                                 k("(ext_type_name W %s)" % t, STR))
            d = self.u.callee(self.m, nm)
            return self.apply(d, None, e, env, k, tail)
        if isinstance(f, ast.Attribute):
            meth = f.attr

            def got(t, ty):
                if meth == "items" and not e.args and not e.keywords and islist(ty) and ty[1][0] == "pair":
                    return k(t, ty)
                if meth == "get" and len(e.args) == 2 and not e.keywords and islist(ty) and ty[1][0] == "pair" and ty[1][1] == STR \
                        and isinstance(e.args[1], ast.Constant) and e.args[1].value is None:
                    return self.atom(e.args[0], env, lambda kt_, kty: (kty == STR or self.bad("dict key of type %s" % (kty,))) and
                                     k("(assoc %s %s)" % (kt_, t), opt(ty[1][2])))
                if ty in CLASS_OF:
                    d = self.u.callee(self.m, CLASS_OF[ty] + "." + meth)
                    return self.apply(d, (t, ty), e, env, k, tail)
                raise Untranslatable("method %s of a %s" % (meth, ty))
            return self.atom(f.value, env, got)
        raise Untranslatable("call " + ast.dump(f)[:60])

    def builtin_call(self, nm, e, env, k, want, tail):
        self.m.builtin(nm)
        if e.keywords:
            raise Untranslatable("keywords to %s" % nm)
        a = e.args
        if nm == "len" and len(a) == 1:
            return self.atom(a[0], env, lambda t, ty: (islist(ty) or self.bad("len of a %s" % (ty,))) and k("(List.length %s)" % t, NAT))
        if nm == "isinstance" and len(a) == 2:
            if isinstance(a[1], ast.Name) and a[1].id == "TypeAlias" and "TypeAlias" not in env:
                self.m.need("TypeAlias")
                self.u.check_typealias()
                return self.atom(a[0], env, lambda t, ty: (ty == TY or self.bad("isinstance(%s, TypeAlias)" % (ty,))) and k("(py_is_alias %s)" % t, BOOL))
            return self.atoms(list(a), env, lambda ats: ((ats[0][1], ats[1][1]) == (V, TY) or self.bad("isinstance(%s, %s)" % (ats[0][1], ats[1][1]))) and
                              self.effect("(py_isinstance (kind_of W %s) %s)" % (ats[0][0], ats[1][0]), BOOL, k, tail))
        if nm == "issubclass" and len(a) == 2:
            return self.atoms(list(a), env, lambda ats: ((ats[0][1], ats[1][1]) == (TY, TY) or self.bad("issubclass(%s, %s)" % (ats[0][1], ats[1][1]))) and
                              self.effect("(py_issubclass %s %s)" % (ats[0][0], ats[1][0]), BOOL, k, tail))
        if nm == "all" and len(a) == 1 and isinstance(a[0], ast.GeneratorExp):
            return self.gen_all(a[0], env, k, tail)
        if nm == "list" and len(a) == 1 and isinstance(a[0], ast.Call) and isinstance(a[0].func, ast.Name) and a[0].func.id == "map" \
                and "map" not in env:
            return self.map_call(a[0], env, k)
        if nm == "str" and len(a) == 1:
            return self.atom(a[0], env, lambda t, ty: (ty == PSIG or self.bad("str of a %s" % (ty,))) and k("(sig_str W %s)" % t, STR))
        if nm == "dict" and not a:
            if want in (KW, TKW):
                return k("[]", want)
            raise Untranslatable("dict() where the value type is not known")
        if nm == "dict" and len(a) == 1 and isinstance(a[0], ast.GeneratorExp):
            return self.gen_dict(a[0], env, k, tail)
        raise Untranslatable("call of %s" % nm)

    def apply(self, d, recv, e, env, k, tail, stmt=False):
        """call of a translated function / method / constructor"""
        pn, df = d["pnames"], d["defaults"]
        if len(e.args) > len(pn):
            raise Untranslatable("too many arguments to %s" % d["qual"])
        exprs = dict(zip(pn, e.args))
        for kw in e.keywords:
            if kw.arg not in pn or kw.arg in exprs:
                raise Untranslatable("keyword %s to %s" % (kw.arg, d["qual"]))
            exprs[kw.arg] = kw.value
        # Python evaluates positional arguments, then keyword arguments, each in source order
        order = [p for p in pn[:len(e.args)]] + [kw.arg for kw in e.keywords]
        for p in pn:
            if p not in exprs:
                if p not in df:
                    raise Untranslatable("missing argument %s to %s" % (p, d["qual"]))
                exprs[p] = ast.Constant(value=None)
                order.append(p)
        want = dict(zip(pn, d["params"]))

        def got(ats):
            val = {p: self.coerce(t, ty, want[p])[0] for p, (t, ty) in zip(order, ats)}
            head = [d["gname"], "W"]
            if d["reads_F"]:
                if "FUNCTIONS" not in env:
                    raise Untranslatable("%s needs FUNCTIONS, which the caller does not have" % d["qual"])
                head.append(env["FUNCTIONS"][1])
            if recv is not None:
                head.append(recv[0])
            text = "(%s)" % " ".join(head + [val[p] for p in pn])
            if d["mode"] == "eff":
                return self.effect(text, d["ret"], k, tail)
            if d["mode"] == "state":
                if not stmt:
                    raise Untranslatable("%s used as a value" % d["qual"])
                return k(text, FDICT)
            return k(text, d["ret"])
        return self.atoms([exprs[p] for p in order], env, got, wants=[want[p] for p in order])

    # -- conditions
    def cond(self, e, env, kt, kf):
        if isinstance(e, ast.BoolOp):
            vals = list(e.values)
            rest = vals[1] if len(vals) == 2 else ast.BoolOp(op=e.op, values=vals[1:])
            if isinstance(e.op, ast.And):
                return self.cond(vals[0], env, lambda e1: self.cond(rest, e1, kt, kf), kf)
            return self.cond(vals[0], env, kt, lambda e1: self.cond(rest, e1, kt, kf))
        if isinstance(e, ast.UnaryOp) and isinstance(e.op, ast.Not):
            return self.cond(e.operand, env, kf, kt)
        if isinstance(e, ast.Compare) and len(e.ops) == 1 and isinstance(e.ops[0], (ast.Is, ast.IsNot)) \
                and isinstance(e.comparators[0], ast.Constant) and e.comparators[0].value is None:
            x = e.left
            xt, xty = self.pure(x, env)
            if not isopt(xty):
                raise Untranslatable("`is None` on a %s" % (xty,))
            env2 = dict(env)
            if isinstance(x, ast.Name):
                b = env[x.id][1]
                env2[x.id] = (xty[1], b)
            else:
                self.nn += 1
                b = "nv%d" % self.nn
                env2[("narrow", ast.unparse(x))] = (xty[1], b)
            kn, ks = (kt, kf) if isinstance(e.ops[0], ast.Is) else (kf, kt)
            return "(match %s with None => %s | Some %s => %s end)" % (xt, kn(env), b, ks(env2))
        return self.atom(e, env, lambda c, cty: "(if %s then %s else %s)" % (self.truth(c, cty), kt(env), kf(env)))

    # -- statements
    def returns(self, stmts):
        if not stmts:
            return False
        last = stmts[-1]
        if isinstance(last, (ast.Return, ast.Raise)):
            return True
        if isinstance(last, ast.If):
            return self.returns(last.body) and bool(last.orelse) and self.returns(last.orelse)
        return False

    def assigned(self, stmts):
        out = []
        for s in stmts:
            for n in ast.walk(s):
                if isinstance(n, ast.Name) and isinstance(n.ctx, ast.Store):
                    out.append(n.id)
                if isinstance(n, ast.Call) and isinstance(n.func, ast.Attribute) and n.func.attr == "append" \
                        and isinstance(n.func.value, ast.Name):
                    out.append(n.func.value.id)
        return out

    def fall(self, kend, env):
        if kend is None:
            raise Untranslatable("a path falls off the end of the function (returns None)")
        return kend(env)

    def let(self, name, text, ty, env, rest, kend):
        env2 = dict(env)
        env2[name] = (ty, name)
        return "(let %s := %s in %s)" % (name, text, self.block(rest, env2, kend))

    def block(self, stmts, env, kend):
        if not stmts:
            return self.fall(kend, env)
        s, rest = stmts[0], list(stmts[1:])
        if isinstance(s, ast.Expr) and isinstance(s.value, ast.Constant) and isinstance(s.value.value, str):
            return self.block(rest, env, kend)
        if isinstance(s, ast.Global):
            if set(s.names) - {"FUNCTIONS"}:
                raise Untranslatable("global %s" % ", ".join(s.names))
            return self.block(rest, env, kend)
        if isinstance(s, ast.FunctionDef):
            if s.name not in env or not (isinstance(env[s.name][0], tuple) and env[s.name][0][0] == "closure"):
                raise Untranslatable("nested def %s is not a declared closure" % s.name)
            return self.block(rest, env, kend)
        if isinstance(s, ast.Return):
            return self.return_(s, env)
        if isinstance(s, ast.Raise):
            return self.raise_(s, env)
        if isinstance(s, ast.If):
            return self.if_(s, rest, env, kend)
        if isinstance(s, ast.Assign) and len(s.targets) == 1 and isinstance(s.targets[0], ast.Name):
            name = ident(s.targets[0].id)
            if name in env and isinstance(env[name][0], tuple) and env[name][0][0] == "closure":
                raise Untranslatable("assignment to the closure name %s" % name)
            return self.atom(s.value, env, lambda t, ty: self.let(name, t, ty, env, rest, kend))
        if isinstance(s, ast.AugAssign) and isinstance(s.target, ast.Name) and isinstance(s.op, ast.Add) \
                and isinstance(s.value, ast.Constant) and type(s.value.value) is int and s.value.value >= 0:
            name = s.target.id
            if name not in env or env[name][0] != NAT:
                raise Untranslatable("+= on %s" % name)
            return self.let(name, "(%s + %d)%%nat" % (name, s.value.value), NAT, env, rest, kend)
        if isinstance(s, ast.Expr) and isinstance(s.value, ast.Call):
            return self.expr_stmt(s.value, rest, env, kend)
        if isinstance(s, ast.While):
            return self.while_(s, rest, env, kend)
        if isinstance(s, ast.For):
            return self.for_(s, rest, env, kend)
        raise Untranslatable("statement " + type(s).__name__)

    def return_(self, s, env):
        if self.noreturn:
            raise Untranslatable("return inside a for loop")
        if self.mode == "state":
            raise Untranslatable("return in a registrar")
        if s.value is None:
            raise Untranslatable("bare return")
        e = s.value
        if self.mode == "eff":
            if self.ret == BOOL and (isinstance(e, ast.BoolOp) or (isinstance(e, ast.UnaryOp) and isinstance(e.op, ast.Not))):
                return self.boolret(e, env)
            return self.atom(e, env, lambda t, ty: "(DOk %s)" % self.coerce(t, ty, self.ret)[0], self.ret, tail=self.ret)
        t, ty = self.pure(e, env, self.ret)
        return self.coerce(t, ty, self.ret)[0]

    def boolret(self, e, env):
        """`return a or b` / `return a and b` / `return not a` of booleans; the last operand is in tail position"""
        if isinstance(e, ast.BoolOp):
            vals = list(e.values)
            rest = vals[1] if len(vals) == 2 else ast.BoolOp(op=e.op, values=vals[1:])
            if isinstance(e.op, ast.And):
                return self.cond(vals[0], env, lambda e1: self.boolret(rest, e1), lambda e1: "(DOk false)")
            return self.cond(vals[0], env, lambda e1: "(DOk true)", lambda e1: self.boolret(rest, e1))
        if isinstance(e, ast.UnaryOp) and isinstance(e.op, ast.Not):
            return self.cond(e.operand, env, lambda e1: "(DOk false)", lambda e1: "(DOk true)")
        if isinstance(e, ast.Compare) and len(e.ops) == 1 and isinstance(e.ops[0], (ast.Is, ast.IsNot)):
            return self.cond(e, env, lambda e1: "(DOk true)", lambda e1: "(DOk false)")
        return self.atom(e, env, lambda t, ty: "(DOk %s)" % self.coerce(t, ty, BOOL)[0], BOOL, tail=BOOL)

    def raise_(self, s, env):
        if self.mode != "eff":
            raise Untranslatable("raise inside a function translated as pure")
        x = s.exc
        if s.cause is not None or not (isinstance(x, ast.Call) and isinstance(x.func, ast.Name) and not x.keywords):
            raise Untranslatable("raise shape")
        cls = x.func.id
        if cls not in EXCS or cls in env:
            raise Untranslatable("raise of %s" % cls)
        self.m.need(cls)
        ctor, tys = EXCS[cls]
        init = [n for n in self.m.find(cls).body if isinstance(n, ast.FunctionDef) and n.name == "__init__"]
        if len(init) != 1 or len(init[0].args.args) != len(tys) + 1 or init[0].args.vararg or init[0].args.kwarg \
                or init[0].args.defaults or init[0].args.kwonlyargs or len(x.args) != len(tys):
            raise Untranslatable("constructor of %s" % cls)
        return self.atoms(list(x.args), env, lambda ats: "(DRaise (%s %s))" % (
            ctor, " ".join(self.coerce(t, ty, w)[0] for (t, ty), w in zip(ats, tys))), wants=tys)

    def droppable(self, s):
        """`if <pure test on None-ness / membership>: FUNCTION_DOCUMENTATION[..] = ..` inside a registrar"""
        if self.mode != "state" or s.orelse:
            return False
        for b in s.body:
            if not (isinstance(b, ast.Assign) and len(b.targets) == 1 and isinstance(b.targets[0], ast.Subscript)
                    and isinstance(b.targets[0].value, ast.Name) and b.targets[0].value.id == "FUNCTION_DOCUMENTATION"
                    and isinstance(b.targets[0].slice, ast.Name) and isinstance(b.value, ast.Name)):
                return False
        if self.m.bind.get("FUNCTION_DOCUMENTATION") != ["assign"]:
            return False

        def ok(t):
            if isinstance(t, ast.BoolOp):
                return all(ok(v) for v in t.values)
            if isinstance(t, ast.UnaryOp) and isinstance(t.op, ast.Not):
                return ok(t.operand)
            if isinstance(t, ast.Compare) and len(t.ops) == 1 and isinstance(t.left, ast.Name):
                c = t.comparators[0]
                if isinstance(t.ops[0], (ast.Is, ast.IsNot)) and isinstance(c, ast.Constant) and c.value is None:
                    return True
                if isinstance(t.ops[0], (ast.In, ast.NotIn)) and isinstance(c, ast.Name) and c.id == "FUNCTION_DOCUMENTATION":
                    return True
            return False
        return ok(s.test)

    def if_(self, s, rest, env, kend):
        if self.droppable(s):
            return self.block(rest, env, kend)
        body, orelse = list(s.body), list(s.orelse)
        if self.returns(body):
            if orelse and self.returns(orelse):
                return self.cond(s.test, env, lambda e1: self.block(body, e1, None), lambda e2: self.block(orelse, e2, None))
            return self.cond(s.test, env, lambda e1: self.block(body, e1, None), lambda e2: self.block(orelse + rest, e2, kend))
        if orelse and self.returns(orelse):
            return self.cond(s.test, env, lambda e1: self.block(body + rest, e1, kend), lambda e2: self.block(orelse, e2, None))
        # `if c: x = a  else: x = b`: x is rebound to `if c then a else b`
        def single(b):
            return len(b) == 1 and isinstance(b[0], ast.Assign) and len(b[0].targets) == 1 and isinstance(b[0].targets[0], ast.Name)
        if orelse and single(body) and single(orelse) and body[0].targets[0].id == orelse[0].targets[0].id \
                and body[0].targets[0].id in env and isinstance(env[body[0].targets[0].id][0], (str, tuple)) \
                and not (isinstance(env[body[0].targets[0].id][0], tuple) and env[body[0].targets[0].id][0][0] == "closure"):
            x = body[0].targets[0].id
            xty = env[x][0]

            def got2(c, cty):
                c = self.truth(c, cty)
                a, aty, ea = self.closed(body[0].value, env, xty)
                b, bty, eb = self.closed(orelse[0].value, env, xty)
                if aty != xty or bty != xty:
                    raise Untranslatable("conditional assignment changes the type of %s" % x)
                if ea or eb:
                    if self.mode != "eff":
                        raise Untranslatable("a call that may raise inside a function translated as pure")
                    return "(dbind (if %s then %s else %s) (fun %s => %s))" % (
                        c, a if ea else "(DOk %s)" % a, b if eb else "(DOk %s)" % b, x, self.block(rest, env, kend))
                return self.let(x, "(if %s then %s else %s)" % (c, a, b), xty, env, rest, kend)
            return self.atom(s.test, env, got2)
        # `if c: x = e` (no else): x is rebound to `if c then e else x`
        if not orelse and len(body) == 1 and isinstance(body[0], ast.Assign) and len(body[0].targets) == 1 \
                and isinstance(body[0].targets[0], ast.Name) and body[0].targets[0].id in env:
            x = body[0].targets[0].id
            xty = env[x][0]
            if not isinstance(xty, str) and not (isinstance(xty, tuple) and xty[0] in ("opt", "list", "pair")):
                raise Untranslatable("conditional assignment to %s" % x)
            t = s.test
            if isinstance(t, ast.Compare) and len(t.ops) == 1 and isinstance(t.ops[0], ast.Is) and isinstance(t.left, ast.Name) \
                    and t.left.id == x and isinstance(t.comparators[0], ast.Constant) and t.comparators[0].value is None and isopt(xty):
                v, vty = self.pure(body[0].value, env, xty[1])
                if vty != xty[1]:
                    raise Untranslatable("conditional assignment of a %s to %s" % (vty, x))
                return self.let(x, "(match %s with None => %s | Some %s => %s end)" % (x, v, x, x), xty[1], env, rest, kend)

            def got(c, cty):
                c = self.truth(c, cty)
                v, vty, eff = self.closed(body[0].value, env, xty)
                if vty != xty:
                    raise Untranslatable("conditional assignment of a %s to %s" % (vty, x))
                if eff:
                    if self.mode != "eff":
                        raise Untranslatable("a call that may raise inside a function translated as pure")
                    return "(dbind (if %s then %s else (DOk %s)) (fun %s => %s))" % (c, v, x, x, self.block(rest, env, kend))
                return self.let(x, "(if %s then %s else %s)" % (c, v, x), xty, env, rest, kend)
            return self.atom(t, env, got)
        raise Untranslatable("if statement whose branches neither return nor rebind one variable")

    def expr_stmt(self, c, rest, env, kend):
        f = c.func
        if isinstance(f, ast.Attribute) and f.attr == "append" and len(c.args) == 1 and not c.keywords:
            tgt = f.value
            if isinstance(tgt, ast.Name) and tgt.id in env and islist(env[tgt.id][0]):
                name, ty = tgt.id, env[tgt.id][0]
                return self.atom(c.args[0], env, lambda t, ety: self.let(
                    name, "(%s ++ [%s])%%list" % (name, self.coerce(t, ety, ty[1])[0]), ty, env, rest, kend), ty[1])
            if isinstance(tgt, ast.Subscript) and isinstance(tgt.value, ast.Name) and tgt.value.id == "FUNCTIONS" \
                    and self.mode == "state" and "FUNCTIONS" in env:
                def got(ats):
                    (kt_, kty), (h, hty) = ats
                    if kty != STR or hty != HDR:
                        raise Untranslatable("FUNCTIONS[%s].append(%s)" % (kty, hty))
                    return self.let("FUNCTIONS", "(py_ddict_append FUNCTIONS %s %s)" % (kt_, h), FDICT, env, rest, kend)
                return self.atoms([tgt.slice, c.args[0]], env, got)
            raise Untranslatable("append target")
        if isinstance(f, ast.Name) and f.id not in env and f.id not in BUILTINS and self.mode == "state":
            d = self.u.callee(self.m, f.id)
            if d["mode"] != "state":
                raise Untranslatable("call of %s as a statement" % f.id)
            return self.apply(d, None, c, env, lambda t, ty: self.let("FUNCTIONS", t, FDICT, env, rest, kend), None, stmt=True)
        raise Untranslatable("expression statement")

    def while_(self, s, rest, env, kend):
        if s.orelse or self.mode != "eff":
            raise Untranslatable("while shape")
        t = s.test
        if not (isinstance(t, ast.Compare) and len(t.ops) == 1 and isinstance(t.ops[0], ast.Lt) and isinstance(t.left, ast.Name)
                and isinstance(t.comparators[0], ast.Call) and isinstance(t.comparators[0].func, ast.Name)
                and t.comparators[0].func.id == "len" and len(t.comparators[0].args) == 1):
            raise Untranslatable("while test is not `i < len(..)`: no fuel can be chosen")
        fuel_t, fuel_ty = self.pure(t.comparators[0].args[0], env)
        if not islist(fuel_ty):
            raise Untranslatable("len of a %s" % (fuel_ty,))
        envl = {k: v for k, v in env.items() if isinstance(k, str)}
        params = [(k, v[0]) for k, v in envl.items() if not (isinstance(v[0], tuple) and v[0][0] == "closure")]
        self.nloops += 1
        lname = "%s_loop%d" % (self.d["gname"], self.nloops)

        def again(env2):
            for name, ty in params:
                if name not in env2 or env2[name][0] != ty:
                    raise Untranslatable("the type of %s changes inside the loop" % name)
            return "(%s W fuel %s)" % (lname, " ".join(name for name, _ in params))
        body = self.cond(t, envl, lambda e1: self.block(list(s.body), e1, again), lambda e2: self.block(rest, e2, kend))
        self.aux.append("Fixpoint %s (W : world) (fuel : nat) %s {struct fuel} : dres (V W) %s :=\n  match fuel with\n"
                        "  | O => DRaise (EExn OutOfFuel)\n  | S fuel =>\n    %s\n  end." % (
                            lname, " ".join("(%s : %s)" % (n, coqty(ty)) for n, ty in params), coqty(self.ret), body))
        return "(%s W (S (List.length %s)) %s)" % (lname, fuel_t, " ".join(name for name, _ in params))

    def for_(self, s, rest, env, kend):
        if s.orelse or self.mode != "eff":
            raise Untranslatable("for shape")
        asg = set(self.assigned(s.body))
        carried = [k for k, v in env.items() if isinstance(k, str) and k in asg]
        for c in carried:
            if isinstance(env[c][0], tuple) and env[c][0][0] == "closure":
                raise Untranslatable("loop assigns the closure name %s" % c)

        def got(it, ity):
            pat, env2 = self.bind_target(s.target, ity[1], env)
            tnames = [n.id for n in ast.walk(s.target) if isinstance(n, ast.Name)]
            if set(tnames) & set(carried):
                raise Untranslatable("loop target is also assigned in the body")
            if not carried:
                spat, sval = "_", "tt"
            elif len(carried) == 1:
                spat = sval = carried[0]
            else:
                sval = "(%s)" % ", ".join(carried)
                spat = "'" + sval

            def end(env3):
                for c in carried:
                    if env3[c][0] != env[c][0]:
                        raise Untranslatable("the type of %s changes inside the loop" % c)
                return "(DOk %s)" % sval
            self.noreturn += 1
            try:
                body = self.block(list(s.body), env2, end)
            finally:
                self.noreturn -= 1
            return "(dbind (foldM (fun %s %s => %s) %s %s) (fun %s => %s))" % (
                spat, pat, body, it, sval, spat, self.block(rest, env, kend))
        return self.iterable(s.iter, env, got)


# ------------------------------------------------------------------ the whole unit
def esc(x):
    return str(x).replace("*)", "* )").replace("(*", "( *")


class Unit:
    def __init__(self):
        self.mods = {}
        self.done = {}
        self._rec = {}
        self._ta = None
        self._fg = None

    def mod(self, short):
        if short not in self.mods:
            try:
                self.mods[short] = Module(short)
            except (OSError, SyntaxError) as x:
                raise Untranslatable("cannot read %s.py: %r" % (short, x))
        return self.mods[short]

    def callee(self, m, name):
        cands = [d for d in FUNS if d["closure"] is None and d["qual"] in (name, name + ".__init__")]
        if not cands:
            raise Untranslatable("call of %s, which is not in the translated set" % name)
        d = cands[0]
        top = name.split(".")[0]
        if d["mod"] == m.short:
            if m.bound_to(top) not in ("def", "class"):
                raise Untranslatable("%s is not the module-level definition" % top)
        else:
            m.need(top)
        if d["gname"] not in self.done:
            raise Untranslatable("callee %s was not translated" % name)
        return d

    # -- structural checks behind the attribute mapping
    def check_record(self, ty):
        if ty in self._rec:
            if self._rec[ty]:
                raise Untranslatable(self._rec[ty])
            return
        why = None
        cls = CLASS_OF[ty]
        if "g_" + cls not in self.done:
            why = "the constructor of %s was not translated" % cls
        else:
            m = self.mod("functions")
            watched = set(ATTRS[PSIG]) | set(ATTRS[HDR])
            allowed = set()
            for c in ast.walk(m.tree):
                if isinstance(c, ast.ClassDef):
                    for meth in c.body:
                        if isinstance(meth, ast.FunctionDef) and meth.name == "__init__":
                            for n in ast.walk(meth):
                                if isinstance(n, ast.Attribute) and isinstance(n.ctx, ast.Store) and isinstance(n.value, ast.Name) \
                                        and meth.args.args and n.value.id == meth.args.args[0].arg:
                                    if (c.name == "FunctionSignature" and n.attr in ATTRS[PSIG]) or \
                                            (c.name == "FunctionHeader" and n.attr in ATTRS[HDR]) or \
                                            (n.attr == "name" and c.name not in ("FunctionSignature",)):
                                        allowed.add(id(n))
            for n in ast.walk(m.tree):
                if isinstance(n, ast.Attribute) and isinstance(n.ctx, (ast.Store, ast.Del)) and n.attr in watched and id(n) not in allowed:
                    why = "attribute .%s is assigned outside its constructor (line %d)" % (n.attr, n.lineno)
                if isinstance(n, ast.Call) and isinstance(n.func, ast.Name) and n.func.id in ("setattr", "delattr"):
                    why = "setattr/delattr at line %d" % n.lineno
        self._rec[ty] = why
        if why:
            raise Untranslatable(why)

    def check_typealias(self):
        if self._ta is None:
            self._ta = self._typealias() or ""
        if self._ta:
            raise Untranslatable(self._ta)

    def _typealias(self):
        m = self.mod("types")
        try:
            if m.bound_to("TypeAlias") != "class":
                return "TypeAlias is not a class of types.py"
            init = [n for n in m.find("TypeAlias").body if isinstance(n, ast.FunctionDef) and n.name == "__init__"]
        except Untranslatable as x:
            return str(x)
        if len(init) != 1:
            return "TypeAlias.__init__"
        a = init[0].args
        if [x.arg for x in a.args][1:] != ["name", "actual_type"] or a.vararg or a.kwarg or a.defaults or a.kwonlyargs:
            return "arguments of TypeAlias.__init__"
        slf = a.args[0].arg
        body = [s for s in init[0].body if not (isinstance(s, ast.Expr) and isinstance(s.value, ast.Constant))]
        want = [("name", "name"), ("actual_type", "actual_type")]
        got = []
        for s in body:
            if isinstance(s, ast.Assign) and len(s.targets) == 1 and isinstance(s.targets[0], ast.Attribute) \
                    and isinstance(s.targets[0].value, ast.Name) and s.targets[0].value.id == slf and isinstance(s.value, ast.Name):
                got.append((s.targets[0].attr, s.value.id))
            else:
                return "body of TypeAlias.__init__"
        if sorted(got) != sorted(want):
            return "TypeAlias.__init__ does not store name and actual_type"
        for short in ("types", "functions"):
            mm = self.mod(short)
            for n in ast.walk(mm.tree):
                if isinstance(n, ast.Attribute) and isinstance(n.ctx, (ast.Store, ast.Del)) and n.attr == "actual_type" \
                        and not (short == "types" and init[0].lineno <= n.lineno <= init[0].end_lineno):
                    return ".actual_type is assigned at %s.py:%d" % (short, n.lineno)
        return None

    def aliases(self):
        """module-level  X = TypeAlias("X", cls)  of types.py; no other TypeAlias(..) call anywhere"""
        self.check_typealias()
        m = self.mod("types")
        out, ok = [], set()
        for s in m.tree.body:
            if isinstance(s, ast.Assign) and isinstance(s.value, ast.Call) and isinstance(s.value.func, ast.Name) \
                    and s.value.func.id == "TypeAlias":
                c = s.value
                if len(s.targets) == 1 and isinstance(s.targets[0], ast.Name) and len(c.args) == 2 and not c.keywords \
                        and isinstance(c.args[0], ast.Constant) and c.args[0].value == s.targets[0].id \
                        and isinstance(c.args[1], ast.Name) and m.bound_to(s.targets[0].id) == "assign":
                    out.append((s.targets[0].id, c.args[1].id))
                    ok.add(id(c))
        for short in ("types", "functions"):
            for n in ast.walk(self.mod(short).tree):
                if isinstance(n, ast.Call) and isinstance(n.func, ast.Name) and n.func.id == "TypeAlias" and id(n) not in ok:
                    raise Untranslatable("TypeAlias(..) at %s.py:%d is not a module-level `X = TypeAlias(\"X\", cls)` of types.py" % (short, n.lineno))
        fm = self.mod("functions")
        for nm, _ in out:
            if nm in fm.bind and fm.bind[nm] != [".types." + nm]:
                raise Untranslatable("functions.py binds the alias name %s itself" % nm)
        return out

    def check_functions_global(self):
        if self._fg is None:
            m = self.mod("functions")
            why = ""
            try:
                m.need("FUNCTIONS")
                m.need("collections")
                s = [n for n in m.tree.body if isinstance(n, ast.Assign) and any(isinstance(t, ast.Name) and t.id == "FUNCTIONS" for t in n.targets)]
                v = s[0].value if len(s) == 1 and len(s[0].targets) == 1 else None
                if not (isinstance(v, ast.Call) and isinstance(v.func, ast.Attribute) and isinstance(v.func.value, ast.Name)
                        and v.func.value.id == "collections" and v.func.attr == "defaultdict" and len(v.args) == 1
                        and isinstance(v.args[0], ast.Name) and v.args[0].id == "list" and not v.keywords and "list" not in m.bind):
                    why = "FUNCTIONS is not collections.defaultdict(list)"
            except Untranslatable as x:
                why = str(x)
            self._fg = why
        if self._fg:
            raise Untranslatable(self._fg)

    # -- one definition
    def define(self, d):
        m = self.mod(d["mod"])
        node = m.find(d["qual"])
        outer = None
        if d["closure"]:
            outer = node
            inner = [n for n in node.body if isinstance(n, ast.FunctionDef) and n.name == d["closure"]]
            if len(inner) != 1:
                raise Untranslatable("no nested def %s" % d["closure"])
            node = inner[0]
        for fn_ in ([outer] if outer else []) + [node]:
            a = fn_.args
            if a.vararg or a.kwarg or a.kwonlyargs or a.kw_defaults or getattr(a, "posonlyargs", []) or fn_.decorator_list:
                raise Untranslatable("argument list of %s" % fn_.name)
        names = [x.arg for x in node.args.args]
        if d["self_ty"]:
            if not names:
                raise Untranslatable("method without self")
            pn = names[1:]
        else:
            pn = names
        if len(pn) != len(d["params"]):
            raise Untranslatable("%s takes %d arguments, %d are declared" % (d["qual"], len(pn), len(d["params"])))
        defaults = set()
        nd = len(node.args.defaults)
        for p, dv in zip(names[len(names) - nd:], node.args.defaults):
            if not (isinstance(dv, ast.Constant) and dv.value is None and p in pn and isopt(d["params"][pn.index(p)])):
                raise Untranslatable("default value of %s" % p)
            defaults.add(p)
        d["pnames"], d["defaults"] = pn, defaults
        fn = Fn(self, d, node)
        env, sig = {}, []
        if d["reads_F"]:
            self.check_functions_global()
            env["FUNCTIONS"] = (FDICT, "FUNCTIONS")
            sig.append("(FUNCTIONS : fdict)")
        if d["closure"]:
            inner_locals = set(names) | set(fn.assigned(node.body))
            outer_locals = {x.arg for x in outer.args.args} | set(fn.assigned([s for s in outer.body if s is not node])) \
                | {s.name for s in outer.body if isinstance(s, ast.FunctionDef)}
            loaded = {n.id for n in ast.walk(node) if isinstance(n, ast.Name) and isinstance(n.ctx, ast.Load)}
            actual = (loaded & outer_locals) - inner_locals
            if actual != {f for f, _ in d["free"]}:
                raise Untranslatable("free variables of %s are %s" % (d["closure"], sorted(actual)))
            for f, fty in d["free"]:
                env[ident(f)] = (fty, f)
                sig.append("(%s : %s)" % (f, coqty(fty)))
        if d["self_ty"] and d["mode"] != "ctor":
            env[ident(names[0])] = (d["self_ty"], names[0])
            sig.append("(%s : %s)" % (names[0], coqty(d["self_ty"])))
        for p, ty in zip(pn, d["params"]):
            if ident(p) in env:
                raise Untranslatable("duplicate name %s" % p)
            env[p] = (ty, p)
            sig.append("(%s : %s)" % (p, coqty(ty)))
        if not d["closure"]:
            for c in FUNS:
                if c["closure"] and c["qual"] == d["qual"] and c["mod"] == d["mod"]:
                    if c["closure"] in env:
                        raise Untranslatable("closure name %s clashes" % c["closure"])
                    env[c["closure"]] = (("closure", c), None)
        if d["mode"] == "ctor":
            body = self.ctor_body(fn, d, node, names[0], env)
        elif d["mode"] == "state":
            body = fn.block(list(node.body), env, lambda e: "FUNCTIONS")
        else:
            body = fn.block(list(node.body), env, None)
        rt = "dres (V W) %s" % coqty(d["ret"]) if d["mode"] == "eff" else coqty(d["ret"])
        head = "(* %s.py:%d  %s%s *)\n" % (d["mod"], node.lineno, d["qual"], ("." + d["closure"]) if d["closure"] else "")
        return head + "\n".join(fn.aux + ["Definition %s (W : world) %s : %s :=\n  %s." % (d["gname"], " ".join(sig), rt, body)])

    def ctor_body(self, fn, d, node, slf, env):
        ty = d["self_ty"]
        fields = {}
        for s in node.body:
            if isinstance(s, ast.Expr) and isinstance(s.value, ast.Constant) and isinstance(s.value.value, str):
                continue
            if isinstance(s, ast.Assign) and len(s.targets) == 1 and isinstance(s.targets[0], ast.Attribute) \
                    and isinstance(s.targets[0].value, ast.Name) and s.targets[0].value.id == slf \
                    and s.targets[0].attr in ATTRS[ty] and s.targets[0].attr not in fields:
                proj, fty = ATTRS[ty][s.targets[0].attr]
                t, vty = fn.pure(s.value, env, fty)
                fields[s.targets[0].attr] = fn.coerce(t, vty, fty)[0]
                continue
            raise Untranslatable("statement in %s at line %d" % (d["qual"], s.lineno))
        if set(fields) != set(ATTRS[ty]):
            raise Untranslatable("%s does not set %s" % (d["qual"], sorted(set(ATTRS[ty]) - set(fields))))
        return "{| %s |}" % "; ".join("%s := %s" % (ATTRS[ty][a][0], fields[a]) for a in ATTRS[ty])

    # -- the (Any, Any) lambdas registered at module level
    def any_lambdas(self):
        m = self.mod("functions")
        rows = []
        for s in m.tree.body:
            if not (isinstance(s, ast.Expr) and isinstance(s.value, ast.Call) and isinstance(s.value.func, ast.Name)
                    and s.value.func.id == "register_function" and s.value.args and isinstance(s.value.args[0], ast.Lambda)):
                continue
            c = s.value
            if len(c.args) != 3 or c.keywords or not (isinstance(c.args[1], ast.Constant) and isinstance(c.args[1].value, str)) \
                    or not isinstance(c.args[2], ast.Tuple):
                continue
            if not all(isinstance(x, ast.Name) and x.id == "Any" for x in c.args[2].elts) or len(c.args[2].elts) != 2:
                continue
            m.need("Any")
            if m.bound_to("register_function") != "def":
                raise Untranslatable("register_function is not the module-level def")
            lam = c.args[0]
            a = lam.args
            if a.vararg or a.kwarg or a.kwonlyargs or a.defaults or a.kw_defaults or getattr(a, "posonlyargs", []) or len(a.args) != 2:
                raise Untranslatable("lambda arguments at line %d" % s.lineno)
            d = dict(mod="functions", qual="<lambda>", params=[V, V], ret=V, mode="eff", reads_F=False, self_ty=None,
                     closure=None, free=[], gname="g_lambda_%d" % (len(rows) + 1))
            fn = Fn(self, d, lam)
            env = {}
            for p in a.args:
                if ident(p.arg) in env:
                    raise Untranslatable("duplicate lambda argument")
                env[p.arg] = (V, p.arg)
            body = fn.block([ast.Return(value=lam.body)], env, None)
            src = "\n".join(m.text.splitlines()[s.lineno - 1:s.end_lineno])
            key = "ka.functions.<lambda>{%s}" % " ".join(src.strip().split())[:160]
            text = "(* functions.py:%d *)\nDefinition %s (W : world) %s : dres (V W) (V W) :=\n  %s." % (
                s.lineno, d["gname"], " ".join("(%s : V W)" % p.arg for p in a.args), body)
            rows.append((c.args[1].value, key, d["gname"], text))
        return rows


def generate(dump):
    u = Unit()
    L = ["(* GENERATED by harness/trans_dispatch.py from src/ka/functions.py and src/ka/types.py (Python AST) -- do not edit",
         MAPPING.rstrip("\n"), "*)", PRELUDE1]
    try:
        al = u.aliases()
        L.append("(* the TypeAlias objects of types.py: name, the class it stands for *)")
        L.append("Definition g_aliases : list (string * string) := [%s]." % "; ".join("(%s, %s)" % (coq_str(a), coq_str(b)) for a, b in al))
    except Untranslatable as x:
        L.append("(* UNTRANSLATABLE g_aliases: %s *)" % esc(x))
    L.append(PRELUDE2)
    for d in FUNS:
        name = d["qual"] + (("." + d["closure"]) if d["closure"] else "")
        try:
            text = u.define(d)
            u.done[d["gname"]] = d
            L += [text, ""]
        except Untranslatable as x:
            L += ["(* UNTRANSLATABLE %s: %s *)" % (name, esc(x)), ""]
    try:
        rows = u.any_lambdas()
        for _, _, _, text in rows:
            L += [text, ""]
        L.append("(* the lambdas registered for (Any, Any) at module level, in source order: name, signature, key *)")
        L.append("Definition g_any_fallback_keys : list (string * list tyobj * string) := [%s]." % ";\n  ".join(
            "(%s, [py_global_type \"Any\"; py_global_type \"Any\"], %s)" % (coq_str(n), coq_str(k)) for n, k, _, _ in rows))
        L.append("Definition g_any_fallback_body (W : world) (key : string) : option (V W -> V W -> dres (V W) (V W)) :=")
        for _, k, g, _ in rows:
            L.append("  if String.eqb key %s then Some (%s W) else" % (coq_str(k), g))
        L.append("  None.")
    except Untranslatable as x:
        L.append("(* UNTRANSLATABLE the (Any, Any) lambdas: %s *)" % esc(x))
    return "\n".join(L) + "\n"


GENERATES = {"GenDispatchSrc.v": generate}

if __name__ == "__main__":
    sys.stdout.write(generate(None))
