"""Translator plugin "parser": ka/parse.py (the recursive-descent parser, the BagOfTokens methods it uses, the node
builders and make_comparison_node) -> coq/Gen/GenParserSrc.v, regenerated on every run from the Python AST of the
tree under check.  coq/GenFacts/ParserSrcFacts.v proves the hand-written model (coq/Model/Parser.v, Model/Syntax.v)
equal to these definitions, function by function.

Fail-closed: a construct outside the subset below raises Untranslatable and the function gets NO definition
(a comment `(* UNTRANSLATABLE name: why *)` instead), nor does any function that calls it, so the facts about them
cannot be proved.  Nothing is repaired or guessed: operand order, which tag, which constant, which branch first, which
callee, where an error is raised and with which token index are what the AST says.

The trusted construct mapping is the text of MAPPING and PRELUDE below (both are copied into the generated file)."""
import ast, os, sys
sys.path.insert(0, os.path.dirname(os.path.abspath(__file__)))
import common as C
from pytrans import Untranslatable

MAPPING = r"""
   TRUSTED CONSTRUCT MAPPING (everything else is checked by GenFacts/ParserSrcFacts.v)
   state       The BagOfTokens object (parameter `t` of a parse function, `self` of a method) is the list of tokens
               not yet read, tokens[ptr:] (Model/Parser.v: "the token pointer is the remaining token list").
               Every function/method that receives it is a Gallina  list tok -> pres (A * list tok)  and every call
               is bound with  dop (x, ts') <- callee args ts; ...  IN SOURCE ORDER (arguments left to right,
               list elements left to right, statements top to bottom).  Inside the class:
                 self.ptr >= len(self.tokens)      is  Nat.leb (length ts) 0
                 self.ptr + e < len(self.tokens)   is  Nat.ltb e (length ts)
                 self.tokens[self.ptr (+ e)]       is  nth_error ts e          (None: see "stuck")
                 self.ptr += k                     is  ts := skipn k ts
                 BagOfTokens(tokens)               is  the state `tokens` (__init__ is checked to set ptr = 0)
   errors      raise ParsingError(msg, IDX)  is  PErr r, r the number of tokens from position IDX to the end:
                 IDX = t.ptr  ->  length ts;   IDX = t.ptr - k  ->  k + length ts   (the model's error value).
               The message (constant or f-string over names/attributes) is dropped (`tt`).
   stuck       Any other Python exception (IndexError of l[i], ValueError of l.index, the Exception of Token.meta
               on a missing key, a non-int where an int is returned) is PFuel, the model's non-outcome.
   while       `while c: body` over the token state is  g_while (1 + length ts) cond body s ts  (fuelled iteration,
               PFuel when the fuel runs out; s = the tuple of the variables the body rebinds); in a function
               without token state `while i < len(l)` runs on fuel 1 + length l (g_whileP).  `break` = Break.
               `for _ in range(N)` is  g_for_range N body s ts  (exactly N iterations unless Break).
   recursion   The call graph must be acyclic once calls of parse_expression are removed (checked).  Inside the
               Section every `parse_expression(t)` is `pe ts`, the Section variable (the model's `pe`); after the
               Section g_parse_expression_fix closes the knot on fuel and parse_tokens uses fuel = number of tokens.
   values      Tokens.X is the tag string of the live ka.tokens.Tokens (build/dump.json, the same table as
               Gen/GenTokens.v); tok.tag is tag_of tok; tok.meta('name') is meta_name (identifier payload),
               t.read(Tokens.NUM).meta('value') is meta_num, ...STRING... meta_str, ...INSTANT... meta_inst
               (partial: stuck on another token).  Python ints are Z, except list indices, len() and range bounds
               (nat).  `sign * v` for a number literal v is scale_lit; isinstance(i, int) is is_int_lit.
               l.append(e) rebinds l to l ++ [e]; l[i] = e rebinds l to list_set l i e; l.reverse() rebinds l to
               rev l (a list parameter mutated by make_comparison_node is never read again by its only caller: the
               call must be the operand of a `return`, checked); x in l is mem_str; "s".join(l) is String.concat;
               all/any over a generator are g_all/g_any (left to right, stop at the first False/True);
               enumerate(l) is combine (seq 0 (length l)) l; list(map(lambda x: x.tag, l)) is map tag_of l;
               truth of a list is nonempty; `a and b` evaluates b only if a is true.
   nodes       ParseNode(...) by eval_mode, the keyword shapes checked exactly:
                 FUNCALL (label = value = n, children = c)            PCall n c []
                 FUNCALL with children = positional + keyword lists   PCall n pos kw      (g_funcall_args)
                 KEYWORD_ARG (label = k, children = [e])              the pair (k, e)
                 STATEMENTS (children = c)                            PStmts c
                 ASSIGNMENT (label = value = x, children = [e])       PAssign x e
                 VARIABLE (label = value = x)                         PVar x
                 QUANTITY (label = str(u), value = u, children=[e])   PQty e u
                 CONVERT_UNIT (label = Tokens.UNIT_CONVERT+" "+str(u), value = u, children = [e])   PConv e u
                 ARRAY (label = value = "{...}", children = c)        PArr c
                 leaf (label = quote + s + quote, value = s)          PStr s
                 leaf (label = x, value = instant_from_iso(x))        PInst x
                 leaf (label = str(v), value = simplify_number(v))    PNum v
               make_array_with_condition_node(b, cl) is the model's mk_compr b cl; make_generator_node(x, e) is the
               clause (Some x, e); an expression returned as a clause is (None, e); UnitSignature(u, i) is (u, i).
   Declared types of parameters and results are the table DECL in harness/trans_parser.py (a wrong declaration makes
   the generated file ill-typed, so it fails to compile).
"""

PRELUDE = r"""
From Coq Require Import List String ZArith Bool Arith.
From Ka Require Import Model.Syntax Model.Parser.
Import ListNotations.
Local Open Scope string_scope.
Local Open Scope list_scope.

(* ---- fixed combinators the constructs are mapped to (trusted, see the mapping above) ---- *)
Inductive ctl (S : Type) := Next (s : S) | Break (s : S).
Arguments Next {S} s.
Arguments Break {S} s.

Fixpoint g_while {S : Type} (fuel : nat) (cond : S -> parser bool) (body : S -> parser (ctl S)) (s : S)
  : parser S := fun ts =>
  match fuel with
  | O => PFuel
  | S f =>
      dop (b, ts1) <- cond s ts;
      if b then
        dop (c, ts2) <- body s ts1;
        match c with Next s' => g_while f cond body s' ts2 | Break s' => POk (s', ts2) end
      else POk (s, ts1)
  end.

Fixpoint g_for_range {S : Type} (n : nat) (body : S -> parser (ctl S)) (s : S) : parser S := fun ts =>
  match n with
  | O => POk (s, ts)
  | S n' =>
      dop (c, ts1) <- body s ts;
      match c with Next s' => g_for_range n' body s' ts1 | Break s' => POk (s', ts1) end
  end.

Fixpoint g_whileP {S : Type} (fuel : nat) (cond : S -> pres bool) (body : S -> pres (ctl S)) (s : S) : pres S :=
  match fuel with
  | O => PFuel
  | S f =>
      dop b <- cond s;
      if b then
        dop c <- body s;
        match c with Next s' => g_whileP f cond body s' | Break s' => POk s' end
      else POk s
  end.

Fixpoint g_all {X : Type} (f : X -> parser bool) (l : list X) : parser bool := fun ts =>
  match l with
  | [] => POk (true, ts)
  | x :: r => dop (b, ts1) <- f x ts; if b then g_all f r ts1 else POk (false, ts1)
  end.
Fixpoint g_any {X : Type} (f : X -> parser bool) (l : list X) : parser bool := fun ts =>
  match l with
  | [] => POk (false, ts)
  | x :: r => dop (b, ts1) <- f x ts; if b then POk (true, ts1) else g_any f r ts1
  end.
Fixpoint g_allP {X : Type} (f : X -> pres bool) (l : list X) : pres bool :=
  match l with
  | [] => POk true
  | x :: r => dop b <- f x; if b then g_allP f r else POk false
  end.
Fixpoint g_anyP {X : Type} (f : X -> pres bool) (l : list X) : pres bool :=
  match l with
  | [] => POk false
  | x :: r => dop b <- f x; if b then POk true else g_anyP f r
  end.
Definition g_lift {A : Type} (r : pres A) : parser A := fun ts => dop x <- r; POk (x, ts).

Definition nonempty {A : Type} (l : list A) : bool := match l with [] => false | _ => true end.
Definition mem_str (x : string) (l : list string) : bool := existsb (fun y => String.eqb y x) l.
Fixpoint index_of (x : string) (l : list string) : option nat :=
  match l with
  | [] => None
  | y :: r => if String.eqb y x then Some O else option_map S (index_of x r)
  end.
Fixpoint list_set {A : Type} (l : list A) (i : nat) (v : A) : option (list A) :=
  match l, i with
  | [], _ => None
  | _ :: r, O => Some (v :: r)
  | y :: r, S i' => option_map (cons y) (list_set r i' v)
  end.

Definition meta_name (t : tok) : option string := match t with KVar x => Some x | _ => None end.
Definition meta_num (t : tok) : option numlit := match t with KNum n => Some n | _ => None end.
Definition meta_str (t : tok) : option string := match t with KStr s => Some s | _ => None end.
Definition meta_inst (t : tok) : option string := match t with KInst s => Some s | _ => None end.
Definition scale_lit (s : Z) (n : numlit) : numlit := match n with ZLit z => ZLit (s * z)%Z | XLit l => XLit l end.
Definition is_int_lit (n : numlit) : bool := match n with ZLit _ => true | XLit _ => false end.
Definition lit_int (n : numlit) : option Z := match n with ZLit z => Some z | XLit _ => None end.

Definition kwarg := (string * ptree)%type.
Definition gargs := (list ptree * list kwarg)%type.
Definition clause := (option string * ptree)%type.
Definition g_funcall_args (name : string) (a : gargs) : ptree := PCall name (fst a) (snd a).
Definition g_make_array_with_condition_node (body : ptree) (cl : list clause) : ptree := mk_compr body cl.
Definition g_make_generator_node (x : string) (e : ptree) : clause := (Some x, e).
Definition g_UnitSignature (u i : units) : usig := (u, i).
"""

# ------------------------------------------------------------------------------------------------ declarations
# types: tree, str, Z, nat, bool, tok, numlit, msg, usig, kw, args, clause, "list T", "(A*B)", "parser T"
UNITS = "list (str*Z)"
COQ_TY = {"tree": "ptree", "str": "string", "Z": "Z", "nat": "nat", "bool": "bool", "tok": "tok", "numlit": "numlit",
          "msg": "unit", "usig": "usig", "kw": "kwarg", "args": "gargs", "clause": "clause", "(str*Z)": "(string * Z)"}


def coq_ty(t):
    if t.startswith("list "):
        return "(list %s)" % coq_ty(t[5:])
    if t.startswith("parser "):
        return "(parser %s)" % coq_ty(t[7:])
    if t not in COQ_TY:
        raise Untranslatable("type %s" % t)
    return COQ_TY[t]


# mode: "pure" (plain definition), "res" (pres A, no token state), "state" (first parameter is the token state)
DECL = {
    # node builders translated from their own one-line bodies
    "funcall_node": dict(mode="pure", params=[("name", "str"), ("children", "list tree")], ret="tree"),
    "quantity_node": dict(mode="pure", params=[("term", "tree"), ("unit_sig", "usig")], ret="tree"),
    "unit_convert_node": dict(mode="pure", params=[("sum_node", "tree"), ("unit_sig", "usig")], ret="tree"),
    "make_array_node": dict(mode="pure", params=[("elements", "list tree")], ret="tree"),
    "make_comparison_node": dict(mode="res", params=[("terms", "list tree"), ("ops", "list str")], ret="tree"),
    # BagOfTokens
    "BagOfTokens.check_type": dict(mode="state", params=[("i", "nat"), ("t", "str")], ret="bool"),
    "BagOfTokens.next_are": dict(mode="state", params=[("*tags", "list str")], ret="bool"),
    "BagOfTokens.next_is": dict(mode="state", params=[("tag", "str")], ret="bool"),
    "BagOfTokens.next_is_one_of": dict(mode="state", params=[("*tags", "list str")], ret="bool"),
    "BagOfTokens.empty": dict(mode="state", params=[], ret="bool"),
    "BagOfTokens._read_single_token": dict(mode="state", params=[("msg", "msg")], ret="tok"),
    "BagOfTokens.read": dict(mode="state", params=[("tag", "str")], ret="tok"),
    "BagOfTokens.read_any": dict(mode="state", params=[], ret="tok"),
    # the parser
    "parse_integer": dict(mode="state", params=[], ret="Z"),
    "parse_units": dict(mode="state", params=[], ret=UNITS),
    "parse_unit_signature": dict(mode="state", params=[], ret="usig"),
    "parse_variable": dict(mode="state", params=[], ret="tree"),
    "parse_number": dict(mode="state", params=[], ret="tree"),
    "parse_string": dict(mode="state", params=[], ret="tree"),
    "parse_instant": dict(mode="state", params=[], ret="tree"),
    "parse_positional_args": dict(mode="state", params=[], ret="list tree"),
    "parse_keyword_args": dict(mode="state", params=[], ret="list kw"),
    "parse_args": dict(mode="state", params=[], ret="args"),
    "parse_function": dict(mode="state", params=[], ret="tree"),
    "parse_unsigned_term_without_factorial": dict(mode="state", params=[], ret="tree"),
    "parse_unsigned_term": dict(mode="state", params=[], ret="tree"),
    "parse_unitless_term": dict(mode="state", params=[], ret="tree"),
    "parse_maybe_quantity": dict(mode="state", params=[], ret="tree"),
    "parse_maybe_range": dict(mode="state", params=[], ret="tree"),
    "parse_clause": dict(mode="state", params=[], ret="clause"),
    "parse_array": dict(mode="state", params=[], ret="tree"),
    "parse_interval": dict(mode="state", params=[], ret="tree"),
    "parse_term": dict(mode="state", params=[], ret="tree"),
    "parse_binary_op": dict(mode="state", params=[("parse_operand", "parser tree"), ("operator_tokens", "list str")],
                            ret="tree"),
    "parse_factor": dict(mode="state", params=[], ret="tree"),
    "parse_product": dict(mode="state", params=[], ret="tree"),
    "parse_sum": dict(mode="state", params=[], ret="tree"),
    "parse_comparison": dict(mode="state", params=[], ret="tree"),
    "parse_unit_convert": dict(mode="state", params=[("sum_node", "tree")], ret="tree"),
    "parse_expression": dict(mode="state", params=[], ret="tree"),
    "parse_assignment": dict(mode="state", params=[], ret="tree"),
    "parse_statement": dict(mode="state", params=[], ret="tree"),
    "parse_statements": dict(mode="state", params=[], ret="tree"),
}
CONSTANTS = ["FORWARD_OPS", "BACKWARD_OPS"]          # module-level lists of tags
KNOT = "parse_expression"                            # the function the recursion passes through
# declared types of locals that start from an int literal or an empty list
LOCALS = {
    ("make_comparison_node", "i"): "nat",
    ("parse_integer", "sign"): "Z",
    ("parse_units", "exponent"): "Z",
    ("parse_units", "units"): UNITS,
    ("parse_unit_signature", "inverted_units"): UNITS,
    ("parse_positional_args", "args"): "list tree",
    ("parse_keyword_args", "kw_args"): "list kw",
    ("parse_array", "xs"): "list tree",
    ("parse_statements", "statements"): "list tree",
    ("parse_comparison", "comparison_ops"): "list tok",
}
META = {"NUM": ("meta_num", "numlit"), "STRING": ("meta_str", "str"), "INSTANT": ("meta_inst", "str")}
TRUSTED_BUILDERS = {
    "make_array_with_condition_node": ("g_make_array_with_condition_node", ["tree", "list clause"], "tree"),
    "make_generator_node": ("g_make_generator_node", ["str", "tree"], "clause"),
    "UnitSignature": ("g_UnitSignature", [UNITS, UNITS], "usig"),
}


def coq_str(s):
    return '"' + s.replace('"', '""') + '"%string'


def short(name):
    return name.split(".")[-1]


def gname(name):
    return "g_" + short(name).lstrip("_")


def is_name(e, n=None):
    return isinstance(e, ast.Name) and (n is None or e.id == n)


def dump_short(e):
    return ast.dump(e)[:90]


class Env:
    """Translation context of one point of a function body (copied on every change: branches are independent)."""
    def __init__(self, fn, mode, sparam, state, vars_, prov=None, consts=None, loop=None):
        self.fn, self.mode, self.sparam, self.state = fn, mode, sparam, state
        self.vars = dict(vars_)         # python local -> type (insertion order = definition order)
        self.prov = dict(prov or {})    # tok-typed local -> Tokens name it was read with
        self.consts = dict(consts or {})  # local -> string constant it was bound to
        self.loop = loop                # None, or the list of loop-carried variables of the innermost loop

    def copy(self, **kw):
        e = Env(self.fn, self.mode, self.sparam, self.state, self.vars, self.prov, self.consts, self.loop)
        for k, v in kw.items():
            setattr(e, k, v)
        return e

    def bind(self, name, ty, prov=None, const=None):
        e = self.copy()
        e.vars[name] = ty
        e.prov.pop(name, None)
        e.consts.pop(name, None)
        if prov:
            e.prov[name] = prov
        if const is not None:
            e.consts[name] = const
        return e


class FnTr:
    """Translator of one function."""
    def __init__(self, owner, qual, fn):
        self.owner, self.qual, self.fn = owner, qual, fn
        self.decl = DECL[qual]
        self.n = 0

    def fresh(self, base):
        self.n += 1
        return "%s%d" % (base, self.n)

    # ------------------------------------------------------------------ results
    def ret(self, env, term):
        if env.mode == "pure":
            return term
        if env.mode == "res":
            return "POk %s" % term
        return "POk (%s, %s)" % (term, env.state)

    def stuck(self, env):
        if env.mode == "pure":
            raise Untranslatable("partial operation in a pure function")
        return "PFuel"

    def partial(self, opt_term, ty, env, k, hint=None):
        if env.mode == "pure":
            raise Untranslatable("partial operation in a pure function")
        x = hint or self.fresh("x")
        return "match %s with\n| Some %s =>\n%s\n| None => PFuel\nend" % (opt_term, x, k(x, ty, env))

    def bindcall(self, callee, callee_mode, rty, env, k, hint=None):
        """dop (x, ts') <- callee ts; k x"""
        if env.mode == "pure":
            raise Untranslatable("call of a function that may raise, in a pure function")
        x = hint or self.fresh("x")
        if env.mode == "res":
            if callee_mode != "res":
                raise Untranslatable("token-state call in a function without token state")
            return "dop %s <- %s;\n%s" % (x, callee, k(x, rty, env))
        ts2 = self.fresh("ts")
        if callee_mode == "res":
            callee = "g_lift (%s)" % callee
        return "dop (%s, %s) <- %s %s;\n%s" % (x, ts2, callee, env.state, k(x, rty, env.copy(state=ts2)))

    # ------------------------------------------------------------------ expressions (CPS, source order)
    def args(self, exprs, wants, env, k):
        """evaluate exprs left to right; k(list of (term, type), env)"""
        def go(i, acc, env):
            if i == len(exprs):
                return k(acc, env)
            return self.E(exprs[i], env, lambda v, ty, env2: go(i + 1, acc + [(v, ty)], env2), want=wants[i])
        return go(0, [], env)

    def truth(self, v, ty):
        if ty == "bool":
            return v
        if ty.startswith("list "):
            return "(nonempty %s)" % v
        raise Untranslatable("truth value of a %s" % ty)

    def expect(self, ty, want, what):
        if want is not None and ty != want:
            raise Untranslatable("%s has type %s, expected %s" % (what, ty, want))

    def tagconst(self, e):
        """Tokens.X -> (name, coq string) or None"""
        if isinstance(e, ast.Attribute) and is_name(e.value, "Tokens"):
            tags = self.owner.tags
            if e.attr not in tags:
                raise Untranslatable("Tokens.%s is not in the live table" % e.attr)
            return e.attr, "%s (* Tokens.%s *)" % (coq_str(tags[e.attr]), e.attr)
        return None

    def is_state(self, e, env):
        return env.mode == "state" and is_name(e, env.sparam)

    def state_ptr_plus(self, e, env):
        """self.ptr -> '0', self.ptr + E -> E (nat term; E a name or int literal); else None"""
        def isptr(x):
            return isinstance(x, ast.Attribute) and x.attr == "ptr" and self.is_state(x.value, env)
        if isptr(e):
            return "0%nat"
        if isinstance(e, ast.BinOp) and isinstance(e.op, ast.Add) and isptr(e.left):
            r = e.right
            if isinstance(r, ast.Constant) and isinstance(r.value, int) and not isinstance(r.value, bool) and r.value >= 0:
                return "%d%%nat" % r.value
            if is_name(r) and env.vars.get(r.id) == "nat":
                return "v_" + r.id
        return None

    def is_len_tokens(self, e, env):
        return (isinstance(e, ast.Call) and is_name(e.func, "len") and len(e.args) == 1 and not e.keywords
                and isinstance(e.args[0], ast.Attribute) and e.args[0].attr == "tokens"
                and self.is_state(e.args[0].value, env))

    def E(self, e, env, k, want=None, hint=None):
        # ---- literals
        if isinstance(e, ast.Constant):
            v = e.value
            if isinstance(v, bool) or v is None:
                raise Untranslatable("constant %r" % (v,))
            if isinstance(v, int):
                if want == "nat" and v >= 0:
                    return k("%d%%nat" % v, "nat", env)
                if want == "Z":
                    return k("(%d)%%Z" % v, "Z", env)
                raise Untranslatable("int literal %d of undeclared type" % v)
            if isinstance(v, str):
                if want == "msg":
                    return k("tt", "msg", env)
                return k(coq_str(v), "str", env)
            raise Untranslatable("constant %r" % (v,))
        if isinstance(e, ast.JoinedStr):
            if want != "msg":
                raise Untranslatable("f-string outside an error message")
            for part in e.values:
                if isinstance(part, ast.FormattedValue):
                    self.pure_msg_part(part.value, env)
            return k("tt", "msg", env)
        if isinstance(e, ast.UnaryOp) and isinstance(e.op, ast.USub) and isinstance(e.operand, ast.Constant) \
                and isinstance(e.operand.value, int) and not isinstance(e.operand.value, bool) and want == "Z":
            return k("(-%d)%%Z" % e.operand.value, "Z", env)
        # ---- names
        if isinstance(e, ast.Name):
            if e.id in env.vars:
                return k("v_" + e.id, env.vars[e.id], env)
            if e.id in CONSTANTS and e.id in self.owner.done:
                return k("g_" + e.id, "list str", env)
            if e.id in DECL and DECL[e.id]["mode"] == "state" and not DECL[e.id]["params"] \
                    and (e.id in self.owner.done or self.owner.fnref(e.id, self.qual) == "pe"):
                return k(self.owner.fnref(e.id, self.qual), "parser " + DECL[e.id]["ret"], env)
            raise Untranslatable("name %s" % e.id)
        if isinstance(e, ast.Attribute):
            tc = self.tagconst(e)
            if tc:
                return k(tc[1], "str", env)
            if e.attr == "tag":
                def kk(v, ty, env2):
                    self.expect(ty, "tok", ".tag of")
                    return k("(tag_of %s)" % v, "str", env2)
                return self.E(e.value, env, kk)
            raise Untranslatable("attribute %s" % e.attr)
        # ---- containers
        if isinstance(e, ast.List) or (isinstance(e, ast.Tuple) and want is not None and want.startswith("list ")):
            ety = want[5:] if (want or "").startswith("list ") else None
            def kl(vs, env2):
                tys = set(t for _, t in vs)
                if len(tys) > 1:
                    raise Untranslatable("list of mixed types %r" % sorted(tys))
                t = tys.pop() if tys else ety
                if t is None:
                    raise Untranslatable("empty list of undeclared type")
                return k("[" + "; ".join(v for v, _ in vs) + "]", "list " + t, env2)
            return self.args(e.elts, [ety] * len(e.elts), env, kl)
        if isinstance(e, ast.Tuple) and len(e.elts) == 2:
            def kt(vs, env2):
                return k("(%s, %s)" % (vs[0][0], vs[1][0]), "(%s*%s)" % (vs[0][1], vs[1][1]), env2)
            return self.args(e.elts, [None, None], env, kt)
        if isinstance(e, ast.Subscript):
            return self.subscript(e, env, k, hint)
        # ---- operators
        if isinstance(e, ast.BinOp):
            return self.binop(e, env, k)
        if isinstance(e, ast.UnaryOp) and isinstance(e.op, ast.Not):
            return self.E(e.operand, env, lambda v, ty, env2: k("(negb %s)" % self.truth(v, ty), "bool", env2))
        if isinstance(e, ast.BoolOp):
            return self.boolop(e, env, k)
        if isinstance(e, ast.Compare):
            return self.compare(e, env, k)
        if isinstance(e, ast.Call):
            return self.call(e, env, k, want, hint)
        raise Untranslatable("expression " + dump_short(e))

    def pure_msg_part(self, e, env):
        """the expressions inside an f-string message are dropped; they must not have effects"""
        if isinstance(e, ast.Name):
            return
        if isinstance(e, ast.Attribute) and isinstance(e.value, ast.Name):
            return
        if isinstance(e, ast.Call) and is_name(e.func, "type") and len(e.args) == 1 and is_name(e.args[0]):
            return
        raise Untranslatable("f-string part " + dump_short(e))

    def subscript(self, e, env, k, hint):
        # self.tokens[self.ptr + E]
        if isinstance(e.value, ast.Attribute) and e.value.attr == "tokens" and self.is_state(e.value.value, env):
            off = self.state_ptr_plus(e.slice, env)
            if off is None:
                raise Untranslatable("index into self.tokens " + dump_short(e.slice))
            return self.partial("nth_error %s %s" % (env.state, off), "tok", env, k, hint)
        def kv(v, ty, env2):
            if not ty.startswith("list "):
                raise Untranslatable("subscript of a %s" % ty)
            return self.E(e.slice, env2,
                          lambda i, ity, env3: self.partial("nth_error %s %s" % (v, i), ty[5:], env3, k, hint),
                          want="nat")
        return self.E(e.value, env, kv)

    def binop(self, e, env, k):
        def kb(vs, env2):
            (a, ta), (b, tb) = vs
            if isinstance(e.op, ast.Add):
                if ta == "list tree" and tb == "list kw":
                    return k("(%s, %s)" % (a, b), "args", env2)
                if ta == tb and ta.startswith("list "):
                    return k("(%s ++ %s)" % (a, b), ta, env2)
                if ta == tb == "str":
                    return k("(%s ++ %s)%%string" % (a, b), "str", env2)
                if ta == tb == "nat":
                    return k("(%s + %s)%%nat" % (a, b), "nat", env2)
            if isinstance(e.op, ast.Mult) and ta == "Z" and tb == "numlit":
                return k("(scale_lit %s %s)" % (a, b), "numlit", env2)
            raise Untranslatable("operator %s on %s, %s" % (type(e.op).__name__, ta, tb))
        wants = [None, None]
        if isinstance(e.op, ast.Add):
            for i, x in enumerate((e.left, e.right)):
                if isinstance(x, ast.Constant) and isinstance(x.value, int):
                    wants[i] = "nat"
        return self.args([e.left, e.right], wants, env, kb)

    def boolop(self, e, env, k):
        """a and b / a or b: materialised as one sub-computation returning a bool, b evaluated only if needed"""
        isand = isinstance(e.op, ast.And)
        def go(i, env1):
            def kv(v, ty, env2):
                tv = self.truth(v, ty)
                if ty != "bool":
                    raise Untranslatable("and/or on non-booleans")
                if i == len(e.values) - 1:
                    return self.ret(env2, tv)
                if isand:
                    return "if %s then\n%s\nelse %s" % (tv, go(i + 1, env2), self.ret(env2, "false"))
                return "if %s then %s else\n%s" % (tv, self.ret(env2, "true"), go(i + 1, env2))
            return self.E(e.values[i], env1, kv)
        inner = go(0, env)
        if env.mode == "pure":
            return k("(%s)" % inner, "bool", env)
        b = self.fresh("b")
        if env.mode == "res":
            return "dop %s <- (%s);\n%s" % (b, inner, k(b, "bool", env))
        ts2 = self.fresh("ts")
        return "dop (%s, %s) <- (%s);\n%s" % (b, ts2, inner, k(b, "bool", env.copy(state=ts2)))

    def compare(self, e, env, k):
        if len(e.ops) != 1:
            raise Untranslatable("chained comparison")
        op, l, r = e.ops[0], e.left, e.comparators[0]
        # comparisons of the pointer with the number of tokens
        off = self.state_ptr_plus(l, env)
        if off is not None and self.is_len_tokens(r, env):
            if isinstance(op, ast.GtE) and off == "0%nat":
                return k("(Nat.leb (List.length %s) 0)" % env.state, "bool", env)
            if isinstance(op, ast.Lt):
                return k("(Nat.ltb %s (List.length %s))" % (off, env.state), "bool", env)
            raise Untranslatable("pointer comparison " + type(op).__name__)
        def kc(vs, env2):
            (a, ta), (b, tb) = vs
            if isinstance(op, (ast.Eq, ast.NotEq)) and ta == tb == "str":
                t = "(String.eqb %s %s)" % (a, b)
                return k(t if isinstance(op, ast.Eq) else "(negb %s)" % t, "bool", env2)
            if isinstance(op, ast.In) and ta == "str" and tb == "list str":
                return k("(mem_str %s %s)" % (a, b), "bool", env2)
            if isinstance(op, ast.Lt) and ta == tb == "nat":
                return k("(Nat.ltb %s %s)" % (a, b), "bool", env2)
            raise Untranslatable("comparison %s on %s, %s" % (type(op).__name__, ta, tb))
        return self.args([l, r], [None, None], env, kc)

    # ------------------------------------------------------------------ calls
    def callargs(self, call, decl, env, k):
        """arguments of a call of a declared function (after the state argument) -> list of terms"""
        params = decl["params"]
        if call.keywords:
            raise Untranslatable("keyword arguments in a call")
        a = list(call.args)
        if params and params[-1][0].startswith("*"):
            fixed, var = params[:-1], params[-1]
            if len(a) < len(fixed):
                raise Untranslatable("too few arguments")
            head, tail = a[:len(fixed)], a[len(fixed):]
            if len(tail) == 1 and isinstance(tail[0], ast.Starred):
                def kh(vs, env2):
                    def kt(v, ty, env3):
                        self.expect(ty, var[1], "starred argument")
                        return k([x for x, _ in vs] + [v], env3)
                    return self.E(tail[0].value, env2, kt)
                return self.args(head, [p[1] for p in fixed], env, kh)
            if any(isinstance(x, ast.Starred) for x in tail):
                raise Untranslatable("mixed starred arguments")
            ety = var[1][5:]
            def kh2(vs, env2):
                for (v, ty), p in zip(vs[:len(fixed)], fixed):
                    self.expect(ty, p[1], "argument %s" % p[0])
                for v, ty in vs[len(fixed):]:
                    self.expect(ty, ety, "variadic argument")
                return k([x for x, _ in vs[:len(fixed)]] + ["[" + "; ".join(x for x, _ in vs[len(fixed):]) + "]"], env2)
            return self.args(a, [p[1] for p in fixed] + [ety] * len(tail), env, kh2)
        if len(a) != len(params) or any(isinstance(x, ast.Starred) for x in a):
            raise Untranslatable("argument count")
        def kp(vs, env2):
            for (v, ty), p in zip(vs, params):
                self.expect(ty, p[1], "argument %s" % p[0])
            return k([x for x, _ in vs], env2)
        return self.args(a, [p[1] for p in params], env, kp)

    def call(self, e, env, k, want, hint):
        f = e.func
        # ---- method of the token state: t.read(..), self.check_type(..)
        if isinstance(f, ast.Attribute) and self.is_state(f.value, env):
            qual = "BagOfTokens." + f.attr
            if qual not in DECL or qual not in self.owner.done:
                raise Untranslatable("method %s (not translated)" % f.attr)
            d = DECL[qual]
            prov = None
            if f.attr == "read" and len(e.args) == 1:
                tc = self.tagconst(e.args[0])
                prov = tc[0] if tc else None
            def km(vs, env2):
                callee = " ".join([gname(qual)] + vs)
                def kk(v, ty, env3):
                    if prov:
                        self.lastprov = (v, prov)
                    return k(v, ty, env3)
                return self.bindcall(callee, "state", d["ret"], env2, kk, hint)
            return self.callargs(e, d, env, km)
        # ---- tok.meta('key')
        if isinstance(f, ast.Attribute) and f.attr == "meta":
            if len(e.args) != 1 or e.keywords or not isinstance(e.args[0], ast.Constant):
                raise Untranslatable("meta call")
            key = e.args[0].value
            self.lastprov = None
            def kt(v, ty, env2):
                self.expect(ty, "tok", ".meta of")
                prov = None
                if self.lastprov and self.lastprov[0] == v:
                    prov = self.lastprov[1]
                elif v.startswith("v_") and v[2:] in env2.prov:
                    prov = env2.prov[v[2:]]
                if key == "name":
                    fn_, rty = "meta_name", "str"
                elif key == "value" and prov in META:
                    fn_, rty = META[prov]
                else:
                    raise Untranslatable("meta(%r) of a token of unknown kind" % (key,))
                return self.partial("%s %s" % (fn_, v), rty, env2, k, hint)
            return self.E(f.value, env, kt)
        # ---- l.index(x)
        if isinstance(f, ast.Attribute) and f.attr == "index" and len(e.args) == 1 and not e.keywords:
            def ki(vs, env2):
                (l, tl), (x, tx) = vs
                if tl != "list str" or tx != "str":
                    raise Untranslatable(".index on %s" % tl)
                return self.partial("index_of %s %s" % (x, l), "nat", env2, k, hint)
            return self.args([f.value, e.args[0]], [None, None], env, ki)
        # ---- "sep".join(l)
        if isinstance(f, ast.Attribute) and f.attr == "join" and len(e.args) == 1 and not e.keywords:
            def kj(vs, env2):
                (s, ts_), (l, tl) = vs
                if ts_ != "str" or tl != "list str":
                    raise Untranslatable(".join on %s" % tl)
                return k("(String.concat %s %s)" % (s, l), "str", env2)
            return self.args([f.value, e.args[0]], [None, None], env, kj)
        if not isinstance(f, ast.Name):
            raise Untranslatable("call " + dump_short(f))
        name = f.id
        # ---- a local holding a parse function
        if name in env.vars and env.vars[name].startswith("parser "):
            if len(e.args) != 1 or not self.is_state(e.args[0], env) or e.keywords:
                raise Untranslatable("call of %s" % name)
            return self.bindcall("v_" + name, "state", env.vars[name][7:], env, k, hint)
        # ---- declared functions
        if name in DECL:
            d = DECL[name]
            if self.owner.fnref(name, self.qual) != "pe":
                if name not in self.owner.done:
                    raise Untranslatable("callee %s is not translated" % name)
            if d["mode"] == "state":
                if not e.args or not self.is_state(e.args[0], env):
                    raise Untranslatable("%s not called on the token state" % name)
                sub = ast.Call(func=f, args=e.args[1:], keywords=e.keywords)
                return self.callargs(sub, d, env, lambda vs, env2: self.bindcall(
                    " ".join([self.owner.fnref(name, self.qual)] + vs), "state", d["ret"], env2, k, hint))
            if d["mode"] == "res":
                if not self.in_return:
                    raise Untranslatable("%s (mutates its list arguments) called outside a return" % name)
                return self.callargs(e, d, env, lambda vs, env2: self.bindcall(
                    " ".join([gname(name)] + vs), "res", d["ret"], env2, k, hint))
            if name == "funcall_node" and len(e.args) == 2 and not e.keywords:
                # children given as the positional + keyword lists of parse_args
                def kf(vs, env2):
                    (n, tn), (c, tc) = vs
                    self.expect(tn, "str", "funcall_node name")
                    if tc == "args":
                        return k("(g_funcall_args %s %s)" % (n, c), "tree", env2)
                    self.expect(tc, "list tree", "funcall_node children")
                    return k("(g_funcall_node %s %s)" % (n, c), "tree", env2)
                a1 = e.args[1]
                isargs = isinstance(a1, ast.Call) and is_name(a1.func) and DECL.get(a1.func.id, {}).get("ret") == "args"
                return self.args(e.args, ["str", None if isargs else "list tree"], env, kf)
            return self.callargs(e, d, env, lambda vs, env2: k("(%s)" % " ".join([gname(name)] + vs), d["ret"], env2))
        if name in TRUSTED_BUILDERS:
            g, ptys, rty = TRUSTED_BUILDERS[name]
            fake = dict(params=[("a%d" % i, t) for i, t in enumerate(ptys)])
            return self.callargs(e, fake, env, lambda vs, env2: k("(%s)" % " ".join([g] + vs), rty, env2))
        if name == "ParseNode":
            return self.parsenode(e, env, k)
        if name == "len" and len(e.args) == 1 and not e.keywords:
            def kl(v, ty, env2):
                if not ty.startswith("list "):
                    raise Untranslatable("len of %s" % ty)
                return k("(List.length %s)" % v, "nat", env2)
            return self.E(e.args[0], env, kl)
        if name == "isinstance" and len(e.args) == 2 and is_name(e.args[1], "int"):
            def kn(v, ty, env2):
                self.expect(ty, "numlit", "isinstance(.., int) of")
                return k("(is_int_lit %s)" % v, "bool", env2)
            return self.E(e.args[0], env, kn)
        if name == "list" and len(e.args) == 1 and isinstance(e.args[0], ast.Call) and is_name(e.args[0].func, "map"):
            m = e.args[0]
            if len(m.args) == 2 and isinstance(m.args[0], ast.Lambda):
                lam = m.args[0]
                if len(lam.args.args) == 1 and isinstance(lam.body, ast.Attribute) and lam.body.attr == "tag" \
                        and is_name(lam.body.value, lam.args.args[0].arg):
                    def kmap(v, ty, env2):
                        self.expect(ty, "list tok", "map .tag over")
                        return k("(map tag_of %s)" % v, "list str", env2)
                    return self.E(m.args[1], env, kmap)
            raise Untranslatable("list(map(..)) " + dump_short(m))
        if name in ("any", "all") and len(e.args) == 1 and isinstance(e.args[0], ast.GeneratorExp):
            return self.anyall(name, e.args[0], env, k)
        # funcall_node(name, parse_args(t)): children given as positional + keyword lists
        raise Untranslatable("call of %s" % name)

    def anyall(self, which, g, env, k):
        if len(g.generators) != 1 or g.generators[0].ifs or g.generators[0].is_async:
            raise Untranslatable("generator expression")
        gen = g.generators[0]
        it = gen.iter
        # the iterated list (pure: a local, or enumerate(local))
        if isinstance(it, ast.Call) and is_name(it.func, "enumerate") and len(it.args) == 1 and is_name(it.args[0]) \
                and it.args[0].id in env.vars and env.vars[it.args[0].id].startswith("list "):
            l = "v_" + it.args[0].id
            ety = env.vars[it.args[0].id][5:]
            if not (isinstance(gen.target, ast.Tuple) and len(gen.target.elts) == 2 and all(is_name(x) for x in gen.target.elts)):
                raise Untranslatable("enumerate target")
            a, b = gen.target.elts[0].id, gen.target.elts[1].id
            lst = "(combine (seq 0 (List.length %s)) %s)" % (l, l)
            pat = "'(v_%s, v_%s)" % (a, b)
            inner_env = env.bind(a, "nat").bind(b, ety)
        elif is_name(it) and it.id in env.vars and env.vars[it.id].startswith("list "):
            if not is_name(gen.target):
                raise Untranslatable("generator target")
            lst, pat = "v_" + it.id, "v_" + gen.target.id
            inner_env = env.bind(gen.target.id, env.vars[it.id][5:])
        else:
            raise Untranslatable("generator over " + dump_short(it))
        if env.mode == "pure":
            raise Untranslatable("any/all in a pure function")
        comb = {"any": "g_any", "all": "g_all"}[which] + ("P" if env.mode == "res" else "")
        if env.mode == "state":
            st = self.fresh("ts")
            inner_env = inner_env.copy(state=st)
            body = self.E(g.elt, inner_env, lambda v, ty, env2: self.ret(env2, self.truth(v, ty)))
            fun = "(fun %s %s =>\n%s)" % (pat, st, body)
        else:
            body = self.E(g.elt, inner_env, lambda v, ty, env2: self.ret(env2, self.truth(v, ty)))
            fun = "(fun %s =>\n%s)" % (pat, body)
        return self.bindcall("%s %s %s" % (comb, fun, lst), env.mode, "bool", env, k)

    # ------------------------------------------------------------------ ParseNode(...)
    def parsenode(self, e, env, k):
        if e.args:
            raise Untranslatable("ParseNode with positional arguments")
        kw = {x.arg: x.value for x in e.keywords}
        if len(kw) != len(e.keywords) or None in kw:
            raise Untranslatable("ParseNode keywords")
        keys = set(kw)
        mode = None
        if "eval_mode" in kw:
            m = kw["eval_mode"]
            if not (isinstance(m, ast.Attribute) and is_name(m.value, "EvalModes")):
                raise Untranslatable("eval_mode " + dump_short(m))
            mode = m.attr

        def same_name(a, b):
            return is_name(a) and is_name(b) and a.id == b.id

        def one_child():
            c = kw["children"]
            if not (isinstance(c, ast.List) and len(c.elts) == 1):
                raise Untranslatable("children is not a one-element list")
            return c.elts[0]

        def is_str_of(x, name):
            return isinstance(x, ast.Call) and is_name(x.func, "str") and len(x.args) == 1 and is_name(x.args[0], name) \
                and not x.keywords

        def need(ks):
            if keys != set(ks):
                raise Untranslatable("ParseNode(%s) with keywords %s" % (mode, sorted(keys)))

        # evaluation in keyword source order: only `children` (and plain names) can be effectful/need evaluation
        if mode == "FUNCALL":
            need(["label", "value", "children", "eval_mode"])
            if not same_name(kw["label"], kw["value"]):
                raise Untranslatable("FUNCALL label/value differ")
            return self.kwargs_in_order(e, [kw["label"], kw["children"]], ["str", "list tree"], env,
                             lambda vs, env2: self.chk(vs, ["str", "list tree"]) or k("(PCall %s %s [])" % (vs[0][0], vs[1][0]), "tree", env2))
        if mode == "KEYWORD_ARG":
            need(["label", "children", "eval_mode"])
            return self.kwargs_in_order(e, [kw["label"], one_child()], ["str", "tree"], env,
                             lambda vs, env2: self.chk(vs, ["str", "tree"]) or k("(%s, %s)" % (vs[0][0], vs[1][0]), "kw", env2))
        if mode == "STATEMENTS":
            need(["children", "eval_mode"])
            return self.kwargs_in_order(e, [kw["children"]], ["list tree"], env,
                             lambda vs, env2: self.chk(vs, ["list tree"]) or k("(PStmts %s)" % vs[0][0], "tree", env2))
        if mode == "ASSIGNMENT":
            need(["label", "value", "children", "eval_mode"])
            if not same_name(kw["label"], kw["value"]):
                raise Untranslatable("ASSIGNMENT label/value differ")
            return self.kwargs_in_order(e, [kw["label"], one_child()], ["str", "tree"], env,
                             lambda vs, env2: self.chk(vs, ["str", "tree"]) or k("(PAssign %s %s)" % (vs[0][0], vs[1][0]), "tree", env2))
        if mode == "VARIABLE":
            need(["label", "value", "eval_mode"])
            if not same_name(kw["label"], kw["value"]):
                raise Untranslatable("VARIABLE label/value differ")
            return self.kwargs_in_order(e, [kw["label"]], ["str"], env,
                             lambda vs, env2: self.chk(vs, ["str"]) or k("(PVar %s)" % vs[0][0], "tree", env2))
        if mode == "QUANTITY":
            need(["label", "value", "children", "eval_mode"])
            if not (is_name(kw["value"]) and is_str_of(kw["label"], kw["value"].id)):
                raise Untranslatable("QUANTITY label is not str(value)")
            return self.kwargs_in_order(e, [one_child(), kw["value"]], ["tree", "usig"], env,
                             lambda vs, env2: self.chk(vs, ["tree", "usig"]) or k("(PQty %s %s)" % (vs[0][0], vs[1][0]), "tree", env2))
        if mode == "CONVERT_UNIT":
            need(["label", "value", "children", "eval_mode"])
            lab = kw["label"]
            ok = (is_name(kw["value"]) and isinstance(lab, ast.BinOp) and isinstance(lab.op, ast.Add)
                  and is_str_of(lab.right, kw["value"].id) and isinstance(lab.left, ast.BinOp)
                  and isinstance(lab.left.op, ast.Add) and isinstance(lab.left.right, ast.Constant)
                  and lab.left.right.value == " " and (self.tagconst(lab.left.left) or (None,))[0] == "UNIT_CONVERT")
            if not ok:
                raise Untranslatable("CONVERT_UNIT label shape")
            return self.kwargs_in_order(e, [one_child(), kw["value"]], ["tree", "usig"], env,
                             lambda vs, env2: self.chk(vs, ["tree", "usig"]) or k("(PConv %s %s)" % (vs[0][0], vs[1][0]), "tree", env2))
        if mode == "ARRAY":
            need(["label", "value", "children", "eval_mode"])
            if not (same_name(kw["label"], kw["value"]) and env.consts.get(kw["label"].id) == "{...}"):
                raise Untranslatable("ARRAY label is not the constant {...}")
            return self.kwargs_in_order(e, [kw["children"]], ["list tree"], env,
                             lambda vs, env2: self.chk(vs, ["list tree"]) or k("(PArr %s)" % vs[0][0], "tree", env2))
        if mode is None:
            need(["label", "value"])
            lab, val = kw["label"], kw["value"]
            if is_name(val) and isinstance(lab, ast.BinOp) and isinstance(lab.op, ast.Add) \
                    and isinstance(lab.right, ast.Constant) and lab.right.value == '"' \
                    and isinstance(lab.left, ast.BinOp) and isinstance(lab.left.op, ast.Add) \
                    and isinstance(lab.left.left, ast.Constant) and lab.left.left.value == '"' \
                    and is_name(lab.left.right, val.id):
                return self.kwargs_in_order(e, [val], ["str"], env,
                                 lambda vs, env2: self.chk(vs, ["str"]) or k("(PStr %s)" % vs[0][0], "tree", env2))
            if is_name(lab) and isinstance(val, ast.Call) and is_name(val.func, "instant_from_iso") \
                    and len(val.args) == 1 and is_name(val.args[0], lab.id) and not val.keywords:
                return self.kwargs_in_order(e, [lab], ["str"], env,
                                 lambda vs, env2: self.chk(vs, ["str"]) or k("(PInst %s)" % vs[0][0], "tree", env2))
            if isinstance(val, ast.Call) and is_name(val.func, "simplify_number") and len(val.args) == 1 \
                    and is_name(val.args[0]) and not val.keywords and is_str_of(lab, val.args[0].id):
                return self.kwargs_in_order(e, [val.args[0]], ["numlit"], env,
                                 lambda vs, env2: self.chk(vs, ["numlit"]) or k("(PNum %s)" % vs[0][0], "tree", env2))
            raise Untranslatable("leaf ParseNode shape")
        raise Untranslatable("ParseNode eval_mode %s" % mode)

    def kwargs_in_order(self, e, exprs, wants, env, k):
        """evaluate the given ParseNode field expressions in the source order of the keywords they come from"""
        pos = {}
        for i, x in enumerate(e.keywords):
            for n in ast.walk(x.value):
                pos[id(n)] = i
        idx = sorted(range(len(exprs)), key=lambda i: pos[id(exprs[i])])
        def back(vs, env2):
            out = [None] * len(exprs)
            for j, i in enumerate(idx):
                out[i] = vs[j]
            return k(out, env2)
        return self.args([exprs[i] for i in idx], [wants[i] for i in idx], env, back)

    def chk(self, vs, tys):
        for (v, ty), want in zip(vs, tys):
            self.expect(ty, want, "ParseNode field %s" % v)
        return None

    # ------------------------------------------------------------------ statements
    def coerce(self, v, ty, want, env):
        """value returned where `want` is declared -> computation"""
        if ty == want:
            return self.ret(env, v)
        if ty == "tree" and want == "clause":
            return self.ret(env, "(None, %s)" % v)
        if ty == "numlit" and want == "Z":
            z = self.fresh("z")
            return "match lit_int %s with\n| Some %s => %s\n| None => %s\nend" % (v, z, self.ret(env, z), self.stuck(env))
        raise Untranslatable("returns a %s where a %s is declared" % (ty, want))

    def assigned(self, stmts):
        """names (re)bound anywhere in stmts"""
        out = []
        def add(n):
            if n not in out:
                out.append(n)
        for s in stmts:
            for n in ast.walk(s):
                if isinstance(n, ast.Assign):
                    for t in n.targets:
                        if is_name(t):
                            add(t.id)
                        elif isinstance(t, ast.Subscript) and is_name(t.value):
                            add(t.value.id)
                        else:
                            raise Untranslatable("assignment target " + dump_short(t))
                elif isinstance(n, ast.AugAssign):
                    if is_name(n.target):
                        add(n.target.id)
                    elif not (isinstance(n.target, ast.Attribute) and n.target.attr == "ptr"):
                        raise Untranslatable("augmented assignment target")
                elif isinstance(n, ast.Call) and isinstance(n.func, ast.Attribute) and n.func.attr in ("append", "reverse") \
                        and is_name(n.func.value):
                    add(n.func.value.id)
                elif isinstance(n, (ast.For, ast.comprehension)) and is_name(n.target):
                    add(n.target.id)
        return out

    def loop_pat(self, names):
        if not names:
            return "_", "tt"
        if len(names) == 1:
            return "v_" + names[0], "v_" + names[0]
        t = "(" + ", ".join("v_" + n for n in names) + ")"
        return "'" + t, t

    def block(self, stmts, env, kont):
        """kont(env) -> what happens when control falls off the end of stmts"""
        if not stmts:
            return kont(env)
        s, rest = stmts[0], stmts[1:]
        nxt = lambda env2: self.block(rest, env2, kont)
        if isinstance(s, ast.Expr) and isinstance(s.value, ast.Constant) and isinstance(s.value.value, str):
            return nxt(env)
        if isinstance(s, ast.Return):
            if env.loop is not None:
                raise Untranslatable("return inside a loop")
            if s.value is None:
                raise Untranslatable("bare return")
            self.in_return = True
            try:
                return self.E(s.value, env, lambda v, ty, env2: self.coerce(v, ty, self.decl["ret"], env2),
                              want=self.decl["ret"])
            finally:
                self.in_return = False
        if isinstance(s, ast.Raise):
            return self.raise_(s, env)
        if isinstance(s, ast.Break):
            if env.loop is None:
                raise Untranslatable("break outside a loop")
            return self.ret(env, "(Break %s)" % self.loop_pat(env.loop)[1])
        if isinstance(s, ast.If):
            def kif(v, ty, env2):
                a = self.block(s.body, env2, nxt)
                b = self.block(s.orelse, env2, nxt)
                return "if %s then\n%s\nelse\n%s" % (self.truth(v, ty), a, b)
            return self.E(s.test, env, kif)
        if isinstance(s, ast.Assign):
            if len(s.targets) != 1:
                raise Untranslatable("multiple assignment")
            t = s.targets[0]
            if is_name(t):
                return self.assign(t.id, s.value, env, nxt)
            if isinstance(t, ast.Subscript) and is_name(t.value) and t.value.id in env.vars:
                l = t.value.id
                lty = env.vars[l]
                if not lty.startswith("list "):
                    raise Untranslatable("item assignment on %s" % lty)
                def ki(vs, env2):
                    (i, _), (v, vty) = vs
                    self.expect(vty, lty[5:], "assigned item")
                    return self.partial("list_set v_%s %s %s" % (l, i, v), lty, env2,
                                        lambda x, ty, env3: "let v_%s := %s in\n%s" % (l, x, nxt(env3.bind(l, lty))))
                return self.args([t.slice, s.value], ["nat", lty[5:]], env, ki)
            raise Untranslatable("assignment target " + dump_short(t))
        if isinstance(s, ast.AugAssign):
            # self.ptr += k
            if isinstance(s.target, ast.Attribute) and s.target.attr == "ptr" and self.is_state(s.target.value, env) \
                    and env.sparam == "self" and isinstance(s.op, ast.Add) and isinstance(s.value, ast.Constant) \
                    and isinstance(s.value.value, int) and not isinstance(s.value.value, bool) and s.value.value >= 0:
                ts2 = self.fresh("ts")
                return "let %s := skipn %d%%nat %s in\n%s" % (ts2, s.value.value, env.state, nxt(env.copy(state=ts2)))
            if is_name(s.target) and isinstance(s.op, ast.Add) and env.vars.get(s.target.id) == "nat":
                n = s.target.id
                return self.E(s.value, env, lambda v, ty, env2: "let v_%s := (v_%s + %s)%%nat in\n%s" % (
                    n, n, v, nxt(env2.bind(n, "nat"))), want="nat")
            raise Untranslatable("augmented assignment " + dump_short(s.target))
        if isinstance(s, ast.Expr) and isinstance(s.value, ast.Call):
            c = s.value
            f = c.func
            if isinstance(f, ast.Attribute) and is_name(f.value) and f.value.id in env.vars and not c.keywords:
                l = f.value.id
                lty = env.vars[l]
                if f.attr == "append" and len(c.args) == 1 and lty.startswith("list "):
                    def ka(v, ty, env2):
                        self.expect(ty, lty[5:], "appended value")
                        return "let v_%s := (v_%s ++ [%s]) in\n%s" % (l, l, v, nxt(env2.bind(l, lty)))
                    return self.E(c.args[0], env, ka, want=lty[5:])
                if f.attr == "reverse" and not c.args and lty.startswith("list "):
                    return "let v_%s := (rev v_%s) in\n%s" % (l, l, nxt(env.bind(l, lty)))
                raise Untranslatable("method %s of a local" % f.attr)
            # a call for its effect: t.read(..), t.read_any()
            return self.E(c, env, lambda v, ty, env2: nxt(env2), hint="_")
        if isinstance(s, ast.While):
            return self.while_(s, env, nxt)
        if isinstance(s, ast.For):
            return self.for_(s, env, nxt)
        raise Untranslatable("statement " + type(s).__name__)

    def assign(self, name, value, env, nxt):
        if name == env.sparam:
            raise Untranslatable("the token state parameter is rebound")
        want = LOCALS.get((short(self.qual), name))
        const = value.value if isinstance(value, ast.Constant) and isinstance(value.value, str) else None
        self.lastprov = None
        def ka(v, ty, env2):
            if want is not None:
                self.expect(ty, want, "local %s" % name)
            prov = self.lastprov[1] if (self.lastprov and self.lastprov[0] == v) else None
            env3 = env2.bind(name, ty, prov=prov, const=const)
            if v == "v_" + name:
                return nxt(env3)
            return "let v_%s := %s in\n%s" % (name, v, nxt(env3))
        return self.E(value, env, ka, want=want, hint="v_" + name)

    def raise_(self, s, env):
        e = s.exc
        if not (isinstance(e, ast.Call) and is_name(e.func, "ParsingError") and len(e.args) == 2 and not e.keywords) \
                or s.cause is not None:
            raise Untranslatable("raise " + dump_short(e) if e is not None else "re-raise")
        if env.mode != "state":
            raise Untranslatable("ParsingError without token state")
        def km(v, ty, env2):
            self.expect(ty, "msg", "error message")
            idx = e.args[1]
            def isptr(x):
                return isinstance(x, ast.Attribute) and x.attr == "ptr" and self.is_state(x.value, env2)
            if isptr(idx):
                return "PErr (List.length %s)" % env2.state
            if isinstance(idx, ast.BinOp) and isinstance(idx.op, ast.Sub) and isptr(idx.left) \
                    and isinstance(idx.right, ast.Constant) and isinstance(idx.right.value, int) \
                    and not isinstance(idx.right.value, bool) and idx.right.value >= 0:
                return "PErr (%d + List.length %s)%%nat" % (idx.right.value, env2.state)
            raise Untranslatable("error position " + dump_short(idx))
        return self.E(e.args[0], env, km, want="msg")

    def carried(self, body, env):
        names = [n for n in self.assigned(body) if n in env.vars]
        order = list(env.vars)
        return sorted(names, key=order.index)

    def while_(self, s, env, nxt):
        if s.orelse:
            raise Untranslatable("while/else")
        names = self.carried(s.body, env)
        pat, tup = self.loop_pat(names)
        if env.mode == "state":
            st = self.fresh("ts")
            ienv = env.copy(state=st)
            cond = self.E(s.test, ienv, lambda v, ty, env2: self.ret(env2, self.truth(v, ty)))
            st2 = self.fresh("ts")
            benv = env.copy(state=st2, loop=names)
            body = self.block(s.body, benv, lambda env2: self.ret(env2, "(Next %s)" % self.loop_pat(names)[1]))
            loop = "g_while (S (List.length %s)) (fun %s %s =>\n%s) (fun %s %s =>\n%s) %s" % (
                env.state, pat, st, cond, pat, st2, body, tup)
            return self.after_loop(loop, "state", names, env, nxt)
        if env.mode == "res":
            t = s.test
            if not (isinstance(t, ast.Compare) and len(t.ops) == 1 and isinstance(t.ops[0], ast.Lt) and is_name(t.left)
                    and isinstance(t.comparators[0], ast.Call) and is_name(t.comparators[0].func, "len")
                    and len(t.comparators[0].args) == 1 and is_name(t.comparators[0].args[0])
                    and t.comparators[0].args[0].id in env.vars):
                raise Untranslatable("while condition without token state is not `i < len(l)`")
            fuel_list = "v_" + t.comparators[0].args[0].id
            cond = self.E(t, env, lambda v, ty, env2: self.ret(env2, self.truth(v, ty)))
            benv = env.copy(loop=names)
            body = self.block(s.body, benv, lambda env2: self.ret(env2, "(Next %s)" % self.loop_pat(names)[1]))
            loop = "g_whileP (S (List.length %s)) (fun %s =>\n%s) (fun %s =>\n%s) %s" % (fuel_list, pat, cond, pat, body, tup)
            return self.after_loop(loop, "res", names, env, nxt)
        raise Untranslatable("loop in a pure function")

    def for_(self, s, env, nxt):
        it = s.iter
        if s.orelse or not (is_name(s.target, "_") and isinstance(it, ast.Call) and is_name(it.func, "range")
                            and len(it.args) == 1 and not it.keywords and isinstance(it.args[0], ast.Constant)
                            and isinstance(it.args[0].value, int) and not isinstance(it.args[0].value, bool)
                            and it.args[0].value >= 0):
            raise Untranslatable("for loop that is not `for _ in range(N)`")
        if env.mode != "state":
            raise Untranslatable("for loop without token state")
        names = self.carried(s.body, env)
        pat, tup = self.loop_pat(names)
        st = self.fresh("ts")
        benv = env.copy(state=st, loop=names)
        body = self.block(s.body, benv, lambda env2: self.ret(env2, "(Next %s)" % self.loop_pat(names)[1]))
        loop = "g_for_range %d%%nat (fun %s %s =>\n%s) %s" % (it.args[0].value, pat, st, body, tup)
        return self.after_loop(loop, "state", names, env, nxt)

    def after_loop(self, loop, mode, names, env, nxt):
        env2 = env
        for n in names:         # loop-carried variables keep their type; provenance/constants are forgotten
            env2 = env2.bind(n, env.vars[n])
        if mode == "res":
            if len(names) <= 1:
                x = "v_" + names[0] if names else "_"
                return "dop %s <- %s;\n%s" % (x, loop, nxt(env2))
            s_ = self.fresh("s")
            return "dop %s <- %s;\nlet %s := %s in\n%s" % (s_, loop, self.loop_pat(names)[0], s_, nxt(env2))
        ts2 = self.fresh("ts")
        env2 = env2.copy(state=ts2)
        if len(names) <= 1:
            x = "v_" + names[0] if names else "_"
            return "dop (%s, %s) <- %s %s;\n%s" % (x, ts2, loop, env.state, nxt(env2))
        s_ = self.fresh("s")
        return "dop (%s, %s) <- %s %s;\nlet %s := %s in\n%s" % (s_, ts2, loop, env.state, self.loop_pat(names)[0], s_, nxt(env2))

    # ------------------------------------------------------------------ whole function
    def translate(self):
        fn, d = self.fn, self.decl
        a = fn.args
        if a.kwonlyargs or a.kwarg or a.defaults or a.kw_defaults or a.posonlyargs or fn.decorator_list:
            raise Untranslatable("signature")
        names = [x.arg for x in a.args] + (["*" + a.vararg.arg] if a.vararg else [])
        mode = d["mode"]
        sparam = None
        if mode == "state":
            if not names or names[0] not in ("t", "self"):
                raise Untranslatable("first parameter is not the token state")
            sparam, names = names[0], names[1:]
            if (sparam == "self") != self.qual.startswith("BagOfTokens."):
                raise Untranslatable("state parameter name")
        if names != [p[0] for p in d["params"]]:
            raise Untranslatable("parameters %r differ from the declaration %r" % (names, [p[0] for p in d["params"]]))
        self.in_return = False
        self.lastprov = None
        env = Env(self.qual, mode, sparam, "ts" if mode == "state" else None,
                  {p[0].lstrip("*"): p[1] for p in d["params"]})
        def falloff(env2):
            raise Untranslatable("control can fall off the end of the function")
        body = self.block(fn.body, env, falloff)
        params = " ".join("(v_%s : %s)" % (p[0].lstrip("*"), coq_ty(p[1])) for p in d["params"])
        rty = coq_ty(d["ret"])
        if mode == "state":
            return "Definition %s %s : parser %s := fun ts =>\n%s." % (gname(self.qual), params, rty, indent(body))
        if mode == "res":
            return "Definition %s %s : pres %s :=\n%s." % (gname(self.qual), params, rty, indent(body))
        return "Definition %s %s : %s :=\n%s." % (gname(self.qual), params, rty, indent(body))


def indent(text):
    """indent by nesting of dop/let/if/match lines (cosmetic only)"""
    return "\n".join("  " + line.strip() for line in text.split("\n"))


# ---------------------------------------------------------------------------------------------------- the file
class Owner:
    def __init__(self, tree, tags):
        self.tree, self.tags = tree, tags
        self.done = set()       # qualified names (and constants) with an emitted definition
        self.failed = {}        # name -> reason
        self.in_section = False

    def fnref(self, name, from_qual):
        """a call of KNOT from a function KNOT itself (transitively) calls is the Section variable pe"""
        if name == KNOT and (from_qual == KNOT or from_qual in self.reach()):
            return "pe"
        return gname(name)

    def reach(self):
        if not hasattr(self, "_reach"):
            seen, todo = set(), [KNOT]
            while todo:
                q = todo.pop()
                try:
                    cs = self.callees(q)
                except Untranslatable:
                    cs = []
                for c in cs:
                    if c in DECL and c != KNOT and c not in seen:
                        seen.add(c)
                        todo.append(c)
            self._reach = seen
        return self._reach

    def find(self, qual):
        body, node = self.tree.body, None
        for p in qual.split("."):
            cands = [n for n in body if isinstance(n, (ast.FunctionDef, ast.ClassDef)) and n.name == p]
            if len(cands) != 1:
                raise Untranslatable("%d definitions of %s" % (len(cands), qual))
            node = cands[0]
            body = node.body
        if not isinstance(node, ast.FunctionDef):
            raise Untranslatable("%s is not a function" % qual)
        return node

    def callees(self, qual):
        """declared functions / methods / constants mentioned in the body"""
        fn = self.find(qual)
        out = []
        for n in ast.walk(fn):
            if isinstance(n, ast.Name) and (n.id in DECL or n.id in CONSTANTS) and n.id != short(qual):
                out.append(n.id)
            if isinstance(n, ast.Call) and isinstance(n.func, ast.Attribute) and is_name(n.func.value) \
                    and n.func.value.id in ("t", "self") and "BagOfTokens." + n.func.attr in DECL:
                if "BagOfTokens." + n.func.attr != qual:
                    out.append("BagOfTokens." + n.func.attr)
        return [x for i, x in enumerate(out) if x not in out[:i]]


def order(owner, quals):
    """topological order of the call graph without the calls of KNOT; a cycle is untranslatable"""
    out, state = [], {}
    def visit(q, path):
        if state.get(q) == 2:
            return
        if state.get(q) == 1:
            raise Untranslatable("recursion not through %s: %s" % (KNOT, " -> ".join(path + [q])))
        state[q] = 1
        try:
            cs = owner.callees(q) if q in DECL else []
        except Untranslatable:
            cs = []
        for c in cs:
            if c in CONSTANTS or (c == KNOT and (q == KNOT or q in owner.reach())):
                continue
            visit(c, path + [q])
        state[q] = 2
        out.append(q)
    for q in quals:
        visit(q, [])
    return out


IMPORTS = ["from .tokens import Tokens", "from .types import simplify_number, instant_from_iso",
           "from .eval import EvalModes"]
PROTECTED = {"Tokens", "EvalModes", "simplify_number", "instant_from_iso", "ParseNode", "ParsingError", "BagOfTokens",
             "UnitSignature", "make_array_with_condition_node", "make_generator_node", "parse_tokens"}


def module_guard(tree):
    """Module-level statements may only be: the three imports, def/class (each translated name defined once, see
    Owner.find), a docstring, and the single list assignment of each constant.  Anything that could rebind a name the
    translation relies on (another import, an assignment to a function name, a patched method) is untranslatable."""
    imports = [ast.dump(ast.parse(x).body[0]) for x in IMPORTS]
    seen = []
    names = PROTECTED | set(short(q) for q in DECL) | set(CONSTANTS)
    for n in tree.body:
        if isinstance(n, (ast.FunctionDef, ast.ClassDef)):
            continue
        if isinstance(n, ast.Expr) and isinstance(n.value, ast.Constant) and isinstance(n.value.value, str):
            continue
        if isinstance(n, ast.ImportFrom) and ast.dump(n) in imports:
            seen.append(ast.dump(n))
            continue
        if isinstance(n, ast.Assign) and len(n.targets) == 1 and is_name(n.targets[0]) and n.targets[0].id in CONSTANTS \
                and n.targets[0].id not in seen:
            seen.append(n.targets[0].id)
            continue
        raise Untranslatable("module-level statement at line %d: %s" % (n.lineno, dump_short(n)))
    for x in imports:
        if seen.count(x) != 1:
            raise Untranslatable("expected exactly one `%s`" % IMPORTS[imports.index(x)])
    defs = [n.name for n in tree.body if isinstance(n, (ast.FunctionDef, ast.ClassDef))]
    for nm in names:
        if defs.count(nm) > 1:
            raise Untranslatable("%s is defined %d times" % (nm, defs.count(nm)))
    # inside functions no translated/protected global may be rebound (global/nonlocal statements)
    for n in ast.walk(tree):
        if isinstance(n, (ast.Global, ast.Nonlocal)):
            raise Untranslatable("global/nonlocal statement at line %d" % n.lineno)


def gen(d):
    src = os.path.join(C.SRC, "ka", "parse.py")
    tree = ast.parse(open(src, encoding="utf-8").read())
    owner = Owner(tree, dict(d["token_tags"]))
    L = ["(* GENERATED by harness/trans_parser.py from src/ka/parse.py (AST translation) — do not edit",
         MAPPING.rstrip("\n").replace("*)", "* )"), "*)", PRELUDE]

    def fail(name, why):
        owner.failed[name] = why
        L.append("(* UNTRANSLATABLE %s: %s *)" % (name, str(why).replace("*)", "* )").replace("(*", "( *")))
        L.append("")

    try:
        module_guard(tree)
    except Untranslatable as x:
        fail("<file>", x)
        return "\n".join(L) + "\n"

    # module constants: lists of Tokens.X
    L.append("(* ---- module constants ---- *)")
    for cname in CONSTANTS:
        try:
            asg = [n for n in tree.body if isinstance(n, ast.Assign) and len(n.targets) == 1 and is_name(n.targets[0], cname)]
            if len(asg) != 1 or not isinstance(asg[0].value, ast.List):
                raise Untranslatable("not a single list assignment")
            # must not be rebound or mutated elsewhere at module level
            items = []
            for x in asg[0].value.elts:
                if not (isinstance(x, ast.Attribute) and is_name(x.value, "Tokens") and x.attr in owner.tags):
                    raise Untranslatable("element " + dump_short(x))
                items.append("%s (* Tokens.%s *)" % (coq_str(owner.tags[x.attr]), x.attr))
            L.append("Definition g_%s : list string := [%s]." % (cname, "; ".join(items)))
            L.append("")
            owner.done.add(cname)
        except Untranslatable as x:
            fail(cname, x)

    def emit(qual):
        try:
            for c in owner.callees(qual):
                if c == KNOT and owner.fnref(KNOT, qual) == "pe":
                    continue
                if c not in owner.done and c != qual:
                    raise Untranslatable("depends on %s, which is not translated" % c)
            text = FnTr(owner, qual, owner.find(qual)).translate()
            L.append("(* %s, line %d *)" % (qual, owner.find(qual).lineno))
            L.append(text)
            L.append("")
            owner.done.add(qual)
        except Untranslatable as x:
            fail(qual, x)

    try:
        # BagOfTokens.__init__ must be exactly: self.tokens = tokens; self.ptr = 0
        init = owner.find("BagOfTokens.__init__")
        ok = ([a.arg for a in init.args.args] == ["self", "tokens"] and len(init.body) == 2
              and ast.dump(init.body[0]) == ast.dump(ast.parse("self.tokens = tokens").body[0])
              and ast.dump(init.body[1]) == ast.dump(ast.parse("self.ptr = 0").body[0]))
        if not ok:
            raise Untranslatable("BagOfTokens.__init__ is not `self.tokens = tokens; self.ptr = 0`")
        pre = [q for q in DECL if DECL[q]["mode"] != "state" or q.startswith("BagOfTokens.")]
        sect = [q for q in DECL if q not in pre]
        ord_pre = order(owner, pre)             # raises on recursion that does not pass through KNOT:
        ord_sect = order(owner, sect)           # then nothing at all is emitted
        L.append("(* ---- node builders, make_comparison_node, BagOfTokens ---- *)")
        for q in ord_pre:
            emit(q)
        L.append("(* ---- the parser; pe = parse_expression for nested expressions ---- *)")
        L.append("Section Levels.")
        L.append("Variable pe : parser ptree.")
        L.append("")
        for q in ord_sect:
            if q in pre:
                continue
            emit(q)
        L.append("End Levels.")
        L.append("")
        # the knot and parse_tokens
        if KNOT in owner.done:
            L.append("Fixpoint g_parse_expression_fix (fuel : nat) : parser ptree := fun ts =>\n"
                     "  match fuel with\n  | O => PFuel\n  | S f => g_parse_expression (g_parse_expression_fix f) ts\n  end.")
            L.append("")
        try:
            pt = owner.find("parse_tokens")
            want = ast.parse("def parse_tokens(tokens):\n    return parse_statements(BagOfTokens(tokens))").body[0]
            if ast.dump(pt) != ast.dump(want):
                raise Untranslatable("parse_tokens is not `return parse_statements(BagOfTokens(tokens))`")
            if "parse_statements" not in owner.done or KNOT not in owner.done:
                raise Untranslatable("depends on parse_statements / %s, not translated" % KNOT)
            L.append("(* parse_tokens, line %d *)" % pt.lineno)
            L.append("Definition g_parse_tokens (v_tokens : list tok) : pres ptree :=\n"
                     "  dop (x1, ts1) <- g_parse_statements (g_parse_expression_fix (List.length v_tokens)) v_tokens;\n"
                     "  POk x1.")
            L.append("")
        except Untranslatable as x:
            fail("parse_tokens", x)
    except Untranslatable as x:
        fail("<file>", x)
    L.append("(* translated: %s *)" % " ".join(sorted(short(q) for q in owner.done)))
    return "\n".join(L) + "\n"


GENERATES = {"GenParserSrc.v": gen}

if __name__ == "__main__":
    import json
    dmp = json.load(open(os.path.join(C.BUILD, "dump.json")))
    sys.stdout.write(gen(dmp))
