"""Translator plugin "num": the exact-number core of ka/types.py and ka/functions.py -> coq/Gen/GenNumSrc.v,
regenerated on every run from the Python AST of the tree under check (C.SRC).  coq/GenFacts/NumSrcFacts.v (property
C01) and coq/GenFacts/NumSrcElemFacts.v (property C16) prove the hand-written models (coq/Model/Num.v, Model/Elem.v,
Model/Comb.v's coerce) equal to these definitions.

Fail-closed: a construct outside the subset handled below raises Untranslatable and the function gets NO definition
(a comment `(* UNTRANSLATABLE name: why *)` instead), and neither does any function that calls it nor its row in the
registry-key tables, so the facts about it cannot be proved.  Nothing is repaired or guessed: operand order,
comparison, constants, branch order, exception class and the place it is raised are what the AST says.

The trusted construct mapping is the text of MAPPING (copied into the generated file) together with the Gallina text
of PRELUDE (the model of Python's own operators on int/Fraction/float, built from the definitions of Model/Num.v and
Model/Elem.v)."""
import ast, os, re, sys
sys.path.insert(0, os.path.dirname(os.path.abspath(__file__)))
import common as C
from pytrans import Untranslatable

MAPPING = r"""
   TRUSTED CONSTRUCT MAPPING (everything else is checked by GenFacts/NumSrcFacts.v and GenFacts/NumSrcElemFacts.v)

   values      a Python int / Fraction / float is a `num` of Model/Num.v (NInt z | NFrac q | NFlt q; a float is
               IDEALISED as the exact rational it would be in real arithmetic: no rounding, no inf, no nan, which
               is all Num.v claims for floats).  Parameter types are DECLARED in harness/trans_num.py (FUNS):
               num, or for simplify_type a `qval` (VN n | VQ mag dims), for coerce_to a `cval` (CNum n |
               CComb ns ds) and a `ktype` (TNumber | TOther: the signature type a value is coerced to).
               An integer literal k is `NInt k`.  math.e is `NFlt float_e` (Model/Elem.v).
   results     a function declared pure returns its Gallina value; one declared `res T` returns `Ok v` for
               `return v` and `Raise X` for `raise X(...)` (class by name; the message is dropped: formatting a
               number does not raise); one declared R (it ends in a libm call or in Python's `**`) returns an
               element of the carrier `R E` of a result algebra E : ralg, see below.  A value returned where the
               declared result type is wider is injected by the constructor (num -> qval: VN, num -> cval: CNum).
   sequencing  a call that may raise is bound (`bind` of Model/Prelude.v; `bindR E` into `R E`) IN SOURCE ORDER:
               arguments left to right, operands left to right, statements top to bottom; `c1 and c2` evaluates
               c2 only if c1 is true, `c1 or c2` only if c1 is false; `A if c else B` evaluates c first.
               `return f(...)` of a call that may raise is that call itself (tail call).
               An `if` whose body does not return on every path continues with the statements after it.
   truth       `if e:` on a number e is `p_truthy e` (e != 0); on a Python bool (comparison, isinstance,
               is_true, is_fractional, not) it is the bool.
   dispatch    `dispatch(NAME, (a, b))` / `dispatch(NAME, (a,))` on numbers is the model's number-level operation
               of that name: "<" n_lt, "<=" n_le, "==" n_eq, "!=" n_ne, ">" n_gt, ">=" n_ge, "int" n_int
               (Model/Num.v).  NumSrcFacts.v proves each of these equal to what the LIVE registry selects for
               that name on number kinds, run on the translated/primitive body, followed by simplify_number.
   isinstance  on a num: float -> p_is_float, frac (= fractions.Fraction) -> p_is_frac, int -> p_is_int.
               on a qval/cval variable x, `if isinstance(x, C) [and c2]:` is `match x with <C's constructor>
               fields => [if c2 then] THEN | _ => ELSE end`; inside THEN x stands for the fields
               (numbers.Number: VN x_n; Quantity: VQ x_mag x_qv; Combinatoric: CComb x_ns x_ds),
               x.mag / x.qv are those fields, Quantity(a, b) is `VQ a b`.
   operators   on num operands (PRELUDE below): == != < <= > >= are p_eq p_ne p_lt p_le p_gt p_ge (exact
               comparison of the values); `%` p_mod, `//` p_floordiv, `/` p_truediv (ZeroDivisionError on a zero
               divisor), `+ - *` p_add p_sub p_mul; `x.numerator` / `x.denominator` p_numerator / p_denominator;
               int(x) p_int (truncation); math.modf(x) p_modf (fractional and whole part, as floats);
               frac(a, b) p_frac (reduced, NOT simplified to an int; ZeroDivisionError; TypeError on a float);
               `t == Number` on a ktype is `ktype_eqb t TNumber`; `co.resolve()` on a Combinatoric is
               Model/Comb.v's `resolve co_ns co_ds` (a loop; not translated here).
   libm, **    `x ** y`, math.log(x, b), math.sqrt(x) are the FIELDS ext_pow, ext_log, ext_sqrt of the result
               algebra E : ralg (with ret_, raise_, catch_ and ext_sin/cos/tan for the table below); they are
               allowed in tail position only.  `try: return e  except X: raise Y(..)` is
               `catch_ E <e> X (raise_ E Y)`.  The facts instantiate E twice: carrier `plan` of Model/Elem.v
               (PExact, PRaise, the model's conversions + PCall for libm) and carrier `res num` of Model/Num.v.
   registry keys   g_impl1 / g_impl2 give, for the key harness/dump_live.py:impl_key prints for a registered
               callable (the key the regenerated registry Gen/GenFunctions.v carries), the Gallina body:
               for a Ka function ka.<module>.<qualname> its translation (the row exists only if the function
               was translated); for intify's closure `ka.functions.intify.<locals>.f_new[f=_operator.OP]` the
               translation of f_new applied to p_OP; for Python's own callables the PRELUDE primitive:
               _operator.add/sub/mul/truediv/mod -> p_add/p_sub/p_mul/p_truediv/p_mod, _operator.pos/neg ->
               p_pos/p_neg, builtins.abs -> p_abs, math.floor/ceil -> p_floor/p_ceil, builtins.round -> p_round
               (half to even), class:builtins.int -> p_int, class:builtins.float -> p_float (OverflowError
               beyond the double range), math.sin/cos/tan -> ext_sin/ext_cos/ext_tan.
   names       `frac`, `math`, `numbers`, `Number`, the Ka functions called and the exception classes must be
               bound exactly once at module level (import or def) to what their name says, else the function
               using them is untranslatable.
"""

PRELUDE = r"""
(* ---- PRELUDE: Python's own operators on int / Fraction / float (trusted; see the mapping above) *)
Definition p_is_float (x : num) : bool := match x with NFlt _ => true | _ => false end.
Definition p_is_frac (x : num) : bool := match x with NFrac _ => true | _ => false end.
Definition p_is_int (x : num) : bool := match x with NInt _ => true | _ => false end.
Definition p_eq (a b : num) : bool := Qeqb (toQ a) (toQ b).
Definition p_ne (a b : num) : bool := negb (Qeqb (toQ a) (toQ b)).
Definition p_lt (a b : num) : bool := Qltb (toQ a) (toQ b).
Definition p_le (a b : num) : bool := Qleb (toQ a) (toQ b).
Definition p_gt (a b : num) : bool := Qltb (toQ b) (toQ a).
Definition p_ge (a b : num) : bool := Qleb (toQ b) (toQ a).
Definition p_truthy (v : num) : bool := negb (Qis_zero (toQ v)).
Definition p_int (x : num) : num := NInt (Qtrunc (Qred (toQ x))).
Definition p_modf (x : num) : num * num :=
  let t := inject_Z (Qtrunc (Qred (toQ x))) in (NFlt (toQ x - t), NFlt t).
Definition p_numerator (x : num) : num := NInt (Qnum (toQ x)).
Definition p_denominator (x : num) : num := NInt (Zpos (Qden (toQ x))).
(* result kind of a binary operator: float if either operand is, else Fraction (reduced, not simplified) *)
Definition p_lift2 (f : Q -> Q -> Q) (a b : num) : num :=
  if is_flt a || is_flt b then NFlt (Qred (f (toQ a) (toQ b))) else NFrac (Qred (f (toQ a) (toQ b))).
Definition p_add (a b : num) : res num :=
  match a, b with NInt x, NInt y => Ok (NInt (x + y)) | _, _ => Ok (p_lift2 Qplus a b) end.
Definition p_sub (a b : num) : res num :=
  match a, b with NInt x, NInt y => Ok (NInt (x - y)) | _, _ => Ok (p_lift2 Qminus a b) end.
Definition p_mul (a b : num) : res num :=
  match a, b with NInt x, NInt y => Ok (NInt (x * y)) | _, _ => Ok (p_lift2 Qmult a b) end.
Definition p_truediv (a b : num) : res num :=
  if Qis_zero (toQ b) then Raise ZeroDivisionError
  else match a, b with
       | NInt _, NInt _ => Ok (NFlt (Qred (toQ a / toQ b)))
       | _, _ => Ok (p_lift2 Qdiv a b)
       end.
Definition p_mod (a b : num) : res num :=
  if Qis_zero (toQ b) then Raise ZeroDivisionError
  else match a, b with
       | NInt x, NInt y => Ok (NInt (x mod y))
       | _, _ => Ok (p_lift2 Qmod_floor a b)
       end.
Definition p_floordiv (a b : num) : res num :=
  if Qis_zero (toQ b) then Raise ZeroDivisionError
  else match a, b with
       | NInt x, NInt y => Ok (NInt (x / y))
       | _, _ => if is_flt a || is_flt b then Ok (NFlt (inject_Z (Qfloor (toQ a / toQ b))))
                 else Ok (NInt (Qfloor (toQ a / toQ b)))
       end.
Definition p_frac (a b : num) : res num :=
  if is_flt a || is_flt b then Raise TypeError
  else if Qis_zero (toQ b) then Raise ZeroDivisionError
  else Ok (NFrac (Qred (toQ a / toQ b))).
Definition p_abs (a : num) : num := abs_num a.
Definition p_neg (a : num) : num :=
  match a with NInt x => NInt (- x) | NFrac q => NFrac (- q) | NFlt q => NFlt (- q) end.
Definition p_pos (a : num) : num := a.
Definition p_floor (a : num) : num := NInt (Qfloor (toQ a)).
Definition p_ceil (a : num) : num := NInt (Qceiling (toQ a)).
Definition p_round (a : num) : num := NInt (Qround_half_even (toQ a)).
Definition p_float (a : num) : res num := bind (conv a) (fun q => Ok (NFlt q)).
Inductive ktype := TNumber | TOther.
Definition ktype_eqb (a b : ktype) : bool :=
  match a, b with TNumber, TNumber | TOther, TOther => true | _, _ => false end.

(* result algebra of the functions that end in libm or in Python's ** *)
Record ralg := {
  R : Type;
  ret_ : num -> R;                    (* return of a number computed without libm *)
  raise_ : exn -> R;
  catch_ : R -> exn -> R -> R;        (* try: return e  except X: h *)
  ext_pow : num -> num -> R;          (* x ** y *)
  ext_log : num -> num -> R;          (* math.log(x, b) *)
  ext_sqrt : num -> R;
  ext_sin : num -> R;
  ext_cos : num -> R;
  ext_tan : num -> R }.
Definition bindR (E : ralg) {A} (r : res A) (k : A -> R E) : R E :=
  match r with Ok a => k a | Raise e => raise_ E e end.
"""

# ------------------------------------------------------------------ declarations
# types: num bool qval cval ktype dimvec rlist(list range) fn2bool(num -> num -> bool) pair(num*num)
COQTY = {"num": "num", "bool": "bool", "qval": "qval", "cval": "cval", "ktype": "ktype", "dimvec": "dimvec",
         "rlist": "list range", "fn2bool": "num -> num -> bool"}
# record-like narrowed classes: python class -> (universe type, constructor, [(field, coq suffix, type)])
CLASSES = {
    "Number": ("qval", "VN", [(None, "n", "num")]),            # numbers.Number inside a qval
    "Quantity": ("qval", "VQ", [("mag", "mag", "num"), ("qv", "qv", "dimvec")]),
    "Combinatoric": ("cval", "CComb", [("ns", "ns", "rlist"), ("ds", "ds", "rlist")]),
}
INJECT = {("num", "qval"): "VN", ("num", "cval"): "CNum"}
EXNS = {"ZeroDivisionError", "OverflowError", "TypeError", "ValueError", "IndexError", "KaRuntimeError",
        "FunctionArgError"}
DISPATCH = {("<", 2): "n_lt", ("<=", 2): "n_le", ("==", 2): "n_eq", ("!=", 2): "n_ne", (">", 2): "n_gt",
            (">=", 2): "n_ge", ("int", 1): "n_int"}
CMP = {ast.Eq: "p_eq", ast.NotEq: "p_ne", ast.Lt: "p_lt", ast.LtE: "p_le", ast.Gt: "p_gt", ast.GtE: "p_ge"}
BINOP = {ast.Mod: "p_mod", ast.FloorDiv: "p_floordiv", ast.Div: "p_truediv", ast.Add: "p_add", ast.Sub: "p_sub",
         ast.Mult: "p_mul"}
RESERVED = {"fun", "let", "in", "if", "then", "else", "match", "with", "end", "fix", "forall", "exists", "as", "at",
            "return", "Type", "Prop", "Set", "E", "R", "Ok", "Raise", "bind", "bindR", "negb", "resolve", "num",
            "bool", "toQ", "norm", "conv", "true", "false", "float_e"}

# the functions: module, qualified name, declared parameter types, result: ("pure", T) | ("res", T) | ("R",)
FUNS = [
    dict(mod="types", name="is_true", params=["num"], result=("pure", "bool")),
    dict(mod="types", name="simplify_number", params=["num"], result=("res", "num")),
    dict(mod="types", name="simplify_type", params=["qval"], result=("res", "qval")),
    dict(mod="types", name="fraction_divide", params=["num", "num"], result=("res", "num")),
    dict(mod="functions", name="intify", closure="f_new", free=["fn2bool"], params=["num", "num"], result=("pure", "num")),
    dict(mod="functions", name="resolve_combinatoric", params=["Combinatoric"], result=("res", "num")),
    dict(mod="functions", name="coerce_to", params=["cval", "ktype"], result=("res", "cval")),
    dict(mod="functions", name="is_fractional", params=["num"], result=("res", "bool")),
    dict(mod="functions", name="strict_pow", params=["num", "num"], result=("R",)),
    dict(mod="functions", name="ka_log", params=["num", "num"], result=("R",)),
    dict(mod="functions", name="ka_ln", params=["num"], result=("R",)),
    dict(mod="functions", name="ka_log10", params=["num"], result=("R",)),
    dict(mod="functions", name="ka_log2", params=["num"], result=("R",)),
    dict(mod="functions", name="ka_sqrt", params=["num"], result=("R",)),
]
# names a module must bind exactly once, to this (import source or "def")
EXPECT = {
    "types": {"frac": "fractions.Fraction", "math": "import math", "numbers": "import numbers",
              "KaRuntimeError": "class", "Quantity": "class", "Combinatoric": "class"},
    "functions": {"frac": "fractions.Fraction", "math": "import math", "Number": "numbers.Number",
                  "KaRuntimeError": ".types.KaRuntimeError", "is_true": ".types.is_true",
                  "simplify_type": ".types.simplify_type", "fraction_divide": ".types.fraction_divide",
                  "Combinatoric": ".types.Combinatoric", "dispatch": "def"},
}


# ------------------------------------------------------------------ module facts
class Module:
    def __init__(self, short):
        self.short = short
        path = os.path.join(C.SRC, "ka", short + ".py")
        self.tree = ast.parse(open(path, encoding="utf-8").read())
        self.bind = {}      # name -> list of what binds it at module level
        for n in self.tree.body:
            self._scan(n)

    def _add(self, name, what):
        self.bind.setdefault(name, []).append(what)

    def _scan(self, n):
        if isinstance(n, ast.Import):
            for a in n.names:
                self._add(a.asname or a.name.split(".")[0], "import " + a.name)
        elif isinstance(n, ast.ImportFrom):
            for a in n.names:
                self._add(a.asname or a.name, "." * n.level + (n.module or "") + "." + a.name)
        elif isinstance(n, ast.FunctionDef):
            self._add(n.name, "def")
        elif isinstance(n, ast.ClassDef):
            self._add(n.name, "class")
        elif isinstance(n, (ast.Assign, ast.AugAssign, ast.AnnAssign)):
            tgts = n.targets if isinstance(n, ast.Assign) else [n.target]
            for t in tgts:
                for x in ast.walk(t):
                    if isinstance(x, ast.Name):
                        self._add(x.id, "assign")
        elif isinstance(n, (ast.For, ast.While, ast.If, ast.With, ast.Try)):
            if isinstance(n, ast.For):
                for x in ast.walk(n.target):
                    if isinstance(x, ast.Name):
                        self._add(x.id, "assign")
            for f in ("body", "orelse", "finalbody"):
                for m in getattr(n, f, []):
                    self._scan(m)
            for h in getattr(n, "handlers", []):
                for m in h.body:
                    self._scan(m)

    def bound_to(self, name):
        b = self.bind.get(name, [])
        if len(b) != 1:
            raise Untranslatable("name %s is bound %d times at module level in %s.py" % (name, len(b), self.short))
        return b[0]

    def need(self, name):
        want = EXPECT[self.short].get(name)
        if want is None:
            raise Untranslatable("no expectation recorded for the name %s" % name)
        got = self.bound_to(name)
        if got != want:
            raise Untranslatable("name %s in %s.py is bound to %s, expected %s" % (name, self.short, got, want))

    def function(self, name):
        if self.bound_to(name) != "def":
            raise Untranslatable("%s is not a module-level def" % name)
        return next(n for n in self.tree.body if isinstance(n, ast.FunctionDef) and n.name == name)


# ------------------------------------------------------------------ the translator
class Fn:
    """one function body -> one Gallina term, in continuation-passing style over the Python AST"""

    def __init__(self, module, decl, done):
        self.m, self.decl, self.done = module, decl, done
        self.mode = decl["result"][0]
        self.rty = decl["result"][1] if self.mode != "R" else "num"
        self.env = {}
        self.n = 0

    # -- helpers
    def fresh(self):
        self.n += 1
        v = "v%d" % self.n
        if v in self.env:
            raise Untranslatable("local name %s clashes with a generated name" % v)
        return v

    def ident(self, name):
        if not re.fullmatch(r"[A-Za-z][A-Za-z0-9_]*", name) or name in RESERVED or re.match(r"(p|n|g|ext)_|v\d+$", name):
            raise Untranslatable("local name %r is not usable as a Gallina variable" % name)
        return name

    def bindtxt(self, eff, k_text_of_var):
        v = self.fresh()
        body = k_text_of_var(v)
        if self.mode == "res":
            return "(bind %s (fun %s => %s))" % (eff, v, body)
        if self.mode == "R":
            return "(bindR E %s (fun %s => %s))" % (eff, v, body)
        raise Untranslatable("a call that may raise inside a function declared pure")

    def effect(self, eff, ty, k, tail):
        """a call that may raise: bound, unless it is the returned expression itself (tail call)"""
        if tail and ty == self.rty and self.mode == "res":
            return eff
        if tail and ty == self.rty and self.mode == "R":
            return "(bindR E %s (ret_ E))" % eff
        return self.bindtxt(eff, lambda v: k(v, ty))

    def ret(self, text, ty):
        """`return <pure value>`"""
        if ty != self.rty:
            c = INJECT.get((ty, self.rty))
            if c is None:
                raise Untranslatable("returns a %s where a %s is declared" % (ty, self.rty))
            text = "(%s %s)" % (c, text)
        if self.mode == "pure":
            return text
        if self.mode == "res":
            return "(Ok %s)" % text
        return "(ret_ E %s)" % text

    def raise_(self, cls):
        if cls not in EXNS:
            raise Untranslatable("raise of %s" % cls)
        if cls == "KaRuntimeError":
            self.m.need("KaRuntimeError")
        elif cls in self.m.bind:
            raise Untranslatable("%s is rebound at module level" % cls)
        if self.mode == "res":
            return "(Raise %s)" % cls
        if self.mode == "R":
            return "(raise_ E %s)" % cls
        raise Untranslatable("raise inside a function declared pure")

    # -- expressions: atom(e, k) calls k(text, type) for the value of e, wrapping binds around it as needed
    def atoms(self, es, k, acc=None):
        acc = acc or []
        if not es:
            return k(acc)
        return self.atom(es[0], lambda t, ty: self.atoms(es[1:], k, acc + [(t, ty)]))

    def var(self, name):
        if name not in self.env:
            raise Untranslatable("free variable %s" % name)
        return self.env[name]

    def atom(self, e, k, tail=False):
        if isinstance(e, ast.Constant) and isinstance(e.value, int) and not isinstance(e.value, bool):
            return k("(NInt %s)" % (str(e.value) if e.value >= 0 else "(%d)" % e.value), "num")
        if isinstance(e, ast.Name):
            v = self.var(e.id)
            if v[0] == "narrowed":          # (narrowed, class, {field: (coqname, type)})
                uni, ctor, fields = CLASSES[v[1]]
                if len(fields) == 1 and fields[0][0] is None:
                    return k(v[2][None][0], fields[0][2])
                return k("(%s %s)" % (ctor, " ".join(v[2][f[0]][0] for f in fields)), uni)
            return k(v[1], v[0])
        if isinstance(e, ast.Attribute) and isinstance(e.value, ast.Name) and e.value.id == "math" and e.attr == "e":
            self.m.need("math")
            return k("(NFlt float_e)", "num")
        if isinstance(e, ast.Attribute) and isinstance(e.value, ast.Name):
            v = self.var(e.value.id)
            if v[0] == "narrowed":
                if e.attr not in v[2]:
                    raise Untranslatable("attribute %s of a %s" % (e.attr, v[1]))
                return k(*v[2][e.attr])
            if v[0] == "num" and e.attr in ("numerator", "denominator"):
                return k("(p_%s %s)" % (e.attr, v[1]), "num")
            raise Untranslatable("attribute %s of a %s" % (e.attr, v[0]))
        if isinstance(e, ast.Compare) and len(e.ops) == 1:
            op = type(e.ops[0])
            rhs = e.comparators[0]
            if isinstance(rhs, ast.Name) and rhs.id == "Number" and op is ast.Eq:
                self.m.need("Number")
                return self.atom(e.left, lambda a, ta: self.typed(ta, "ktype", "== Number") or k("(ktype_eqb %s TNumber)" % a, "bool"))
            if op not in CMP:
                raise Untranslatable("comparison %s" % op.__name__)
            return self.atoms([e.left, rhs], lambda ats: self.typed(ats[0][1], "num", "comparison") or
                              self.typed(ats[1][1], "num", "comparison") or
                              k("(%s %s %s)" % (CMP[op], ats[0][0], ats[1][0]), "bool"))
        if isinstance(e, ast.UnaryOp) and isinstance(e.op, ast.Not):
            return self.atom(e.operand, lambda a, ta: k("(negb %s)" % self.truth(a, ta), "bool"))
        if isinstance(e, ast.BinOp):
            if isinstance(e.op, ast.Pow):
                raise Untranslatable("** outside tail position")
            if type(e.op) not in BINOP:
                raise Untranslatable("operator %s" % type(e.op).__name__)
            f = BINOP[type(e.op)]
            return self.atoms([e.left, e.right], lambda ats: self.typed(ats[0][1], "num", f) or self.typed(ats[1][1], "num", f) or
                              self.effect("(%s %s %s)" % (f, ats[0][0], ats[1][0]), "num", k, tail))
        if isinstance(e, ast.IfExp):
            # c evaluated first; both branches must be pure values of one type
            def branches(c):
                a = self.pure(e.body)
                b = self.pure(e.orelse)
                if a[1] != b[1]:
                    raise Untranslatable("conditional expression with branches of different types")
                return k("(if %s then %s else %s)" % (c, a[0], b[0]), a[1])
            return self.atom(e.test, lambda c, tc: branches(self.truth(c, tc)))
        if isinstance(e, ast.Call):
            return self.call(e, k, tail)
        raise Untranslatable(ast.dump(e)[:80])

    def pure(self, e):
        """value of an expression that needs no bind"""
        out = []
        marker = self.n

        def k(t, ty):
            out.append((t, ty))
            return "@"
        r = self.atom(e, k)
        if r != "@" or self.n != marker:
            raise Untranslatable("a call that may raise where only a pure value can be translated")
        return out[0]

    def typed(self, got, want, what):
        if got != want:
            raise Untranslatable("%s: operand is a %s, a %s is needed" % (what, got, want))
        return None

    def truth(self, text, ty):
        if ty == "bool":
            return text
        if ty == "num":
            return "(p_truthy %s)" % text
        raise Untranslatable("truth value of a %s" % ty)

    def call(self, e, k, tail=False):
        if e.keywords:
            raise Untranslatable("keyword arguments")
        f = e.func
        # dispatch("name", (args,))
        if isinstance(f, ast.Name) and f.id == "dispatch":
            self.m.need("dispatch")
            if len(e.args) != 2 or not (isinstance(e.args[0], ast.Constant) and isinstance(e.args[0].value, str)) \
                    or not isinstance(e.args[1], ast.Tuple):
                raise Untranslatable("dispatch call shape")
            key = (e.args[0].value, len(e.args[1].elts))
            if key not in DISPATCH:
                raise Untranslatable("dispatch of %r/%d has no number-level model operation listed" % key)

            def go(ats):
                for t, ty in ats:
                    self.typed(ty, "num", "dispatch argument")
                return self.effect("(%s %s)" % (DISPATCH[key], " ".join(t for t, _ in ats)), "num", k, tail)
            return self.atoms(list(e.args[1].elts), go)
        # a function-valued parameter
        if isinstance(f, ast.Name) and f.id in self.env and self.env[f.id][0] == "fn2bool":
            return self.atoms(list(e.args), lambda ats: (len(ats) == 2 and all(ty == "num" for _, ty in ats)) and
                              k("(%s %s %s)" % (self.env[f.id][1], ats[0][0], ats[1][0]), "bool") or self.bad("call of %s" % f.id))
        if isinstance(f, ast.Name) and f.id in self.env:
            raise Untranslatable("call of the local %s" % f.id)
        # isinstance on a num
        if isinstance(f, ast.Name) and f.id == "isinstance":
            if len(e.args) != 2 or not isinstance(e.args[0], ast.Name):
                raise Untranslatable("isinstance shape")
            v = self.var(e.args[0].id)
            cls = self.classname(e.args[1])
            if v[0] == "num" and cls in ("float", "frac", "int"):
                if cls == "frac":
                    self.m.need("frac")
                elif cls in self.m.bind:
                    raise Untranslatable("%s is rebound at module level" % cls)
                return k("(p_is_%s %s)" % (cls, v[1]), "bool")
            raise Untranslatable("isinstance(%s: %s, %s) outside an if-test" % (e.args[0].id, v[0], cls))
        # builtins and math
        if isinstance(f, ast.Name) and f.id == "int" and len(e.args) == 1:
            if "int" in self.m.bind:
                raise Untranslatable("int is rebound at module level")
            return self.atom(e.args[0], lambda a, ta: self.typed(ta, "num", "int()") or k("(p_int %s)" % a, "num"))
        if isinstance(f, ast.Name) and f.id == "frac" and len(e.args) == 2:
            self.m.need("frac")
            return self.atoms(list(e.args), lambda ats: self.typed(ats[0][1], "num", "frac()") or self.typed(ats[1][1], "num", "frac()") or
                              self.effect("(p_frac %s %s)" % (ats[0][0], ats[1][0]), "num", k, tail))
        if isinstance(f, ast.Attribute) and isinstance(f.value, ast.Name) and f.value.id == "math":
            self.m.need("math")
            if f.attr == "modf" and len(e.args) == 1:
                return self.atom(e.args[0], lambda a, ta: self.typed(ta, "num", "math.modf") or k("(p_modf %s)" % a, "pair"))
            raise Untranslatable("math.%s outside tail position" % f.attr)
        # method of a narrowed Combinatoric
        if isinstance(f, ast.Attribute) and isinstance(f.value, ast.Name) and f.attr == "resolve" and not e.args:
            v = self.var(f.value.id)
            if v[0] == "narrowed" and v[1] == "Combinatoric":
                return self.effect("(resolve %s %s)" % (v[2]["ns"][0], v[2]["ds"][0]), "num", k, tail)
            raise Untranslatable(".resolve() of a %s" % v[0])
        # constructor
        if isinstance(f, ast.Name) and f.id == "Quantity" and len(e.args) == 2:
            self.m.need("Quantity")
            return self.atoms(list(e.args), lambda ats: self.typed(ats[0][1], "num", "Quantity()") or self.typed(ats[1][1], "dimvec", "Quantity()") or
                              k("(VQ %s %s)" % (ats[0][0], ats[1][0]), "qval"))
        # another translated function
        if isinstance(f, ast.Name):
            d = self.callee(f.id)
            if d["result"][0] == "R":
                raise Untranslatable("call of %s outside tail position" % f.id)
            return self.atoms(list(e.args), lambda ats: self.apply(d, ats, k, tail))
        raise Untranslatable("call " + ast.dump(f)[:60])

    def bad(self, what):
        raise Untranslatable(what)

    def callee(self, name):
        d = next((x for x in FUNS if x["name"] == name and "closure" not in x), None)
        if d is None:
            raise Untranslatable("call of %s, which is not in the translated set" % name)
        if d["mod"] == self.m.short:
            if self.m.bound_to(name) != "def":
                raise Untranslatable("%s is not the module-level def" % name)
        else:
            self.m.need(name)
        if name not in self.done:
            raise Untranslatable("callee %s was not translated" % name)
        return d

    def args_text(self, d, ats):
        if len(ats) != len(d["params"]):
            raise Untranslatable("arity of %s" % d["name"])
        out = []
        for (t, ty), want in zip(ats, d["params"]):
            if want in CLASSES:
                uni, ctor, fields = CLASSES[want]
                m = re.fullmatch(r"\(%s (.*)\)" % ctor, t)
                if ty != uni or not m:
                    raise Untranslatable("argument of %s is not known to be a %s" % (d["name"], want))
                out.append(m.group(1))
            else:
                self.typed(ty, want, "argument of %s" % d["name"])
                out.append(t)
        return " ".join(out)

    def apply(self, d, ats, k, tail=False):
        text = "(g_%s %s)" % (d["name"], self.args_text(d, ats))
        if d["result"][0] == "pure":
            return k(text, d["result"][1])
        return self.effect(text, d["result"][1], k, tail)

    def classname(self, e):
        if isinstance(e, ast.Name):
            return e.id
        if isinstance(e, ast.Attribute) and isinstance(e.value, ast.Name) and e.value.id == "numbers" and e.attr == "Number":
            self.m.need("numbers")
            return "Number"
        raise Untranslatable("class expression " + ast.dump(e)[:60])

    # -- tail expressions
    def tail(self, e):
        """`return e`"""
        if self.mode == "R":
            if isinstance(e, ast.BinOp) and isinstance(e.op, ast.Pow):
                return self.atoms([e.left, e.right], lambda ats: self.typed(ats[0][1], "num", "**") or self.typed(ats[1][1], "num", "**") or
                                  "(ext_pow E %s %s)" % (ats[0][0], ats[1][0]))
            if isinstance(e, ast.Call) and not e.keywords and isinstance(e.func, ast.Attribute) \
                    and isinstance(e.func.value, ast.Name) and e.func.value.id == "math" and e.func.attr in ("log", "sqrt"):
                self.m.need("math")
                want = 2 if e.func.attr == "log" else 1
                if len(e.args) != want:
                    raise Untranslatable("math.%s with %d arguments" % (e.func.attr, len(e.args)))
                return self.atoms(list(e.args), lambda ats: [self.typed(ty, "num", "math." + e.func.attr) for _, ty in ats] and
                                  "(ext_%s E %s)" % (e.func.attr, " ".join(t for t, _ in ats)))
            if isinstance(e, ast.Call) and not e.keywords and isinstance(e.func, ast.Name) and e.func.id not in self.env:
                d = next((x for x in FUNS if x["name"] == e.func.id and x["result"][0] == "R"), None)
                if d is not None:
                    d = self.callee(e.func.id)
                    return self.atoms(list(e.args), lambda ats: "(g_%s E %s)" % (d["name"], self.args_text(d, ats)))
        # a call that may raise, of the declared result type, is returned as it is (tail call)
        return self.atom(e, self.ret, tail=True)

    # -- conditions
    def cond(self, e, kt, kf):
        if isinstance(e, ast.BoolOp):
            vals = list(e.values)
            if isinstance(e.op, ast.And):
                if len(vals) == 1:
                    return self.cond(vals[0], kt, kf)
                return self.cond(vals[0], lambda: self.cond(ast.BoolOp(op=e.op, values=vals[1:]), kt, kf), kf)
            if len(vals) == 1:
                return self.cond(vals[0], kt, kf)
            return self.cond(vals[0], kt, lambda: self.cond(ast.BoolOp(op=e.op, values=vals[1:]), kt, kf))
        if isinstance(e, ast.UnaryOp) and isinstance(e.op, ast.Not):
            return self.cond(e.operand, kf, kt)
        if isinstance(e, ast.Call) and isinstance(e.func, ast.Name) and e.func.id == "isinstance" and not e.keywords \
                and len(e.args) == 2 and isinstance(e.args[0], ast.Name):
            x = e.args[0].id
            v = self.var(x)
            if v[0] in ("qval", "cval"):
                cls = self.classname(e.args[1])
                if "isinstance" in self.m.bind:
                    raise Untranslatable("isinstance is rebound at module level")
                if cls not in CLASSES or CLASSES[cls][0] != v[0]:
                    raise Untranslatable("isinstance(%s: %s, %s)" % (x, v[0], cls))
                if cls != "Number":
                    self.m.need(cls)
                uni, ctor, fields = CLASSES[cls]
                names = {f[0]: ("%s_%s" % (v[1], f[1]), f[2]) for f in fields}
                for nm, _ in names.values():
                    if nm in self.env:
                        raise Untranslatable("generated name %s clashes with a local" % nm)
                saved = self.env[x]
                self.env[x] = ("narrowed", cls, names)
                try:
                    then = kt()
                finally:
                    self.env[x] = saved
                return "(match %s with %s %s => %s | _ => %s end)" % (
                    v[1], ctor, " ".join(names[f[0]][0] for f in fields), then, kf())
        return self.atom(e, lambda c, tc: "(if %s then %s else %s)" % (self.truth(c, tc), kt(), kf()))

    # -- statements
    def returns(self, stmts):
        if not stmts:
            return False
        last = stmts[-1]
        if isinstance(last, (ast.Return, ast.Raise)):
            return True
        if isinstance(last, ast.If):
            return self.returns(last.body) and bool(last.orelse) and self.returns(last.orelse)
        if isinstance(last, ast.Try):
            return self.returns(last.body) and all(self.returns(h.body) for h in last.handlers) and not last.orelse and not last.finalbody
        return False

    def block(self, stmts):
        if not stmts:
            raise Untranslatable("a path falls off the end of the function (returns None)")
        s, rest = stmts[0], stmts[1:]
        if isinstance(s, ast.Expr) and isinstance(s.value, ast.Constant) and isinstance(s.value.value, str):
            return self.block(rest)
        if isinstance(s, ast.Return):
            if s.value is None:
                raise Untranslatable("bare return")
            return self.tail(s.value)
        if isinstance(s, ast.Raise):
            if s.cause is not None or not (isinstance(s.exc, ast.Call) and isinstance(s.exc.func, ast.Name)):
                raise Untranslatable("raise shape")
            self.message(s.exc)
            return self.raise_(s.exc.func.id)
        if isinstance(s, ast.If):
            return self.cond(s.test,
                             lambda: self.block(list(s.body) + ([] if self.returns(s.body) else rest)),
                             lambda: self.block(list(s.orelse) + ([] if s.orelse and self.returns(s.orelse) else rest)))
        if isinstance(s, ast.Assign) and len(s.targets) == 1:
            t = s.targets[0]
            if isinstance(t, ast.Name):
                name = self.ident(t.id)

                def k(text, ty):
                    if name in self.env:
                        raise Untranslatable("reassignment of %s" % name)
                    self.env[name] = (ty, name)
                    try:
                        return "(let %s := %s in %s)" % (name, text, self.block(rest))
                    finally:
                        del self.env[name]
                return self.atom(s.value, k)
            if isinstance(t, ast.Tuple) and len(t.elts) == 2 and all(isinstance(x, ast.Name) for x in t.elts):
                a, b = (self.ident(x.id) for x in t.elts)

                def k2(text, ty):
                    self.typed(ty, "pair", "tuple assignment")
                    if a in self.env or b in self.env or a == b:
                        raise Untranslatable("reassignment in tuple assignment")
                    self.env[a] = ("num", a)
                    self.env[b] = ("num", b)
                    try:
                        return "(let '(%s, %s) := %s in %s)" % (a, b, text, self.block(rest))
                    finally:
                        del self.env[a], self.env[b]
                return self.atom(s.value, k2)
        if isinstance(s, ast.Try):
            if self.mode != "R" or s.orelse or s.finalbody or len(s.handlers) != 1 or rest:
                raise Untranslatable("try statement shape")
            h = s.handlers[0]
            if not isinstance(h.type, ast.Name) or h.type.id not in EXNS or h.type.id in self.m.bind:
                raise Untranslatable("except clause")
            if len(s.body) != 1 or not isinstance(s.body[0], ast.Return):
                raise Untranslatable("try body is not a single return")
            if len(h.body) != 1 or not isinstance(h.body[0], ast.Raise):
                raise Untranslatable("except body is not a single raise")
            return "(catch_ E %s %s %s)" % (self.block(s.body), h.type.id, self.block(h.body))
        raise Untranslatable("statement " + type(s).__name__)

    def message(self, call):
        """the argument of an exception constructor: a constant or an f-string over plain names (formatting a number
        does not raise); anything else could have an effect of its own"""
        for a in call.args:
            if isinstance(a, ast.Constant):
                continue
            if isinstance(a, ast.JoinedStr) and all(
                    isinstance(v, ast.Constant) or (isinstance(v, ast.FormattedValue) and isinstance(v.value, ast.Name)
                                                    and v.format_spec is None and v.value.id in self.env)
                    for v in a.values):
                continue
            raise Untranslatable("exception message is not a constant or a plain f-string")
        if call.keywords:
            raise Untranslatable("exception keywords")

    # -- a whole definition
    def define(self):
        d = self.decl
        fn = self.m.function(d["name"])
        sig = []
        if "closure" in d:
            # def outer(free...): def inner(params): ...; return inner
            body = [s for s in fn.body if not (isinstance(s, ast.Expr) and isinstance(s.value, ast.Constant))]
            if len(body) != 2 or not isinstance(body[0], ast.FunctionDef) or body[0].name != d["closure"] \
                    or not (isinstance(body[1], ast.Return) and isinstance(body[1].value, ast.Name) and body[1].value.id == d["closure"]):
                raise Untranslatable("%s is not `def %s(..): ...; return %s`" % (d["name"], d["closure"], d["closure"]))
            self.plain_args(fn, len(d["free"]))
            for a, ty in zip(fn.args.args, d["free"]):
                nm = self.ident(a.arg)
                self.env[nm] = (ty, nm)
                sig.append("(%s : %s)" % (nm, COQTY[ty]))
            self.free_names = [a.arg for a in fn.args.args]
            self.qual = "%s.<locals>.%s" % (d["name"], d["closure"])
            fn = body[0]
        self.plain_args(fn, len(d["params"]))
        for a, ty in zip(fn.args.args, d["params"]):
            nm = self.ident(a.arg)
            if nm in self.env:
                raise Untranslatable("duplicate parameter")
            if ty in CLASSES:
                uni, ctor, fields = CLASSES[ty]
                names = {f[0]: ("%s_%s" % (nm, f[1]), f[2]) for f in fields}
                self.env[nm] = ("narrowed", ty, names)
                sig += ["(%s : %s)" % (names[f[0]][0], COQTY[f[2]]) for f in fields]
            else:
                self.env[nm] = (ty, nm)
                sig.append("(%s : %s)" % (nm, COQTY[ty]))
        text = self.block(list(fn.body))
        if self.mode == "pure":
            rt = COQTY[self.rty]
        elif self.mode == "res":
            rt = "res %s" % COQTY[self.rty]
        else:
            rt = "R E"
            sig = ["(E : ralg)"] + sig
        return "Definition g_%s %s : %s :=\n  %s." % (d["name"], " ".join(sig), rt, text)

    def plain_args(self, fn, n):
        a = fn.args
        if a.vararg or a.kwarg or a.kwonlyargs or a.defaults or a.kw_defaults or getattr(a, "posonlyargs", []) or len(a.args) != n:
            raise Untranslatable("parameter list of %s" % fn.name)
        if fn.decorator_list:
            raise Untranslatable("decorators on %s" % fn.name)


# ------------------------------------------------------------------ registry-key tables
PY_IMPL2 = [("_operator.add", "p_add", "res"), ("_operator.sub", "p_sub", "res"), ("_operator.mul", "p_mul", "res"),
            ("_operator.truediv", "p_truediv", "res"), ("_operator.mod", "p_mod", "res")]
PY_CMP = ["lt", "le", "eq", "ne", "gt", "ge"]
PY_IMPL1 = [("math.sin", "ext_sin", "R"), ("math.cos", "ext_cos", "R"), ("math.tan", "ext_tan", "R"),
            ("builtins.abs", "p_abs", "pure"), ("math.floor", "p_floor", "pure"), ("math.ceil", "p_ceil", "pure"),
            ("builtins.round", "p_round", "pure"), ("class:builtins.int", "p_int", "pure"),
            ("class:builtins.float", "p_float", "res"), ("_operator.pos", "p_pos", "pure"), ("_operator.neg", "p_neg", "pure")]


def row(key, f, kind, arity):
    xs = "a b" if arity == 2 else "a"
    if kind == "R":
        body = "%s E" % f if f.startswith("ext_") else "%s E" % f
        return '  (%s, %s)' % (C_str(key), body)
    if kind == "res":
        return '  (%s, fun %s => bindR E (%s %s) (ret_ E))' % (C_str(key), xs, f, xs)
    return '  (%s, fun %s => ret_ E (%s %s))' % (C_str(key), xs, f, xs)


def C_str(s):
    return '"' + s.replace('"', '""') + '"'


def generate(dump):
    mods = {}
    L = ["(* GENERATED by harness/trans_num.py from src/ka/types.py and src/ka/functions.py (Python AST) -- do not edit",
         MAPPING.rstrip("\n"), "*)",
         "From Ka Require Import Model.Elem.", "Local Open Scope Q_scope.", PRELUDE]
    done = {}
    notes = []
    for d in FUNS:
        try:
            if d["mod"] not in mods:
                mods[d["mod"]] = Module(d["mod"])
            fn = Fn(mods[d["mod"]], d, done)
            text = fn.define()
            done[d["name"]] = fn
            L += [text, ""]
        except Untranslatable as x:
            L += ["(* UNTRANSLATABLE %s: %s *)" % (d["name"], str(x).replace("*)", "* )").replace("(*", "( *")), ""]
        except (OSError, SyntaxError) as x:
            L += ["(* UNTRANSLATABLE %s: cannot read the source: %s *)" % (d["name"], repr(x).replace("*)", "* )").replace("(*", "( *")), ""]
    # tables keyed by the registry's implementation keys
    rows2 = [row(k, f, kind, 2) for k, f, kind in PY_IMPL2]
    decl = {d["name"]: d for d in FUNS}
    for name in ("fraction_divide", "strict_pow", "ka_log"):
        if name in done:
            d = decl[name]
            rows2.append(row("ka.%s.%s" % (d["mod"], name), "g_" + name, "R" if d["result"][0] == "R" else d["result"][0], 2))
    if "intify" in done:
        f = done["intify"]
        for op in PY_CMP:
            rows2.append('  (%s, fun a b => ret_ E (g_intify p_%s a b))' % (
                C_str("ka.functions.%s[%s=_operator.%s]" % (f.qual, f.free_names[0], op)), op))
    rows1 = [row(k, f, kind, 1) for k, f, kind in PY_IMPL1]
    for name in ("ka_sqrt", "ka_ln", "ka_log10", "ka_log2"):
        if name in done:
            rows1.append(row("ka.functions.%s" % name, "g_" + name, "R", 1))
    L.append("Local Open Scope string_scope.")
    L.append("Definition g_impl2 (E : ralg) : list (string * (num -> num -> R E)) := [\n%s\n]." % ";\n".join(rows2))
    L.append("Definition g_impl1 (E : ralg) : list (string * (num -> R E)) := [\n%s\n]." % ";\n".join(rows1))
    return "\n".join(L) + "\n"


GENERATES = {"GenNumSrc.v": generate}

if __name__ == "__main__":
    sys.stdout.write(generate(None))
