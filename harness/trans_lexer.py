"""Translator plugin "lexer": the tokeniser of ka/tokens.py (tokenise, skip_whitespace, read_token, read_string,
read_instant, read_num_token) -> coq/Gen/GenLexerSrc.v, regenerated on every run from the Python AST of the tree under
check.  coq/GenFacts/LexerSrcFacts.v proves the hand-written model (coq/Model/Lexer.v) equal to these definitions.

Fail-closed: a construct outside the subset below raises Untranslatable and the function gets NO definition (a comment
`(* UNTRANSLATABLE name: why *)` instead), so the fact about it cannot be proved; a function that calls an
untranslatable one is untranslatable too.  Nothing is repaired or guessed: operand order, comparison, constant,
branch order, exception class, the index an exception carries and the place where it is raised are what the AST says.

The trusted construct mapping is the text of MAPPING and the Gallina text of PRELUDE below (both are copied into the
generated file)."""
import ast, os, sys
sys.path.insert(0, os.path.dirname(os.path.abspath(__file__)))
import common as C
from pytrans import Untranslatable

MAPPING = r"""
   TRUSTED CONSTRUCT MAPPING (everything else is checked by GenFacts/LexerSrcFacts.v).  The fixed Gallina terms named
   here are defined below under "the fixed terms of the construct mapping"; nothing else in this file is hand-written.

   values      a Python str is a `text` (list of code points, Model/Lexer.v); a str of length one obtained by
               subscripting or by iterating over a str is a code point (N); indices and lengths are `nat`; other Python
               ints are Z; `m.group(k)` is an `option text` (None when the group did not take part); a regex match
               result is an `option rmatch`; the value of a number token is a `pyval` (int / Fraction / float /
               infinity).  Argument and result kinds are declared per function in harness/trans_lexer.py (DECL); every
               Python variable x is the Gallina variable v_x.
   results     every translated function returns `pres T`: `return e` is `POk e`; `raise C(e)` for a class C of tokens.py
               whose __init__(self, index) stores the index (checked on the AST) is `PRaise (XLex C e)` with the model's
               constructor of the same name; falling off the end of a function that returns tokens or None is `POk None`.
   sequencing  every operation that can raise is bound with `pdo t <- op; ...` in source order: operands left to right,
               arguments left to right, statements top to bottom; `a and b` evaluates b only when a is true, `a or b`
               only when a is false (`if a then B else POk false` / `if a then POk true else B`).
   raising operations
               s[e]            idx s e          IndexError when e >= len(s)
               s[-1]           idx_last s       IndexError when s is empty
               a - b on indices  psub a b       (outside the mapping, XUnmodelled, when b > a)
               m.group(k)      grp m k          IndexError when the pattern has no group k
               text operations (slice, subscript, iteration, int, float) on a group that is None: need_text, TypeError
               int(t) int(t, b) int(t, base=b) float(t) a ** b  Fraction(a, b)  x *= y   see "numbers" below
   pure operations
               len(t) List.length t;  s[a:b] slice s a b = firstn (b - a) (skipn a s);  t[k:] skipn k t;
               t[:-1] removelast t;  s.startswith(t, i) is (i <=? len s) && starts_with t (skipn i s);
               c.isspace() / c.isalpha() / c.isnumeric() are the Section variables isspace / isalpha / isnumeric
               (CPython's Unicode database, as in the model);  == on a character and a one-character literal is N.eqb,
               on strings text_eqb (ot_eqb when one side is a group: None equals no string);  "c" in t is
               existsb (N.eqb c) t;  t in ALPHA_TOKENS is mem t atoks;  x in (a, b) is py_eq x a || py_eq x b;
               truth of a group is ot_truthy (None and "" are false), of a match result / `x is None` a match on the option
               (the variable is the match object / the token itself in the branch where it is not None).
   tables      CONST_TOKENS is the Section variable ctoks (iterated in list order), ALPHA_TOKENS is atoks (both are
               instantiated with the regenerated tables gen_ctoks / gen_atoks of Model/Lexer.v in the facts).
   regexes     PATTERN.match(s, i) for the three module-level compiled patterns (each assigned exactly once; their pattern
               strings are re-pinned in LexerSrcFacts.v against the live ones of Gen/GenTokens.v, which TokenTableFacts.v
               pins as strings):
                 VAR_REGEX        var_match s i     ident_start / takew ident_char of the model
                 BASED_INT_REGEX  based_match s i   based_window / is_base_char / takew is_hex of the model
                 NUM_REGEX        num_match s i     takew/dropw is_digit, starts_dot, exp_match of the model
               m.start() m.end() m.group(k) are the projections m_start m_end grp.  That CPython's `re` computes these
               functions for these patterns is trusted (and exercised by the side-by-side runs of the C11 check).
   numbers     int(t)       py_int t        [+-]?[0-9]+ -> Z by dec_val of the model; anything else ValueError
               int(t, b)    py_int_base t b hex digits by horner of the model: a digit >= b is ValueError.  Exact for
                                            CPython when every digit is below b (CPython also accepts a base prefix
                                            such as 0b inside t; its letter is then a digit >= b, the case the source
                                            excludes with its own check before calling int)
               float(t)     py_float t      for a spelling digits[.digits][e[+-]digits]: the exact rational of the
                                            spelling (the model's idealisation of a float, mantissa / 10^e of the model),
                                            infinity when it is at or above the model's flt_overflow; anything else
                                            ValueError.  float("inf") / float("-inf") are VInf false / VInf true
               a ** b       py_pow a b      Z.pow for b >= 0 (XUnmodelled otherwise: Python gives a float)
               frac(a, b)   py_frac a b     fractions.Fraction (checked: `from fractions import Fraction as frac`),
                                            the reduced a/b for b > 0 (XUnmodelled otherwise)
               x *= y       py_mul x y      exact on int and Fraction (a Fraction result is reduced); XUnmodelled on floats
   tokens      Token(tag, b, e[, key=v]) is mkTok tag b e val (checked on the AST: Token.__init__ stores its three
               positional parameters in tag / begin_index_incl / end_index_excl and the keywords in _meta);
               Tokens.NUM / STRING / INSTANT / VAR are the tags TNum / TStr / TInst / TVar, a string variable t is
               TConst t; no keyword is VNone, a text keyword VText, a number keyword VLit (lit_of: infinity is outside
               the model).  The keyword NAMES are listed in g_token_ctors and pinned in the facts.  x.end_index_excl is
               t_end x.  tokens.append(x) rebinds tokens to tokens ++ [x].
   try         `try: B except E: H` for E in ValueError / OverflowError is `pcatch B is_E H`: H replaces the outcome of B
               exactly when B raises E.
   loops       `while c: B` is a Fixpoint on explicit fuel whose parameters are all variables in scope; it is entered with
               fuel 1 + len(s) and answers PRaise XFuel when the fuel runs out (an outcome the facts show to coincide with
               the model's own out-of-fuel, which Proofs/LexerProofs.v excludes); the statements after the loop are the
               else-branch of the loop test.  `for t in CONST_TOKENS: B` is a structural Fixpoint over the list;
               `any(c for x in t)` is anyM (left to right, stops at the first true or the first exception).
   if          an `if` with several paths that fall through to the following statements binds those statements once as a
               local function k<n> of the variables assigned on the way (a join point).
"""

PRELUDE = r"""
(* --- the fixed terms of the construct mapping *)
Inductive pyexn :=
| XLex (e : lexerr) (i : nat)
| XValueError | XOverflowError | XIndexError | XTypeError
| XUnmodelled | XFuel.
Inductive pres (A : Type) : Type := POk (a : A) | PRaise (x : pyexn).
Arguments POk {A} a.
Arguments PRaise {A} x.
Definition pbind {A B : Type} (r : pres A) (f : A -> pres B) : pres B :=
  match r with POk a => f a | PRaise x => PRaise x end.
Notation "'pdo' x <- r ; k" := (pbind r (fun x => k))
  (at level 200, x pattern, r at level 100, k at level 200).
Definition is_ValueError (x : pyexn) : bool := match x with XValueError => true | _ => false end.
Definition is_OverflowError (x : pyexn) : bool := match x with XOverflowError => true | _ => false end.
Definition pcatch {A : Type} (r : pres A) (sel : pyexn -> bool) (h : pres A) : pres A :=
  match r with POk a => POk a | PRaise x => if sel x then h else PRaise x end.
Fixpoint anyM {A : Type} (f : A -> pres bool) (l : list A) : pres bool :=
  match l with
  | [] => POk false
  | x :: r => pdo b <- f x; if b then POk true else anyM f r
  end.

Definition idx (s : text) (k : nat) : pres N :=
  match nth_error s k with Some c => POk c | None => PRaise XIndexError end.
Definition idx_last (s : text) : pres N :=
  match s with [] => PRaise XIndexError | _ :: _ => POk (last s 0%N) end.
Definition slice (s : text) (a b : nat) : text := firstn (b - a) (skipn a s).
Definition psub (a b : nat) : pres nat := if Nat.leb b a then POk (a - b) else PRaise XUnmodelled.
Definition need_text (o : option text) : pres text :=
  match o with Some t => POk t | None => PRaise XTypeError end.
Definition ot_truthy (o : option text) : bool := match o with Some (_ :: _) => true | _ => false end.
Definition ot_eqb (t : text) (o : option text) : bool :=
  match o with Some u => text_eqb t u | None => false end.

(* regex match objects *)
Record rmatch := mkM { m_start : nat; m_end : nat; m_groups : list (option text) }.
Definition grp (m : rmatch) (k : nat) : pres (option text) :=
  match nth_error (m_groups m) k with Some g => POk g | None => PRaise XIndexError end.
(* VAR_REGEX.match(s, i) *)
Definition var_match (s : text) (i : nat) : option rmatch :=
  match skipn i s with
  | c :: t =>
      if ident_start c
      then let g := c :: takew ident_char t in Some (mkM i (i + List.length g) [Some g])
      else None
  | [] => None
  end.
(* BASED_INT_REGEX.match(s, i) *)
Definition based_match (s : text) (i : nat) : option rmatch :=
  let r := skipn i s in
  if based_window r then
    match r with
    | c0 :: bc :: t =>
        let hs := takew is_hex t in
        Some (mkM i (i + (2 + List.length hs)) [Some (c0 :: bc :: hs); Some [bc]; Some hs])
    | _ => None
    end
  else None.
(* NUM_REGEX.match(s, i): group 1 = group 2 (digits first) or group 3 (dot first), group 4 the exponent *)
Definition num_match (s : text) (i : nat) : option rmatch :=
  let r := skipn i s in
  let d1 := takew is_digit r in
  let r1 := dropw is_digit r in
  let dot := starts_dot r1 in
  let r2 := if dot then tl r1 else r1 in
  let d2 := takew is_digit r2 in
  let r3 := dropw is_digit r2 in
  if is_nil d1 && is_nil d2 then None
  else
    let g1 := (d1 ++ (if dot then [ch_dot] else []) ++ d2)%list in
    let g4 := match exp_match r3 with Some (_, _, k) => Some (firstn k r3) | None => None end in
    let g0 := (g1 ++ match g4 with Some t => t | None => [] end)%list in
    Some (mkM i (i + List.length g0)
              [Some g0; Some g1; (if is_nil d1 then None else Some g1); (if is_nil d1 then Some g1 else None); g4]).

(* number values *)
Inductive pyval := VInt (z : Z) | VFrac (q : Q) | VFloat (q : Q) | VInf (neg : bool).
Definition digits_ok (ds : text) : bool := negb (is_nil ds) && forallb is_digit ds.
Definition py_int (t : text) : pres Z :=
  match t with
  | c :: r =>
      if (c =? ch_minus)%N then (if digits_ok r then POk (- dec_val r)%Z else PRaise XValueError)
      else if (c =? ch_plus)%N then (if digits_ok r then POk (dec_val r) else PRaise XValueError)
      else if digits_ok t then POk (dec_val t) else PRaise XValueError
  | [] => PRaise XValueError
  end.
Definition py_int_base (t : text) (b : Z) : pres Z :=
  if is_nil t || negb (forallb is_hex t) then PRaise XValueError
  else match horner b t 0%Z with Some z => POk z | None => PRaise XValueError end.
Definition flt_of (q : Q) : pyval := if Qle_bool flt_overflow q then VInf false else VFloat (Qred q).
Definition py_float (t : text) : pres pyval :=
  let d1 := takew is_digit t in
  let r1 := dropw is_digit t in
  let dot := starts_dot r1 in
  let r2 := if dot then tl r1 else r1 in
  let d2 := takew is_digit r2 in
  let r3 := dropw is_digit r2 in
  if is_nil d1 && is_nil d2 then PRaise XValueError
  else
    match r3 with
    | [] => POk (flt_of (mantissa d1 d2))
    | _ :: _ =>
        match exp_match r3 with
        | Some (neg, es, k) =>
            if Nat.eqb k (List.length r3)
            then POk (flt_of (if neg then (mantissa d1 d2 / inject_Z (10 ^ dec_val es))%Q
                              else (mantissa d1 d2 * inject_Z (10 ^ dec_val es))%Q))
            else PRaise XValueError
        | None => PRaise XValueError
        end
    end.
Definition py_pow (a b : Z) : pres Z := if (b <? 0)%Z then PRaise XUnmodelled else POk (a ^ b)%Z.
Definition py_frac (a b : Z) : pres pyval :=
  if (0 <? b)%Z then POk (VFrac (Qred (a # Z.to_pos b))) else PRaise XUnmodelled.
Definition py_mul (a b : pyval) : pres pyval :=
  match a, b with
  | VInt x, VInt y => POk (VInt (x * y)%Z)
  | VInt x, VFrac q => POk (VFrac (Qred (inject_Z x * q)%Q))
  | VFrac q, VInt x => POk (VFrac (Qred (q * inject_Z x)%Q))
  | VFrac p, VFrac q => POk (VFrac (Qred (p * q)%Q))
  | _, _ => PRaise XUnmodelled
  end.
Definition pv_Q (a : pyval) : Q :=
  match a with VInt z => inject_Z z | VFrac q => q | VFloat q => q | VInf _ => 0%Q end.
Definition py_eq (a b : pyval) : bool :=
  match a, b with
  | VInf x, VInf y => Bool.eqb x y
  | VInf _, _ => false
  | _, VInf _ => false
  | _, _ => Qeq_bool (pv_Q a) (pv_Q b)
  end.
Definition lit_of (a : pyval) : pres lit :=
  match a with
  | VInt z => POk (LInt z) | VFrac q => POk (LFrac q) | VFloat q => POk (LFlt q)
  | VInf _ => PRaise XUnmodelled
  end.
"""

# ---------------------------------------------------------------------------------------------------------------
COQTY = {"nat": "nat", "Z": "Z", "chr": "N", "text": "text", "otext": "(option text)", "bool": "bool",
         "match": "rmatch", "omatch": "(option rmatch)", "token": "token", "otoken": "(option token)",
         "tokens": "(list token)", "pyval": "pyval"}
# kinds of the positional parameters and of the result; declared kinds of locals whose first binding is narrower
DECL = {
    "skip_whitespace": dict(params=["nat", "text"], ret="nat"),
    "read_string": dict(params=["nat", "text"], ret="token"),
    "read_instant": dict(params=["nat", "text"], ret="token"),
    "read_num_token": dict(params=["nat", "text"], ret="token", locals={"value": "pyval", "base": "Z", "exponent": "Z"}),
    "read_token": dict(params=["nat", "text"], ret="otoken"),
    "tokenise": dict(params=["text"], ret="tokens", locals={"tokens": "tokens"}),
}
ORDER = ["skip_whitespace", "read_string", "read_instant", "read_num_token", "read_token", "tokenise"]
REGEX = {"VAR_REGEX": "var_match", "BASED_INT_REGEX": "based_match", "NUM_REGEX": "num_match"}
TAGS = {"NUM": "TNum", "STRING": "TStr", "INSTANT": "TInst", "VAR": "TVar"}
TAG_VALUE_KIND = {"NUM": "pyval", "STRING": "text", "INSTANT": "text", "VAR": "text"}
LEXEXN = ["UnknownTokenError", "BadNumberError", "UnclosedStringError", "UnclosedInstantError"]
CATCHABLE = {"ValueError": "is_ValueError", "OverflowError": "is_OverflowError"}
CLASSES = {"isspace": "isspace", "isalpha": "isalpha", "isnumeric": "isnumeric"}


def coq_str(s):
    return '"' + s.replace('"', '""') + '"%string'


def text_lit(s):
    return "[" + "; ".join("%d%%N" % ord(c) for c in s) + "]"


def is_const(e, typ):
    return isinstance(e, ast.Constant) and type(e.value) is typ


def is_neg1(e):
    return isinstance(e, ast.UnaryOp) and isinstance(e.op, ast.USub) and is_const(e.operand, int) and e.operand.value == 1


class K:
    """a continuation: what follows a block.  cheap: emitting it twice duplicates no code; top: it is the end of the
    function body (loops may only stand where the continuation is the function's own)"""
    def __init__(self, fn, cheap=False, top=False):
        self.fn, self.cheap, self.top = fn, cheap, top

    def __call__(self, env):
        return self.fn(env)


class Module:
    """module-level facts of tokens.py the function translation relies on; each is checked on the AST"""
    def __init__(self, tree):
        self.tree = tree
        self.defs = {}
        for n in tree.body:
            if isinstance(n, ast.FunctionDef):
                if n.name in self.defs:
                    self.defs[n.name] = None        # defined twice: unusable
                else:
                    self.defs[n.name] = n
        self.assigned = {}                          # module-level name -> list of value nodes
        for n in ast.walk(tree):
            if isinstance(n, (ast.Global, ast.Nonlocal)):
                for nm in n.names:
                    self.assigned.setdefault(nm, []).append(None)
        for n in tree.body:
            tg = []
            if isinstance(n, ast.Assign):
                for t in n.targets:
                    tg += [x for x in ast.walk(t) if isinstance(x, ast.Name)]
                for x in tg:
                    self.assigned.setdefault(x.id, []).append(n.value if len(n.targets) == 1 and isinstance(n.targets[0], ast.Name) else None)
            elif isinstance(n, (ast.AugAssign, ast.AnnAssign)):
                for x in ast.walk(n.target):
                    if isinstance(x, ast.Name):
                        self.assigned.setdefault(x.id, []).append(None)
            elif isinstance(n, ast.Delete):
                for x in ast.walk(n):
                    if isinstance(x, ast.Name):
                        self.assigned.setdefault(x.id, []).append(None)
            elif not isinstance(n, (ast.FunctionDef, ast.ClassDef, ast.Import, ast.ImportFrom, ast.Expr)):
                # a compound statement at module level: whatever it may bind is not a name the mapping can rely on
                for x in ast.walk(n):
                    if isinstance(x, ast.Name) and isinstance(x.ctx, (ast.Store, ast.Del)):
                        self.assigned.setdefault(x.id, []).append(None)
                    elif isinstance(x, (ast.FunctionDef, ast.ClassDef, ast.AsyncFunctionDef)):
                        self.assigned.setdefault(x.name, []).append(None)
                    elif isinstance(x, (ast.Import, ast.ImportFrom)):
                        for a in x.names:
                            self.assigned.setdefault((a.asname or a.name).split(".")[0], []).append(None)
        self.imports = {}
        for n in tree.body:
            if isinstance(n, ast.ImportFrom):
                for a in n.names:
                    self.imports[a.asname or a.name] = (n.module, a.name)
            elif isinstance(n, ast.Import):
                for a in n.names:
                    self.imports[a.asname or a.name] = (a.name, None)
        self.classes = {n.name: n for n in tree.body if isinstance(n, ast.ClassDef)}
        self.ctors = []                             # (tag name, keyword) of every Token(...) translated

    @staticmethod
    def is_harmless(n):
        return not any(isinstance(x, ast.Name) and isinstance(x.ctx, (ast.Store, ast.Del)) for x in ast.walk(n))

    def single(self, name):
        v = self.assigned.get(name)
        if not v or len(v) != 1 or v[0] is None or name in self.defs or name in self.classes:
            raise Untranslatable("%s is not assigned exactly once at module level" % name)
        return v[0]

    def regex(self, name):
        """-> (pattern string, [flag names]) of NAME = re.compile(pattern[, re.FLAG])"""
        v = self.single(name)
        if self.imports.get("re") != ("re", None) or "re" in self.assigned:
            raise Untranslatable("re is not the regular expression module")
        if not (isinstance(v, ast.Call) and isinstance(v.func, ast.Attribute) and v.func.attr == "compile"
                and isinstance(v.func.value, ast.Name) and v.func.value.id == "re" and not v.keywords
                and 1 <= len(v.args) <= 2 and is_const(v.args[0], str)):
            raise Untranslatable("%s is not re.compile(<string literal>[, flags])" % name)
        flags = []
        if len(v.args) == 2:
            def fl(e):
                if isinstance(e, ast.Attribute) and isinstance(e.value, ast.Name) and e.value.id == "re":
                    return [e.attr]
                if isinstance(e, ast.BinOp) and isinstance(e.op, ast.BitOr):
                    return fl(e.left) + fl(e.right)
                raise Untranslatable("flags of %s" % name)
            flags = fl(v.args[1])
        return v.args[0].value, flags

    def tokens_const(self, attr):
        c = self.classes.get("Tokens")
        if c is None or "Tokens" in self.assigned:
            raise Untranslatable("class Tokens")
        vals = [n.value for n in c.body if isinstance(n, ast.Assign) and any(isinstance(t, ast.Name) and t.id == attr for t in n.targets)]
        if len(vals) != 1 or not is_const(vals[0], str) or any(not isinstance(n, (ast.Assign, ast.Expr, ast.Pass)) for n in c.body):
            raise Untranslatable("Tokens.%s is not one string constant" % attr)
        return vals[0].value

    def const_tokens(self):
        v = self.single("CONST_TOKENS")
        if not isinstance(v, ast.List):
            raise Untranslatable("CONST_TOKENS is not a list display")
        out = []
        for e in v.elts:
            if isinstance(e, ast.Attribute) and isinstance(e.value, ast.Name) and e.value.id == "Tokens":
                out.append(self.tokens_const(e.attr))
            elif is_const(e, str):
                out.append(e.value)
            else:
                raise Untranslatable("CONST_TOKENS element " + ast.dump(e)[:60])
        return out

    def check_alpha_tokens(self):
        v = self.single("ALPHA_TOKENS")
        want = ast.parse("set(t for t in CONST_TOKENS if t.isalpha())", mode="eval").body
        if ast.dump(v) != ast.dump(want):
            raise Untranslatable("ALPHA_TOKENS is not set(t for t in CONST_TOKENS if t.isalpha())")

    def check_token_class(self):
        c = self.classes.get("Token")
        if c is None or "Token" in self.assigned or "Token" in self.defs:
            raise Untranslatable("class Token")
        inits = [n for n in c.body if isinstance(n, ast.FunctionDef) and n.name == "__init__"]
        want = ast.parse("def __init__(self, tag, begin_index_incl, end_index_excl, **kwargs):\n"
                         "    self.tag = tag\n    self.begin_index_incl = begin_index_incl\n"
                         "    self.end_index_excl = end_index_excl\n    self._meta = dict(**kwargs)\n").body[0]
        if len(inits) != 1 or ast.dump(inits[0]) != ast.dump(want) or c.bases or c.keywords or c.decorator_list:
            raise Untranslatable("Token.__init__ does not store (tag, begin_index_incl, end_index_excl, **kwargs) as such")
        for n in c.body:        # no property / __setattr__ / __getattr__ tricks
            if isinstance(n, ast.FunctionDef) and n.name in ("__setattr__", "__getattr__", "__getattribute__", "__new__"):
                raise Untranslatable("Token defines %s" % n.name)
            if isinstance(n, ast.FunctionDef) and n.decorator_list:
                raise Untranslatable("Token has decorated methods")

    def check_lexexn(self, name):
        c = self.classes.get(name)
        want = ast.parse("class %s(Exception):\n    def __init__(self, index):\n        self.index = index\n" % name).body[0]
        if c is None or ast.dump(c) != ast.dump(want) or name in self.assigned or name in self.defs:
            raise Untranslatable("class %s is not `class %s(Exception)` storing its index" % (name, name))
        if "Exception" in self.assigned or "Exception" in self.classes or "Exception" in self.defs or "Exception" in self.imports:
            raise Untranslatable("Exception is rebound")

    def check_builtin(self, name):
        if name in self.assigned or name in self.classes or name in self.defs or name in self.imports:
            raise Untranslatable("builtin %s is rebound at module level" % name)


class Fn:
    """one function body -> Gallina text of type `pres RET` (plus auxiliary Fixpoints for its loops)"""

    def __init__(self, mod, fdef, decl, done):
        self.mod, self.fdef, self.decl, self.done = mod, fdef, decl, done
        self.name = fdef.name
        self.ret = decl["ret"]
        self.locals = decl.get("locals", {})
        self.n = 0
        self.ver = 0
        self.loops = 0
        self.joins = 0
        self.aux = []
        self.no_return = False
        a = fdef.args
        if a.vararg or a.kwarg or a.kwonlyargs or a.defaults or a.posonlyargs or fdef.decorator_list \
                or len(a.args) != len(decl["params"]):
            raise Untranslatable("signature of %s" % self.name)
        self.params = [(x.arg, t) for x, t in zip(a.args, decl["params"])]
        texts = [n for n, t in self.params if t == "text"]
        if len(texts) != 1:
            raise Untranslatable("not exactly one text parameter")
        self.text_param = texts[0]
        # a local may not hide a module-level name the translation gives a meaning to
        stored = {x.id for x in ast.walk(fdef) if isinstance(x, ast.Name) and isinstance(x.ctx, (ast.Store, ast.Del))} \
            | {x.arg for x in a.args}
        for x in ast.walk(fdef):
            if isinstance(x, (ast.Global, ast.Nonlocal, ast.Lambda, ast.FunctionDef, ast.ClassDef, ast.Yield, ast.YieldFrom,
                              ast.Await, ast.NamedExpr)) and x is not fdef:
                raise Untranslatable(type(x).__name__)
        self.stored = stored

    # ------------------------------------------------------------------------------------------ environment
    def bind(self, env, name, ty, narrow=False):
        if not name.isidentifier() or not name.isascii():
            raise Untranslatable("variable name %r" % name)
        self.ver += 1
        env = dict(env)
        env[name] = (ty, self.ver, narrow)
        return env

    def fresh(self, p="t"):
        self.n += 1
        return "%s%d" % (p, self.n)

    def module_name(self, name):
        """a name that is not a local: it must be the module-level / builtin object the mapping speaks about"""
        if name in self.stored:
            raise Untranslatable("%s is also a local variable" % name)

    # ------------------------------------------------------------------------------------------ expressions
    def coerce(self, code, ty, want, what="value"):
        if want is None or ty == want:
            return code, ty
        if ty == "token" and want == "otoken":
            return "(Some %s)" % code, want
        if ty == "none" and want in ("otoken", "otext", "omatch"):
            return "None", want
        if ty == "Z" and want == "pyval":
            return "(VInt %s)" % code, want
        raise Untranslatable("%s has kind %s where %s is required" % (what, ty, want))

    def as_text(self, pre, code, ty, what):
        if ty == "text":
            return code
        if ty == "otext":
            t = self.fresh()
            pre.append("pdo %s <- need_text %s;" % (t, code))
            return t
        raise Untranslatable("%s has kind %s where a string is required" % (what, ty))

    def num_const(self, e, want):
        if want == "Z":
            return ("%d%%Z" % e.value) if e.value >= 0 else ("(%d)%%Z" % e.value), "Z"
        if e.value < 0:
            raise Untranslatable("negative index constant")
        return "%d%%nat" % e.value, "nat"

    def expr(self, e, env, want=None):
        """-> (pre, code, kind): pre is the list of bindings to run first, in order; code is a pure term"""
        if is_const(e, int):
            c, t = self.num_const(e, want)
            return [], c, t
        if is_const(e, str):
            if want == "chr":
                if len(e.value) != 1:
                    raise Untranslatable("a character compared with a string of length %d" % len(e.value))
                return [], "%d%%N" % ord(e.value), "chr"
            return [], text_lit(e.value), "text"
        if isinstance(e, ast.Constant) and e.value is None:
            return [], "None", "none"
        if isinstance(e, ast.Name):
            if e.id in env:
                return [], "v_" + e.id, env[e.id][0]
            raise Untranslatable("name %s used as a value" % e.id)
        if isinstance(e, ast.Attribute):
            pre, c, t = self.expr(e.value, env)
            if t == "token" and e.attr in ("end_index_excl", "begin_index_incl"):
                return pre, "(%s %s)" % ({"end_index_excl": "t_end", "begin_index_incl": "t_begin"}[e.attr], c), "nat"
            raise Untranslatable("attribute .%s of a %s" % (e.attr, t))
        if isinstance(e, ast.BinOp):
            return self.binop(e, env, want)
        if isinstance(e, ast.UnaryOp) and isinstance(e.op, ast.USub):
            pre, c, t = self.expr(e.operand, env, "Z")
            if t != "Z":
                raise Untranslatable("negation of a %s" % t)
            return pre, "(- %s)%%Z" % c, "Z"
        if isinstance(e, ast.UnaryOp) and isinstance(e.op, ast.Not) or isinstance(e, (ast.BoolOp, ast.Compare)):
            kind, c = self.condm(e, env)
            if kind == "pure":
                return [], c, "bool"
            t = self.fresh("b")
            return ["pdo %s <- %s;" % (t, c)], t, "bool"
        if isinstance(e, ast.Subscript):
            return self.subscript(e, env)
        if isinstance(e, ast.Call):
            return self.call(e, env, want)
        raise Untranslatable(ast.dump(e)[:80])

    def binop(self, e, env, want):
        op = e.op
        if isinstance(op, ast.Pow):
            pl, a, ta = self.expr(e.left, env, "Z")
            pr, b, tb = self.expr(e.right, env, "Z")
            if (ta, tb) != ("Z", "Z"):
                raise Untranslatable("** on %s, %s" % (ta, tb))
            t = self.fresh()
            return pl + pr + ["pdo %s <- py_pow %s %s;" % (t, a, b)], t, "Z"
        if isinstance(op, (ast.Add, ast.Sub)):
            # a constant operand takes the kind of the other operand
            lc, rc = is_const(e.left, int), is_const(e.right, int)
            if lc and rc:
                raise Untranslatable("constant arithmetic")
            if lc:
                pr, b, tb = self.expr(e.right, env, want)
                pl, a, ta = self.expr(e.left, env, tb)
            else:
                pl, a, ta = self.expr(e.left, env, want)
                pr, b, tb = self.expr(e.right, env, ta)
            if ta != tb or ta not in ("nat", "Z"):
                raise Untranslatable("%s on %s, %s" % (type(op).__name__, ta, tb))
            if isinstance(op, ast.Add):
                return pl + pr, "(%s + %s)%%%s" % (a, b, ta), ta
            if ta == "Z":
                return pl + pr, "(%s - %s)%%Z" % (a, b), "Z"
            t = self.fresh()
            return pl + pr + ["pdo %s <- psub %s %s;" % (t, a, b)], t, "nat"
        raise Untranslatable("operator %s" % type(op).__name__)

    def subscript(self, e, env):
        pre, c, t = self.expr(e.value, env)
        c = self.as_text(pre, c, t, "subscripted value")
        sl = e.slice
        if isinstance(sl, ast.Slice):
            if sl.step is not None:
                raise Untranslatable("slice step")
            if sl.lower is None and sl.upper is not None and is_neg1(sl.upper):
                return pre, "(removelast %s)" % c, "text"
            if sl.lower is not None and sl.upper is None:
                pa, a, ta = self.expr(sl.lower, env, "nat")
                if ta != "nat":
                    raise Untranslatable("slice bound of kind %s" % ta)
                return pre + pa, "(skipn %s %s)" % (a, c), "text"
            if sl.lower is not None and sl.upper is not None:
                pa, a, ta = self.expr(sl.lower, env, "nat")
                pb, b, tb = self.expr(sl.upper, env, "nat")
                if (ta, tb) != ("nat", "nat"):
                    raise Untranslatable("slice bounds of kinds %s, %s" % (ta, tb))
                return pre + pa + pb, "(slice %s %s %s)" % (c, a, b), "text"
            raise Untranslatable("slice shape")
        if is_neg1(sl):
            v = self.fresh()
            return pre + ["pdo %s <- idx_last %s;" % (v, c)], v, "chr"
        pi, i, ti = self.expr(sl, env, "nat")
        if ti != "nat":
            raise Untranslatable("index of kind %s" % ti)
        v = self.fresh()
        return pre + pi + ["pdo %s <- idx %s %s;" % (v, c, i)], v, "chr"

    def args(self, es, env, wants):
        pre, out = [], []
        for a, w in zip(es, wants):
            p, c, t = self.expr(a, env, w)
            pre += p
            out.append((c, t))
        return pre, out

    def call(self, e, env, want):
        f = e.func
        # ---- methods
        if isinstance(f, ast.Attribute):
            if isinstance(f.value, ast.Name) and f.value.id in REGEX and f.value.id not in env and f.attr == "match":
                self.module_name(f.value.id)
                self.mod.regex(f.value.id)
                if e.keywords or len(e.args) != 2:
                    raise Untranslatable("%s.match arguments" % f.value.id)
                pre, ((s, ts), (i, ti)) = self.args(e.args, env, [None, "nat"])
                if (ts, ti) != ("text", "nat"):
                    raise Untranslatable("%s.match on %s, %s" % (f.value.id, ts, ti))
                return pre, "(%s %s %s)" % (REGEX[f.value.id], s, i), "omatch"
            pre, c, t = self.expr(f.value, env)
            if e.keywords:
                raise Untranslatable("keyword arguments of .%s" % f.attr)
            if t == "chr" and f.attr in CLASSES and not e.args:
                return pre, "(%s %s)" % (CLASSES[f.attr], c), "bool"
            if t == "match" and f.attr in ("start", "end") and not e.args:
                return pre, "(m_%s %s)" % (f.attr, c), "nat"
            if t == "match" and f.attr == "group" and len(e.args) == 1 and is_const(e.args[0], int) and e.args[0].value >= 0:
                v = self.fresh()
                return pre + ["pdo %s <- grp %s %d%%nat;" % (v, c, e.args[0].value)], v, "otext"
            if t == "text" and f.attr == "startswith" and len(e.args) == 2:
                pa, ((a, ta), (b, tb)) = self.args(e.args, env, [None, "nat"])
                if (ta, tb) != ("text", "nat"):
                    raise Untranslatable("startswith on %s, %s" % (ta, tb))
                return pre + pa, "(Nat.leb %s (List.length %s) && starts_with %s (skipn %s %s))" % (b, c, a, b, c), "bool"
            raise Untranslatable("method .%s of a %s" % (f.attr, t))
        if not isinstance(f, ast.Name):
            raise Untranslatable("call of " + ast.dump(f)[:60])
        name = f.id
        if name in env:
            raise Untranslatable("call of the variable %s" % name)
        self.module_name(name)
        # ---- builtins
        if name == "len":
            self.mod.check_builtin("len")
            if e.keywords or len(e.args) != 1:
                raise Untranslatable("len arguments")
            pre, c, t = self.expr(e.args[0], env)
            c = self.as_text(pre, c, t, "argument of len")
            return pre, "(List.length %s)" % c, "nat"
        if name == "int":
            self.mod.check_builtin("int")
            kw = {k.arg: k.value for k in e.keywords}
            if None in kw or set(kw) - {"base"} or not (1 <= len(e.args) + len(kw) <= 2) or not e.args:
                raise Untranslatable("int arguments")
            pre, c, t = self.expr(e.args[0], env)
            if t == "chr":
                c = "[%s]" % c
            else:
                c = self.as_text(pre, c, t, "argument of int")
            b = e.args[1] if len(e.args) == 2 else kw.get("base")
            v = self.fresh()
            if b is None:
                return pre + ["pdo %s <- py_int %s;" % (v, c)], v, "Z"
            pb, cb, tb = self.expr(b, env, "Z")
            if tb != "Z":
                raise Untranslatable("base of kind %s" % tb)
            return pre + pb + ["pdo %s <- py_int_base %s %s;" % (v, c, cb)], v, "Z"
        if name == "float":
            self.mod.check_builtin("float")
            if e.keywords or len(e.args) != 1:
                raise Untranslatable("float arguments")
            a = e.args[0]
            if is_const(a, str):
                if a.value == "inf":
                    return [], "(VInf false)", "pyval"
                if a.value == "-inf":
                    return [], "(VInf true)", "pyval"
                raise Untranslatable("float of the literal %r" % a.value)
            pre, c, t = self.expr(a, env)
            c = self.as_text(pre, c, t, "argument of float")
            v = self.fresh()
            return pre + ["pdo %s <- py_float %s;" % (v, c)], v, "pyval"
        if name == "any":
            self.mod.check_builtin("any")
            if e.keywords or len(e.args) != 1 or not isinstance(e.args[0], ast.GeneratorExp):
                raise Untranslatable("any(...) of something else than a generator")
            g = e.args[0]
            if len(g.generators) != 1 or g.generators[0].ifs or g.generators[0].is_async \
                    or not isinstance(g.generators[0].target, ast.Name):
                raise Untranslatable("generator shape")
            var = g.generators[0].target.id
            if var in env:
                raise Untranslatable("generator variable %s hides a variable" % var)
            pre, c, t = self.expr(g.generators[0].iter, env)
            c = self.as_text(pre, c, t, "iterated value")
            env2 = self.bind(env, var, "chr")
            kind, body = self.condm(g.elt, env2)
            body = body if kind == "mon" else "(POk %s)" % body
            v = self.fresh("b")
            return pre + ["pdo %s <- anyM (fun v_%s => %s) %s;" % (v, var, body, c)], v, "bool"
        if self.mod.imports.get(name) == ("fractions", "Fraction") and name not in self.mod.assigned:
            if e.keywords or len(e.args) != 2:
                raise Untranslatable("Fraction arguments")
            pre, ((a, ta), (b, tb)) = self.args(e.args, env, ["Z", "Z"])
            if (ta, tb) != ("Z", "Z"):
                raise Untranslatable("Fraction of %s, %s" % (ta, tb))
            v = self.fresh()
            return pre + ["pdo %s <- py_frac %s %s;" % (v, a, b)], v, "pyval"
        if name == "Token":
            return self.token(e, env)
        # ---- another translated function
        if name in DECL:
            if self.mod.defs.get(name) is None or name in self.mod.assigned or name in self.mod.classes:
                raise Untranslatable("%s is not one module-level function" % name)
            if name not in self.done:
                raise Untranslatable("calls %s, which is not translated" % name)
            d = DECL[name]
            if e.keywords or len(e.args) != len(d["params"]):
                raise Untranslatable("arguments of %s" % name)
            pre, cs = self.args(e.args, env, d["params"])
            if [t for _, t in cs] != d["params"]:
                raise Untranslatable("call %s(..) with kinds %s, declared %s" % (name, [t for _, t in cs], d["params"]))
            v = self.fresh()
            return pre + ["pdo %s <- g_%s %s;" % (v, name, " ".join(c for c, _ in cs))], v, d["ret"]
        raise Untranslatable("call of %s" % name)

    def token(self, e, env):
        self.mod.check_token_class()
        if len(e.args) != 3 or any(k.arg is None for k in e.keywords) or len(e.keywords) > 1:
            raise Untranslatable("Token arguments")
        tg = e.args[0]
        pre = []
        if isinstance(tg, ast.Attribute) and isinstance(tg.value, ast.Name) and tg.value.id == "Tokens" and "Tokens" not in env:
            self.module_name("Tokens")
            self.mod.tokens_const(tg.attr)
            if tg.attr not in TAGS:
                raise Untranslatable("tag Tokens.%s" % tg.attr)
            tagname, tag = tg.attr, TAGS[tg.attr]
        else:
            p, c, t = self.expr(tg, env)
            if t != "text":
                raise Untranslatable("tag of kind %s" % t)
            pre += p
            tagname, tag = "const", "(TConst %s)" % c
        p, ((b, tb), (en, te)) = self.args(e.args[1:], env, ["nat", "nat"])
        pre += p
        if (tb, te) != ("nat", "nat"):
            raise Untranslatable("token span of kinds %s, %s" % (tb, te))
        if not e.keywords:
            if tagname != "const":
                raise Untranslatable("a %s token without a value" % tagname)
            self.mod.ctors.append((tagname, ""))
            return pre, "(mkTok %s %s %s VNone)" % (tag, b, en), "token"
        if tagname == "const":
            raise Untranslatable("a constant token with a value")
        kw = e.keywords[0]
        self.mod.ctors.append((tagname, kw.arg))
        p, c, t = self.expr(kw.value, env)
        pre += p
        if TAG_VALUE_KIND[tagname] == "text":
            if t == "otext":            # None would be stored as such: outside the model
                v = self.fresh()
                pre.append("pdo %s <- match %s with Some u => POk u | None => PRaise XUnmodelled end;" % (v, c))
                c, t = v, "text"
            if t != "text":
                raise Untranslatable("%s token value of kind %s" % (tagname, t))
            return pre, "(mkTok %s %s %s (VText %s))" % (tag, b, en, c), "token"
        if t == "Z":
            return pre, "(mkTok %s %s %s (VLit (LInt %s)))" % (tag, b, en, c), "token"
        if t != "pyval":
            raise Untranslatable("number token value of kind %s" % t)
        v = self.fresh()
        pre.append("pdo %s <- lit_of %s;" % (v, c))
        return pre, "(mkTok %s %s %s (VLit %s))" % (tag, b, en, v), "token"

    # ------------------------------------------------------------------------------------------ conditions
    def truthy(self, c, t):
        if t == "bool":
            return c
        if t == "otext":
            return "(ot_truthy %s)" % c
        if t == "text":
            return "(negb (is_nil %s))" % c
        if t in ("omatch", "otoken"):
            return "(match %s with Some _ => true | None => false end)" % c
        raise Untranslatable("truth value of a %s" % t)

    def compare(self, e, env):
        """-> (pre, bool code)"""
        if len(e.ops) != 1:
            raise Untranslatable("chained comparison")
        op, L, R = e.ops[0], e.left, e.comparators[0]
        if isinstance(op, (ast.Is, ast.IsNot)):
            if not (isinstance(R, ast.Constant) and R.value is None):
                raise Untranslatable("`is` with something else than None")
            pre, c, t = self.expr(L, env)
            if t not in ("otoken", "omatch", "otext"):
                raise Untranslatable("`is None` on a %s" % t)
            r = "(match %s with Some _ => false | None => true end)" % c
            return pre, r if isinstance(op, ast.Is) else "(negb %s)" % r
        if isinstance(op, (ast.In, ast.NotIn)):
            wrap = (lambda x: x) if isinstance(op, ast.In) else (lambda x: "(negb %s)" % x)
            if isinstance(R, ast.Name) and R.id == "ALPHA_TOKENS" and R.id not in env:
                self.module_name(R.id)
                self.mod.check_alpha_tokens()
                pre, c, t = self.expr(L, env)
                if t != "text":
                    raise Untranslatable("membership of a %s in ALPHA_TOKENS" % t)
                return pre, wrap("(mem %s atoks)" % c)
            if isinstance(R, ast.Tuple):
                pre, c, t = self.expr(L, env)
                if t != "pyval":
                    raise Untranslatable("membership of a %s in a tuple" % t)
                parts = []
                for x in R.elts:
                    p, cx, tx = self.expr(x, env, "pyval")
                    if tx != "pyval":
                        raise Untranslatable("tuple element of kind %s" % tx)
                    pre += p
                    parts.append("py_eq %s %s" % (c, cx))
                if not parts:
                    raise Untranslatable("empty tuple")
                return pre, wrap("(" + " || ".join(parts) + ")")
            if is_const(L, str) and len(L.value) == 1:
                pre, c, t = self.expr(R, env)
                c = self.as_text(pre, c, t, "right operand of in")
                return pre, wrap("(existsb (N.eqb %d%%N) %s)" % (ord(L.value), c))
            raise Untranslatable("membership test " + ast.dump(e)[:60])
        if isinstance(op, (ast.Eq, ast.NotEq)):
            wrap = (lambda x: x) if isinstance(op, ast.Eq) else (lambda x: "(negb %s)" % x)
            if is_const(L, str) and is_const(R, str):
                raise Untranslatable("comparison of two literals")
            if is_const(L, str):
                pr, b, tb = self.expr(R, env)
                pl, a, ta = self.expr(L, env, "chr" if tb == "chr" else None)
            else:
                pl, a, ta = self.expr(L, env)
                pr, b, tb = self.expr(R, env, ta if ta in ("chr", "nat", "Z") else None)
            pre = pl + pr
            if (ta, tb) == ("chr", "chr"):
                return pre, wrap("(N.eqb %s %s)" % (a, b))
            if (ta, tb) == ("text", "text"):
                return pre, wrap("(text_eqb %s %s)" % (a, b))
            if (ta, tb) == ("text", "otext"):
                return pre, wrap("(ot_eqb %s %s)" % (a, b))
            if (ta, tb) == ("otext", "text"):
                return pre, wrap("(ot_eqb %s %s)" % (b, a))
            if (ta, tb) == ("nat", "nat"):
                return pre, wrap("(Nat.eqb %s %s)" % (a, b))
            if (ta, tb) == ("Z", "Z"):
                return pre, wrap("(Z.eqb %s %s)" % (a, b))
            raise Untranslatable("== on %s, %s" % (ta, tb))
        if isinstance(op, (ast.Lt, ast.LtE, ast.Gt, ast.GtE)):
            lc, rc = is_const(L, int), is_const(R, int)
            if lc and rc:
                raise Untranslatable("comparison of two constants")
            if lc:
                pr, b, tb = self.expr(R, env)
                pl, a, ta = self.expr(L, env, tb)
            else:
                pl, a, ta = self.expr(L, env)
                pr, b, tb = self.expr(R, env, ta)
            if ta != tb or ta not in ("nat", "Z"):
                raise Untranslatable("order comparison on %s, %s" % (ta, tb))
            m = "Nat" if ta == "nat" else "Z"
            if isinstance(op, ast.Lt):
                return pl + pr, "(%s.ltb %s %s)" % (m, a, b)
            if isinstance(op, ast.LtE):
                return pl + pr, "(%s.leb %s %s)" % (m, a, b)
            if isinstance(op, ast.Gt):
                return pl + pr, "(%s.ltb %s %s)" % (m, b, a)
            return pl + pr, "(%s.leb %s %s)" % (m, b, a)
        raise Untranslatable("comparison " + type(op).__name__)

    def condm(self, e, env):
        """-> ('pure', bool term) | ('mon', term of type pres bool)"""
        if isinstance(e, ast.BoolOp):
            parts = [self.condm(v, env) for v in e.values]
            isand = isinstance(e.op, ast.And)
            if all(k == "pure" for k, _ in parts):
                return "pure", "(" + (" && " if isand else " || ").join(c for _, c in parts) + ")"
            k, c = parts[-1]
            acc = c if k == "mon" else "(POk %s)" % c
            for k, c in reversed(parts[:-1]):
                if k == "pure":
                    acc = ("(if %s then %s else POk false)" % (c, acc)) if isand else ("(if %s then POk true else %s)" % (c, acc))
                else:
                    b = self.fresh("b")
                    acc = ("(pdo %s <- %s; if %s then %s else POk false)" % (b, c, b, acc)) if isand \
                        else ("(pdo %s <- %s; if %s then POk true else %s)" % (b, c, b, acc))
            return "mon", acc
        if isinstance(e, ast.UnaryOp) and isinstance(e.op, ast.Not):
            k, c = self.condm(e.operand, env)
            if k == "pure":
                return "pure", "(negb %s)" % c
            b = self.fresh("b")
            return "mon", "(pdo %s <- %s; POk (negb %s))" % (b, c, b)
        if isinstance(e, ast.Compare):
            pre, c = self.compare(e, env)
        else:
            pre, c, t = self.expr(e, env)
            c = self.truthy(c, t)
        if not pre:
            return "pure", c
        return "mon", "(" + " ".join(pre) + " POk %s)" % c

    # ------------------------------------------------------------------------------------------ statements
    @staticmethod
    def falls(stmts):
        """may control reach the end of this block"""
        for s in stmts:
            if isinstance(s, (ast.Return, ast.Raise)):
                return False
            if isinstance(s, ast.If) and not Fn.falls(s.body) and s.orelse and not Fn.falls(s.orelse):
                return False
            if isinstance(s, ast.Try) and not Fn.falls(s.body) and not any(Fn.falls(h.body) for h in s.handlers):
                return False
        return True

    def emit(self, pre, last):
        return "\n".join(pre + [last])

    def block(self, stmts, env, k):
        if not stmts:
            return k(env)
        s, rest = stmts[0], stmts[1:]
        if isinstance(s, ast.Expr) and is_const(s.value, str):
            return self.block(rest, env, k)         # docstring
        if isinstance(s, ast.Pass):
            return self.block(rest, env, k)
        if isinstance(s, ast.Return):
            if self.no_return:
                raise Untranslatable("return inside a try block that also falls through")
            if s.value is None:
                pre, c, t = [], "None", "none"
            else:
                pre, c, t = self.expr(s.value, env, self.ret)
            c, _ = self.coerce(c, t, self.ret, "returned value")
            return self.emit(pre, "POk %s" % c)
        if isinstance(s, ast.Raise):
            x = s.exc
            if s.cause is not None or not (isinstance(x, ast.Call) and isinstance(x.func, ast.Name) and x.func.id in LEXEXN
                                           and x.func.id not in env and len(x.args) == 1 and not x.keywords):
                raise Untranslatable("raise " + (ast.dump(x)[:60] if x is not None else "(re-raise)"))
            self.module_name(x.func.id)
            self.mod.check_lexexn(x.func.id)
            pre, c, t = self.expr(x.args[0], env, "nat")
            if t != "nat":
                raise Untranslatable("exception index of kind %s" % t)
            return self.emit(pre, "PRaise (XLex %s %s)" % (x.func.id, c))
        if isinstance(s, ast.Assign):
            if len(s.targets) != 1 or not isinstance(s.targets[0], ast.Name):
                raise Untranslatable("assignment target")
            name = s.targets[0].id
            decl = self.locals.get(name)
            if name in env and decl is None:
                decl = env[name][0]                 # a rebinding keeps the kind
            if isinstance(s.value, ast.List) and not s.value.elts and decl == "tokens":
                pre, c, t = [], "[]", "tokens"
            else:
                pre, c, t = self.expr(s.value, env, decl)
            c, t = self.coerce(c, t, decl, "value assigned to %s" % name)
            if t not in COQTY:
                raise Untranslatable("a variable of kind %s" % t)
            env2 = self.bind(env, name, t)
            return self.emit(pre + ["let v_%s := %s in" % (name, c)], self.block(rest, env2, k))
        if isinstance(s, ast.AugAssign):
            if not isinstance(s.target, ast.Name) or s.target.id not in env:
                raise Untranslatable("augmented assignment target")
            name = s.target.id
            t0 = env[name][0]
            if isinstance(s.op, ast.Add) and t0 in ("nat", "Z"):
                pre, c, t = self.expr(s.value, env, t0)
                if t != t0:
                    raise Untranslatable("+= of a %s to a %s" % (t, t0))
                env2 = self.bind(env, name, t0)
                return self.emit(pre + ["let v_%s := (v_%s + %s)%%%s in" % (name, name, c, t0)], self.block(rest, env2, k))
            if isinstance(s.op, ast.Mult) and t0 == "pyval":
                pre, c, t = self.expr(s.value, env, "pyval")
                c, t = self.coerce(c, t, "pyval", "right operand of *=")
                v = self.fresh()
                env2 = self.bind(env, name, "pyval")
                return self.emit(pre + ["pdo %s <- py_mul v_%s %s;" % (v, name, c), "let v_%s := %s in" % (name, v)],
                                 self.block(rest, env2, k))
            raise Untranslatable("augmented assignment %s on a %s" % (type(s.op).__name__, t0))
        if isinstance(s, ast.Expr):
            c = s.value
            if isinstance(c, ast.Call) and isinstance(c.func, ast.Attribute) and c.func.attr == "append" \
                    and isinstance(c.func.value, ast.Name) and env.get(c.func.value.id, ("",))[0] == "tokens" \
                    and len(c.args) == 1 and not c.keywords:
                name = c.func.value.id
                pre, a, t = self.expr(c.args[0], env, "token")
                if t != "token":
                    raise Untranslatable("append of a %s" % t)
                env2 = self.bind(env, name, "tokens")
                return self.emit(pre + ["let v_%s := (v_%s ++ [%s])%%list in" % (name, name, a)], self.block(rest, env2, k))
            raise Untranslatable("expression statement " + ast.dump(c)[:60])
        if isinstance(s, ast.If):
            return self.if_(s, rest, env, k)
        if isinstance(s, ast.While):
            return self.while_(s, rest, env, k)
        if isinstance(s, ast.For):
            return self.for_(s, rest, env, k)
        if isinstance(s, ast.Try):
            return self.try_(s, rest, env, k)
        raise Untranslatable(type(s).__name__)

    def narrowing(self, test, env):
        """an `if` on an optional variable: -> (variable, kind when present, True if the body is the present branch)"""
        def opt(e):
            return isinstance(e, ast.Name) and e.id in env and env[e.id][0] in ("omatch", "otoken")
        if opt(test):
            return test.id, True
        if isinstance(test, ast.UnaryOp) and isinstance(test.op, ast.Not) and opt(test.operand):
            return test.operand.id, False
        if isinstance(test, ast.Compare) and len(test.ops) == 1 and opt(test.left) \
                and isinstance(test.comparators[0], ast.Constant) and test.comparators[0].value is None:
            if isinstance(test.ops[0], ast.Is):
                return test.left.id, False
            if isinstance(test.ops[0], ast.IsNot):
                return test.left.id, True
        return None

    def if_(self, s, rest, env, k):
        if rest:
            k_rest = K(lambda env2: self.block(rest, env2, k), cheap=False, top=False)
        else:
            k_rest = k
        nar = self.narrowing(s.test, env)
        if nar:
            var, body_present = nar
            inner = {"omatch": "match", "otoken": "token"}[env[var][0]]
            env_some = self.bind(env, var, inner, narrow=True)
            pres_b, abs_b = (s.body, s.orelse) if body_present else (s.orelse, s.body)

            def shape(a, b):        # a: code of the present branch, b: of the absent one
                return "match v_%s with\n| Some v_%s =>\n%s\n| None =>\n%s\nend" % (var, var, a, b)
            branches = [(pres_b, env_some), (abs_b, env)]
            head = None
        else:
            kind, c = self.condm(s.test, env)
            if kind == "pure":
                head = ""
                tst = c
            else:
                tst = self.fresh("b")
                head = "pdo %s <- %s;\n" % (tst, c)

            def shape(a, b):
                return "%sif %s then (\n%s)\nelse (\n%s)" % (head, tst, a, b)
            branches = [(s.body, env), (s.orelse, env)]
        if k_rest.cheap:
            codes = [self.block(b, e2, K(k_rest.fn, cheap=True, top=False) if k_rest.top else k_rest) for b, e2 in branches]
            return shape(*codes)
        calls = []

        def cap(env2):
            calls.append(env2)
            return "@@K%d@@" % (len(calls) - 1)
        codes = [self.block(b, e2, K(cap, cheap=True, top=False)) for b, e2 in branches]
        out = shape(*codes)
        if not calls:
            return out
        if len(calls) == 1:
            # the loop forms need the function's own continuation: keep `top` when nothing was bound around it
            return out.replace("@@K0@@", k_rest(calls[0]))
        # a join point: the following statements once, as a local function of the variables bound on the way
        changed = []
        for name in sorted(set().union(*[set(c) for c in calls])):
            vers = [c.get(name) for c in calls]
            if all(v is not None and v == env.get(name) for v in vers):
                continue
            if any(v is not None and v[2] for v in vers) and all(v is None or v[2] or v == env.get(name) for v in vers):
                continue                             # only narrowed on some paths: the join sees the optional variable
            if any(v is None for v in vers):
                continue                             # not bound on every path: not visible afterwards
            if len({v[0] for v in vers}) != 1:
                raise Untranslatable("variable %s has different kinds on the paths that meet" % name)
            changed.append((name, vers[0][0]))
        self.joins += 1
        kn = "k%d" % self.joins
        env_j = dict(env)
        for name, t in changed:
            env_j = self.bind(env_j, name, t)
        body = k_rest(env_j)
        if changed:
            params = " ".join("(v_%s : %s)" % (n, COQTY[t]) for n, t in changed)
            call = "%s %s" % (kn, " ".join("v_" + n for n, _ in changed))
        else:
            params, call = "(_ : unit)", "%s tt" % kn
        for i in range(len(calls)):
            out = out.replace("@@K%d@@" % i, call)
        return "let %s := fun %s =>\n%s in\n%s" % (kn, params, body, out)

    def loop_params(self, env):
        names = [n for n, _ in self.params if n in env] + sorted((n for n in env if n not in dict(self.params)),
                                                                 key=lambda n: env[n][1])
        return [(n, env[n][0]) for n in names]

    def while_(self, s, rest, env, k):
        if not k.top or s.orelse:
            raise Untranslatable("a while loop that is not at the top level of the function body")
        if self.text_param not in env or env[self.text_param][0] != "text":
            raise Untranslatable("no text to bound the loop by")
        self.loops += 1
        fname = "g_%s_while%d" % (self.name, self.loops)
        ps = self.loop_params(env)
        env_in = {}
        for n, t in ps:
            env_in = self.bind(env_in, n, t)

        def again(env2):
            for n, t in ps:
                if n not in env2 or env2[n][0] != t:
                    raise Untranslatable("loop variable %s changes kind" % n)
            return "%s fuel %s" % (fname, " ".join("v_" + n for n, _ in ps))
        kind, c = self.condm(s.test, env_in)
        body = self.block(s.body, env_in, K(again, cheap=True, top=False))
        after = self.block(rest, env_in, k)
        if kind == "pure":
            core = "if %s then (\n%s)\nelse (\n%s)" % (c, body, after)
        else:
            b = self.fresh("b")
            core = "pdo %s <- %s;\nif %s then (\n%s)\nelse (\n%s)" % (b, c, b, body, after)
        self.aux.append("Fixpoint %s (fuel : nat) %s {struct fuel} : pres %s :=\nmatch fuel with\n| O => PRaise XFuel\n| S fuel =>\n%s\nend."
                        % (fname, " ".join("(v_%s : %s)" % (n, COQTY[t]) for n, t in ps), COQTY[self.ret], core))
        return "%s (S (List.length v_%s)) %s" % (fname, self.text_param, " ".join("v_" + n for n, _ in ps))

    def for_(self, s, rest, env, k):
        if not k.top or s.orelse:
            raise Untranslatable("a for loop that is not at the top level of the function body")
        if not (isinstance(s.iter, ast.Name) and s.iter.id == "CONST_TOKENS" and s.iter.id not in env):
            raise Untranslatable("for over something else than CONST_TOKENS")
        self.module_name("CONST_TOKENS")
        self.mod.const_tokens()
        if not isinstance(s.target, ast.Name) or s.target.id in env:
            raise Untranslatable("for target")
        var = s.target.id
        self.loops += 1
        fname = "g_%s_for%d" % (self.name, self.loops)
        ps = self.loop_params(env)
        env_in = {}
        for n, t in ps:
            env_in = self.bind(env_in, n, t)

        def again(env2):
            for n, t in ps:
                if n not in env2 or env2[n][0] != t:
                    raise Untranslatable("loop variable %s changes kind" % n)
            return "%s %s rest__" % (fname, " ".join("v_" + n for n, _ in ps))
        body = self.block(s.body, self.bind(env_in, var, "text"), K(again, cheap=True, top=False))
        after = self.block(rest, env_in, k)
        self.aux.append("Fixpoint %s %s (list__ : list text) {struct list__} : pres %s :=\nmatch list__ with\n| [] =>\n%s\n| v_%s :: rest__ =>\n%s\nend."
                        % (fname, " ".join("(v_%s : %s)" % (n, COQTY[t]) for n, t in ps), COQTY[self.ret], after, var, body))
        return "%s %s ctoks" % (fname, " ".join("v_" + n for n, _ in ps))

    def try_(self, s, rest, env, k):
        if s.finalbody or s.orelse or len(s.handlers) != 1:
            raise Untranslatable("try shape")
        h = s.handlers[0]
        if h.name is not None or not (isinstance(h.type, ast.Name) and h.type.id in CATCHABLE):
            raise Untranslatable("except clause")
        self.mod.check_builtin(h.type.id)
        self.module_name(h.type.id)
        sel = CATCHABLE[h.type.id]
        dead = K(lambda env2: (_ for _ in ()).throw(Untranslatable("fall-through in a try that must not fall through")), cheap=True)
        if self.falls(h.body):
            raise Untranslatable("an except clause that falls through")
        if not self.falls(s.body):
            # every path returns or raises: the statements after the try are unreachable
            body = self.block(s.body, env, dead)
            hand = self.block(h.body, env, dead)
            return "pcatch (\n%s)\n%s (\n%s)" % (body, sel, hand)
        if any(isinstance(x, (ast.Return, ast.While, ast.For)) for b in s.body for x in ast.walk(b)) \
                or any(isinstance(x, ast.Return) for b in h.body for x in ast.walk(b)):
            raise Untranslatable("a try block that both returns and falls through")
        # the block only computes: its outcome is the tuple of the variables it binds
        calls = []

        def cap(env2):
            calls.append(env2)
            return "@@T%d@@" % (len(calls) - 1)
        saved, self.no_return = self.no_return, True
        try:
            body = self.block(s.body, env, K(cap, cheap=True))
            hand = self.block(h.body, env, dead)
        finally:
            self.no_return = saved
        changed = []
        for name in sorted(set().union(*[set(c) for c in calls])):
            vers = [c.get(name) for c in calls]
            if all(v is not None and v == env.get(name) for v in vers):
                continue
            if any(v is None for v in vers):
                continue
            if len({v[0] for v in vers}) != 1 or any(v[2] for v in vers):
                raise Untranslatable("variable %s has different kinds on the paths through the try block" % name)
            changed.append((name, vers[0][0]))
        if len(changed) > 1:
            tup = "(" + ", ".join("v_" + n for n, _ in changed) + ")"
        elif changed:
            tup = "v_" + changed[0][0]
        else:
            tup = "tt"
        for i in range(len(calls)):
            body = body.replace("@@T%d@@" % i, "POk %s" % tup)
        env2 = env
        for n, t in changed:
            env2 = self.bind(env2, n, t)
        pat = tup if changed else "_"
        return "pdo %s <- pcatch (\n%s)\n%s (\n%s);\n%s" % (pat, body, sel, hand, self.block(rest, env2, k))

    # ------------------------------------------------------------------------------------------ whole function
    def translate(self):
        env = {}
        for n, t in self.params:
            env = self.bind(env, n, t)

        def end(env2):
            if self.ret == "otoken":
                return "POk None"
            raise Untranslatable("control falls off the end of a function that must return a value")
        body = self.block(self.fdef.body, env, K(end, cheap=True, top=True))
        sig = " ".join("(v_%s : %s)" % (n, COQTY[t]) for n, t in self.params)
        return "\n\n".join(self.aux + ["Definition g_%s %s : pres %s :=\n%s." % (self.name, sig, COQTY[self.ret], body)])


def gen(dump):
    path = os.path.join(C.SRC, "ka", "tokens.py")
    tree = ast.parse(open(path, encoding="utf-8").read())
    mod = Module(tree)
    L = ["(* GENERATED by harness/trans_lexer.py from src/ka/tokens.py (the tokeniser) by AST translation — do not edit",
         MAPPING.rstrip("\n"), "*)",
         "From Coq Require Import NArith ZArith QArith List Bool String.",
         "From Ka Require Import Model.Lexer.",
         "Import ListNotations.",
         "Local Open Scope nat_scope.",
         PRELUDE.rstrip("\n"), ""]

    # ---- module-level data read off the AST (re-pinned against the live tables in the facts)
    L.append("(* --- module-level data, from the AST *)")

    def data(name, f):
        try:
            L.append(f())
        except Untranslatable as x:
            L.append("(* UNTRANSLATABLE %s: %s *)" % (name, str(x).replace("*)", "* )").replace("(*", "( *")))

    def regex_def(py, coqname):
        def f():
            pat, flags = mod.regex(py)
            return ("Definition %s : string := %s.\nDefinition %s_flags : list string := [%s]."
                    % (coqname, coq_str(pat), coqname, "; ".join(coq_str(x) for x in flags)))
        return f
    data("g_var_regex", regex_def("VAR_REGEX", "g_var_regex"))
    data("g_based_int_regex", regex_def("BASED_INT_REGEX", "g_based_int_regex"))
    data("g_num_regex", regex_def("NUM_REGEX", "g_num_regex"))
    data("g_const_tokens", lambda: "Definition g_const_tokens : list string := [%s]." % "; ".join(coq_str(x) for x in mod.const_tokens()))
    data("g_tag_strings", lambda: "Definition g_tag_strings : list (string * string) := [%s]." % "; ".join(
        "(%s, %s)" % (coq_str(a), coq_str(mod.tokens_const(a))) for a in TAGS))
    L.append("")

    # ---- the functions
    L += ["Section Src.", "Variables isspace isalpha isnumeric : N -> bool.", "Variables ctoks atoks : list text.", "",
          "(* --- translated functions *)", ""]
    done = {}
    for name in ORDER:
        try:
            fdef = mod.defs.get(name)
            if any(isinstance(n, ast.ImportFrom) and any(a.name == "*" for a in n.names) for n in ast.walk(tree)):
                raise Untranslatable("a star import may rebind any name")
            if fdef is None or name in mod.assigned or name in mod.classes:
                raise Untranslatable("%s is not defined exactly once as a module-level function" % name)
            ncalls = len(mod.ctors)
            try:
                text = Fn(mod, fdef, DECL[name], done).translate()
            except Untranslatable:
                del mod.ctors[ncalls:]
                raise
            L.append("(* tokens.py:%d  %s *)" % (fdef.lineno, name))
            L.append(text)
            done[name] = DECL[name]["ret"]
        except Untranslatable as x:
            # fail closed: no definition is emitted, so LexerSrcFacts.v cannot be proved
            L.append("(* UNTRANSLATABLE %s: %s *)" % (name, str(x).replace("*)", "* )").replace("(*", "( *").replace('"', "'")))
        L.append("")
    L.append("End Src.")
    L.append("")
    L.append("(* the (tag, keyword) pairs of the Token(...) constructions translated above, in order of appearance *)")
    L.append("Definition g_token_ctors : list (string * string) := [%s]." % "; ".join(
        "(%s, %s)" % (coq_str(a), coq_str(b)) for a, b in mod.ctors))
    return "\n".join(L) + "\n"


GENERATES = {"GenLexerSrc.v": gen}
