"""Writes MANIFEST.json from the table below (kept in one place so it stays valid)."""
import json, os
V = os.path.dirname(os.path.dirname(os.path.abspath(__file__)))
CLAIMED = {
 "C01": dict(text="Coq theorems by induction over all arithmetic trees (aeval = rational denotation, canonical, never float, div-by-zero is an error, floored modulo) about a hand-written Gallina model of the numeric tower; model tied to the code by differential runs of execute() vs the model evaluated in the Coq VM on exhaustive-small and seeded random trees.",
             note="Trusted: Coq kernel; CPython int/Fraction semantics are modelled (Num.v), tied by correspondence only; harness generators.",
             technique="Coq proof (structural induction over expression trees in Q) + kernel-lane differential correspondence", ref="6/C01"),
 "C10": dict(text="General Coq theorem (any registry): the left-to-right scan of get_closest_match returns the unique least signature under every permutation; for the registry regenerated from the live ka.functions on every run, computed-and-lifted theorems: every (name, kind tuple) up to the largest arity+1 has a unique least applicable signature, resolution is order-independent for kind tuples of ANY length, no numeric narrowing, and dispatch selects a body only after name, signature and keyword validation. Correspondence: the live lookup/closest-match/dispatch on all 2.1M (name, kind-tuple) cases vs the model in the Coq VM, plus permutation runs on the live objects.",
             note="Trusted: Coq kernel; translator (live dump of registry + isinstance/issubclass tables, one representative value per class); function bodies identified by registry index, not modelled here.",
             technique="Coq proof (induction on the scan + vm_compute reflection over the regenerated registry, lifted by forallb_forall) + exhaustive differential correspondence", ref="6/C10"),
 "C05": dict(text="Coq theorem by induction over all trees of n!, C(n,k), integers, * / (any nesting) and + - comparisons / numeric functions at the boundary: resolving the lazy evaluation equals eager big-integer/rational evaluation, value or error (C05_value), built from proved lemmas for IntRange.difference (all overlap cases), the cancellation loop of Combinatoric.mul (value preserved, terminates within the computed fuel), resolve(), the zero-factor rule, and C(n,k) = Pascal binomial. Correspondence: exhaustive range pairs (endpoints 1..7), atom products/quotients and seeded random trees through execute(), also tagged with a unit, inside an array and via a variable.",
             note="Trusted: Coq kernel; Python int/Fraction arithmetic modelled via Num.v; ranges assumed zero-free (proved to be an invariant of every value the evaluator builds); harness generators.",
             technique="Coq proof (induction over trees; loop invariants for the cancellation and resolve loops; termination measure) + kernel-lane differential correspondence", ref="6/C05"),
 "C03": dict(text="Coq theorems by induction over all quantity expression trees (tagging, + - * /, six comparisons, `to`, unary minus; compound signatures with negative exponents and `|`): every value has exactly the dimension computed from the units' dimension vectors, dimension mismatches never yield a value, a plain number is the zero dimension on either side, the dimension is independent of multiples/offsets/prefixes/spellings, and compose_units computes sum e_i dim(u_i) - sum f_j dim(v_j). Correspondence: trees over thousands of live-resolved unit spellings through execute() vs qeval in the Coq VM, plus the dimension oracle directly on the implementation.",
             note="Trusted: Coq kernel; units reach the model already resolved by the live lookup_unit (name lookup is C13); Python numeric arithmetic modelled via Num.v.",
             technique="Coq proof (structural induction over expression trees; zip-semantics vector algebra) + kernel-lane differential correspondence", ref="6/C03"),
 "C04": dict(text="Coq theorem by induction over all quantity trees whose unit factors/offsets are int/Fraction (an int factor other than 1 under a non-negative exponent): the delivered magnitude is exactly the rational value of ordinary arithmetic on base-unit values, operands in written order, as an int or reduced fraction (C04_exact, C04_integral_as_int); the stated consequences (x U to U, round trip, halving, distribution over + and scaling, affine offset units) proved on the specification. Float-factor units: partial — the model carries the ideal rational value and the implementation is compared within 1e-9 (C04_float_partial is correspondence only).",
             note="Trusted: Coq kernel; resolved units from the live registry; float rounding is not modelled (ideal rationals, tolerance 1e-9).",
             technique="Coq proof (induction over trees, exact rational arithmetic) + kernel-lane differential correspondence (exact lane and 1e-9 float lane)", ref="6/C04"),
 "C09": dict(text="Coq theorems for ALL operands: numbers of any kind (exact comparison of rational values): trichotomy, <= = (< or ==), > / >= as operand reversal, != = 1 - ==, every result the number 0 or 1; the same for quantities of one dimension (and a number against a dimensionless quantity) through the quantity wrapper, equality = equality of base-unit magnitudes; lazy combinatorics compare as their eager values (uses C05's relation); instants via the microsecond count; `in` is 0/1 and 1 iff some element is equal. Correspondence: all ordered pairs within each comparable group of a 31+8+5+7 value pool x 6 operators (exhaustive) + membership through execute(): coherence relations on the implementation's own displayed results, exact-value oracle, and model predictions.",
             note="Trusted: Coq kernel; Python's cross-type numeric comparison is exact (modelled as comparison of toQ); datetime comparison = comparison of microsecond counts (C17).",
             technique="Coq proof (case analysis on Qcompare / Z order, reuse of C05 relation) + exhaustive-pool differential and metamorphic correspondence", ref="6/C09"),
 "C13": dict(text="General Coq theorems for ANY registry (a registered spelling always wins, unscaled; a prefixed spelling with no other reading resolves to that prefix applied to that unit; apply_prefix multiplies or refuses an offset unit; every reading comes byte-for-byte from the tables, hence case-sensitive) and, over the registry regenerated from the live ka.units on every run, theorems by vm_compute reflection lifted with forallb_forall: three spellings per unit, every prefix x unit x spelling scales by exactly base^exp, offset units refuse prefixes, SI dimensions and sizes within 1% against a hand-written reference table of physical definitions (fail-closed for units without an entry), 83 definitional ratios (exact / 1e-12), offsets. Ratios among sizes Ka stores rounded (16 oz/lb, 14 lb/st, ...) are proved only within 2% (C13_rounded_ratios_partial). Correspondence: every unit x 3 spellings x 26 prefix options, live lookup_unit vs the model in the Coq VM, plus conversions through execute().",
             note="Trusted: Coq kernel; translator (live dump of units/prefixes/maps); the hand-written reference table Proofs/UnitSpec.v; currencies checked for dimension only (rates are C20).",
             technique="Coq proof (general lemmas by induction on the prefix scan + vm_compute reflection over the regenerated registry) + exhaustive differential correspondence", ref="6/C13"),
}
PENDING = {}
ALL = ["C%02d" % i for i in range(1, 21)]

def main():
    checks = []
    for pid in ALL:
        if pid in CLAIMED:
            c = CLAIMED[pid]
            checks.append(dict(property_id=pid, quick_cmd="./check %s --tier quick" % pid,
                               thorough_cmd="./check %s --tier thorough" % pid,
                               evidence_file="evidence/%s.json" % pid,
                               replay_cmd_template="./check %s --replay {path}" % pid,
                               engine="coq-ka",
                               level_claimed=dict(category=c.get("category", "proof"), text=c["text"], design_ref="DESIGN.md section " + c["ref"]),
                               level_note=c["note"], technique=c["technique"]))
    na = [dict(property_id=p, reason=PENDING.get(p, "check not built yet in this development (planned, see DESIGN.md section 9); not claimed until its theorems and correspondence exist")) for p in ALL if p not in CLAIMED]
    m = dict(version=1,
             setup_cmd="./check setup",
             hooks=dict(guard="KA_VERIF", enable="no source hooks: checks import /repo/src as it is (KA_VERIF is read by no source line)",
                        baseline_off_cmd="cd /repo && /venv/bin/python -m pytest -ra -q -p no:cacheprovider --timeout=900 --continue-on-collection-errors",
                        source_commits=[], add_only=True),
             engines=[dict(name="coq-ka", path="coq/", serves_properties=sorted(CLAIMED), kind_free_text="Coq 8.16.1 development (Model/Proofs/Properties, Gen regenerated from /repo on every run) + Python correspondence harness (harness/)")],
             checks=checks, not_applicable=na,
             notes="Every check regenerates coq/Gen from /repo's working tree, rebuilds the Coq targets it depends on (full .vo), re-checks Print Assumptions, and runs the model (inside the Coq VM) against the implementation.")
    json.dump(m, open(os.path.join(V, "MANIFEST.json"), "w"), indent=1)

if __name__ == "__main__":
    main()
