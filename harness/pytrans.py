"""A small fail-closed translator from a subset of Python (pure integer functions made of if/elif/else,
return, comparisons, and/or/not, + - *, list literals, list +, conditional expressions, tuples, attribute
reads and constructor calls) to Gallina.  Used to regenerate, on every run, Coq definitions of the small pure
functions the hand-written model claims to mirror (Gen/GenLogic.v); GenFacts/LogicFacts.v then proves the
generated definitions equal to the model's.  Anything outside the subset raises Untranslatable."""
import ast


class Untranslatable(Exception):
    pass


class Tr:
    def __init__(self, self_name, attrs, ctors, list_vars=()):
        self.self_name = self_name      # name of the `self` parameter -> Coq variable
        self.attrs = attrs              # attribute name -> Coq projection
        self.ctors = ctors              # Python constructor name -> Coq constructor
        self.list_vars = set(list_vars)

    def is_list(self, e):
        if isinstance(e, (ast.List, ast.ListComp)):
            return True
        if isinstance(e, ast.IfExp):
            return self.is_list(e.body) or self.is_list(e.orelse)
        if isinstance(e, ast.BinOp) and isinstance(e.op, ast.Add):
            return self.is_list(e.left) or self.is_list(e.right)
        if isinstance(e, ast.Name):
            return e.id in self.list_vars
        return False

    def expr(self, e):
        if isinstance(e, ast.Constant) and isinstance(e.value, int) and not isinstance(e.value, bool):
            return "%d" % e.value if e.value >= 0 else "(%d)" % e.value
        if isinstance(e, ast.Name):
            return e.id
        if isinstance(e, ast.Attribute):
            if e.attr not in self.attrs:
                raise Untranslatable("attribute %s" % e.attr)
            return "(%s %s)" % (self.attrs[e.attr], self.expr(e.value))
        if isinstance(e, ast.List):
            return "[" + "; ".join(self.expr(x) for x in e.elts) + "]"
        if isinstance(e, ast.Tuple):
            return "(" + ", ".join(self.expr(x) for x in e.elts) + ")"
        if isinstance(e, ast.BinOp):
            a, b = self.expr(e.left), self.expr(e.right)
            if isinstance(e.op, ast.Add):
                return "(%s ++ %s)" % (a, b) if self.is_list(e) else "(%s + %s)" % (a, b)
            if isinstance(e.op, ast.Sub):
                return "(%s - %s)" % (a, b)
            if isinstance(e.op, ast.Mult):
                return "(%s * %s)" % (a, b)
            raise Untranslatable("operator %s" % type(e.op).__name__)
        if isinstance(e, ast.UnaryOp) and isinstance(e.op, ast.USub):
            return "(- %s)" % self.expr(e.operand)
        if isinstance(e, ast.IfExp):
            return "(if %s then %s else %s)" % (self.cond(e.test), self.expr(e.body), self.expr(e.orelse))
        if isinstance(e, ast.Call) and isinstance(e.func, ast.Name) and e.func.id in self.ctors and not e.keywords:
            return "(%s %s)" % (self.ctors[e.func.id], " ".join(self.expr(a) for a in e.args))
        if isinstance(e, ast.Call) and isinstance(e.func, ast.Name) and e.func.id in self.ctors:
            # keyword constructor call: emitted in the declared order
            order = self.ctors[e.func.id + ":kw"]
            kw = {k.arg: k.value for k in e.keywords}
            return "(%s %s)" % (self.ctors[e.func.id], " ".join(self.expr(kw[k]) for k in order))
        if isinstance(e, ast.ListComp) and len(e.generators) == 1 and len(e.generators[0].ifs) == 1 \
                and isinstance(e.elt, ast.Name) and isinstance(e.generators[0].target, ast.Name) \
                and e.elt.id == e.generators[0].target.id:
            g = e.generators[0]
            return "(filter (fun %s => %s) %s)" % (g.target.id, self.cond(g.ifs[0]), self.expr(g.iter))
        raise Untranslatable(ast.dump(e)[:80])

    def cond(self, e):
        if isinstance(e, ast.Compare) and len(e.ops) == 1:
            a, b = self.expr(e.left), self.expr(e.comparators[0])
            op = e.ops[0]
            if isinstance(op, ast.Lt): return "(%s <? %s)" % (a, b)
            if isinstance(op, ast.LtE): return "(%s <=? %s)" % (a, b)
            if isinstance(op, ast.Gt): return "(%s <? %s)" % (b, a)
            if isinstance(op, ast.GtE): return "(%s <=? %s)" % (b, a)
            if isinstance(op, ast.Eq): return "(%s =? %s)" % (a, b)
            raise Untranslatable("comparison")
        if isinstance(e, ast.BoolOp):
            op = " && " if isinstance(e.op, ast.And) else " || "
            return "(" + op.join(self.cond(v) for v in e.values) + ")"
        if isinstance(e, ast.UnaryOp) and isinstance(e.op, ast.Not):
            return "(negb %s)" % self.cond(e.operand)
        if isinstance(e, ast.Call) and isinstance(e.func, ast.Attribute) and not e.keywords \
                and e.func.attr in self.attrs.get("__methods__", {}):
            # a boolean method of the same class, itself translated earlier in the generated file
            return "(%s %s)" % (self.attrs["__methods__"][e.func.attr],
                                " ".join([self.expr(e.func.value)] + [self.expr(a) for a in e.args]))
        raise Untranslatable("condition " + ast.dump(e)[:80])

    def block(self, stmts):
        """statements ending in return on every path -> one Gallina expression"""
        if not stmts:
            raise Untranslatable("fall-through")
        s, rest = stmts[0], stmts[1:]
        if isinstance(s, ast.Return):
            return self.expr(s.value)
        if isinstance(s, ast.Expr) and isinstance(s.value, ast.Constant) and isinstance(s.value.value, str):
            return self.block(rest)         # docstring
        if isinstance(s, ast.If):
            then = self.block(s.body + ([] if self.returns(s.body) else rest))
            els = self.block((s.orelse if s.orelse else []) + ([] if s.orelse and self.returns(s.orelse) else rest))
            return "(if %s then %s else %s)" % (self.cond(s.test), then, els)
        if isinstance(s, ast.Assign) and len(s.targets) == 1 and isinstance(s.targets[0], ast.Name):
            # dead or simple binding
            name = s.targets[0].id
            used = any(isinstance(n, ast.Name) and n.id == name for r in rest for n in ast.walk(r))
            if not used:
                # a dead binding of a side-effect-free expression (the translator admits no others)
                self.expr(s.value)
                return self.block(rest)
            if self.is_list(s.value):
                self.list_vars.add(name)
            return "(let %s := %s in %s)" % (name, self.expr(s.value), self.block(rest))
        raise Untranslatable(type(s).__name__)

    def returns(self, stmts):
        if not stmts:
            return False
        last = stmts[-1]
        if isinstance(last, ast.Return):
            return True
        if isinstance(last, ast.If):
            return self.returns(last.body) and bool(last.orelse) and self.returns(last.orelse)
        return False


def find_function(tree, qual):
    parts = qual.split(".")
    body = tree.body
    node = None
    for p in parts:
        node = next((n for n in body if isinstance(n, (ast.FunctionDef, ast.ClassDef)) and n.name == p), None)
        if node is None:
            raise Untranslatable("no %s" % qual)
        body = node.body
    return node
