"""Translator plugin "instant": the Instant part of ka/types.py (class Instant.__eq__, check_same_awareness, instant_lt ..
validate_time) and the `# Dates & times #` registration section of ka/functions.py (with the two closure makers it
uses, intify and register_commutative_op) -> coq/Gen/GenInstantSrc.v, regenerated on every run from the Python AST of
the tree under check (C.SRC).  coq/GenFacts/InstantSrcFacts.v (property C17) proves the hand-written model
(coq/Model/Instant.v on coq/Model/Calendar.v) equal to these definitions.

Fail-closed: a construct outside the subset handled below raises Untranslatable and the function gets NO definition
(a comment `(* UNTRANSLATABLE name: why *)` instead), neither does any function that calls it, so the facts about
it cannot be proved.  Nothing is repaired or guessed: operand order, which comparison, constants, branch order,
exception class and the place it is raised are what the AST says.

The trusted construct mapping is the text of MAPPING (copied into the generated file) together with the Gallina text
of PRELUDE (Python's datetime / timedelta / Fraction attribute operations expressed with the operations of
Model/Instant.v)."""
import ast, os, sys
sys.path.insert(0, os.path.dirname(os.path.abspath(__file__)))
import common as C
from pytrans import Untranslatable

MAPPING = r"""
   TRUSTED CONSTRUCT MAPPING (everything else is checked by GenFacts/InstantSrcFacts.v)

   values      kinds are DECLARED per parameter (table DECL of harness/trans_instant.py) and inferred for
               everything else; an operation applied to a kind it is not listed for below is untranslatable.
                 I    an Instant            -> `instant`  (record mkInstant { i_dt : pydt })
                 DT   a datetime            -> `pydt`     (record mk_dt { dt_us : Z; dt_off : option Z }: the
                                               wall-clock fields as the model's microsecond count since
                                               0001-01-01T00:00:00, and utcoffset() in microseconds, None = naive)
                 TD   a timedelta           -> Z          (microseconds, the model's timedelta)
                 QTY  a Quantity            -> the model's `quantity` (q_mag : num, q_dims : list Q)
                 N    an int/Fraction/float -> the model's `num` (float idealised as the rational it denotes)
                 Z    an int  -> Z;   P  a Fraction's denominator -> positive;   S  a str -> string;
                 B    a bool  -> bool;   OPT  the result of utcoffset() -> option Z;   TZ  a tzinfo -> option Z;   DIMS  a QuantityVector -> list Q;
                 U    None (a procedure's result) -> unit
               A Python variable x is the Gallina variable v_x; t1, t2, .. are the results of bound calls.
   results     every translated function returns `res T` (Model/Prelude.v): `return e` is `Ok e`, falling off the
               end / `return` / `return None` is `Ok tt`, `pass` is nothing, `raise KaRuntimeError(msg)` is `Raise KaRuntimeError` (exception class by name; the
               message is dropped: string constants, `+`, and `<var>.qv.prettified()` are taken not to raise).
   sequencing  every operation that may raise is bound with `do t <- op; ...` IN SOURCE ORDER: arguments left to
               right, operands of a binary operator / comparison left to right, statements top to bottom; a call
               statement `f(x)` is `do _ <- g_f v_x; ...`; `A if c else B` evaluates c, then only the chosen branch;
               `c1 and c2` evaluates c2 only if c1 is true (`or` dually).  An `if` whose body does not end in
               return/raise continues with the statements after it (they are repeated in both branches).
               `x += e` on strings rebinds x.
   try/except  `try: BODY except E [as e]: HANDLER` (e unused) is
               `match BODY with Raise E => HANDLER | r => r end`  — E catches exactly the model's constructor E.
   datetime    (PRELUDE below; Python's datetime/timedelta arithmetic expressed with Model/Instant.v, Model/Calendar.v)
               datetime(y, m, d)            datetime3 y m d   = datetime_new y m d 0 0 0 0 (ValueError), naive
               datetime(y, m, d, tzinfo=E)  datetime3_tz y m d E: the same midnight of that wall-clock date, carrying
                                            the offset E (ValueError as above; E evaluated after y, m, d)
               dt.tzinfo                    dt_tzinfo dt = dt_off dt  (kind TZ -> option Z): a tzinfo is identified
                                            with its fixed UTC offset (None = naive), which is what
                                            datetime.fromisoformat produces (timezone(timedelta) objects)
               datetime.fromisoformat(s)    dt_fromisoformat s = the model's fromisoformat s, naive (aware texts and
                                            the other spellings Python accepts are declined: Raise Unmodelled)
               timedelta(days=n)            td_of_days n   (OverflowError beyond 999999999 days)
               timedelta(seconds=x)         timedelta_seconds x: int exact, float rounded half-even to the
                                            microsecond (round_us), Fraction TypeError; OverflowError as above
               td / p                       td_div td p = Qround_half_even (td # p)   (timedelta / int)
               td.total_seconds()           NFlt (total_seconds td)   (a float: span / 10^6)
               dt + td, dt - td             dt_plus_td / dt_minus_td: the model's add_td on the wall-clock count
                                            (OverflowError outside years 1..9999), the offset is kept
               dt1 - dt2                    dt_minus_dt: the model's instant_minus_instant of the UTC counts
                                            (dt_us - offset); TypeError if exactly one is naive
               dt1 < <= > >= dt2            dt_lt dt_le dt_gt dt_ge: Z.ltb Z.leb Z.gtb Z.geb on the UTC counts;
                                            TypeError if exactly one is naive
               dt1 == dt2, dt1 != dt2       dt_eq / negb dt_eq: same awareness and equal UTC counts (a naive and an
                                            aware datetime are unequal, no exception)
               dt.utcoffset()               dt_utcoffset dt = dt_off dt;  `e is None` is `is_none e`
               dt.year .. dt.second         dt_year .. dt_second = the model's get_year .. get_second on dt_us
   Instant(e) is `mkInstant e`, x.dt is `i_dt x`;  Quantity(m, v) is `Build_quantity m v`, q.mag / q.qv are
               q_mag q / q_dims q  (both classes must still store their constructor arguments in these attributes:
               checked on the AST of __init__).
   SECONDS     (types.py `from .units import S as SECONDS`, units.py `S = QSPACE.get_basis_vector("s")`, both
               checked) is the model's `seconds_dims`;  v1 == v2 on QuantityVectors is `dims_eqb v1 v2`
               (operands in source order).
   numbers     isinstance(x, frac) on a number is `is_frac x` (frac must be fractions.Fraction, checked);
               x.numerator / x.denominator are num_numerator / num_denominator (int: n, 1; Fraction q: Qnum q,
               Qden q; float: Python's AttributeError has no constructor in the model -> Raise Unmodelled);
               an int expression passed where a number is expected is `NInt e`.
               isinstance(x, Instant) on a value of kind I is `true`.
   regexes     NAME.match(s) used as a condition, where NAME is bound once at module level to
               re.compile(r"\d{4}$") / re.compile(r"\d{4}-\d{2}$"), is the model's `just_year s` /
               `just_year_month s` (ASCII digits; any other pattern is untranslatable).
   booleans    `b1 != b2` / `b1 == b2` on bools are `negb (Bool.eqb b1 b2)` / `Bool.eqb b1 b2`; `not b` is `negb b`;
               `1 if c else 0` is an `if` on the bool c.
   closures    a nested def (intify.f_new, register_commutative_op.reverse_f) becomes a polymorphic Gallina function
               whose first parameter is the free function variable f; `if f(x, y)` fixes f's result kind to bool.
   operator.eq / operator.ne   on two Instants are `a == b` / `a != b`, i.e. Instant.__eq__ (translated) and its
               negation (the class defines no __ne__: checked); their registry key is `_operator.eq` / `_operator.ne`.
   registrations  the statements between the banner `# Dates & times #` and the next banner of ka/functions.py:
               `register_function(F, NAME, SIG[, docstring])` adds the row (NAME, SIG as kinds, key of F) to
               g_registered and, if F is translated, the case  key, arguments of shape SIG => F args  to g_run.
               register_commutative_op is read as a *registrar*: its body (nested defs and register_function calls)
               is interpreted with the parameters bound to the argument values.  `tuple()` is the empty signature;
               Instant / Quantity / Integral are the kinds KInstant / KQuantity / KIntegral.  A function that is
               registered but not translated (now, today: they read the clock) gets its row but no case in g_run.
               The key of F is the text harness/dump_live.py:impl_key gives the live function object:
               ka.<module>.<qualname>, for a closure followed by [f=<key of the function bound to f>].
   names       datetime, timedelta, frac, re, SECONDS, Instant, Quantity, KaRuntimeError, operator and the Ka
               functions called must be bound exactly once at module level to what their name says (import, class
               or def) and never shadowed by a local, else the function using them is untranslatable.
"""

PRELUDE = r"""From Coq Require Import ZArith QArith String List Bool.
From Ka Require Import Model.Instant.
Import ListNotations.
Local Open Scope string_scope.
Local Open Scope Z_scope.

(* ---- PRELUDE: the fixed terms of the construct mapping (trusted; see the header) *)
Record pydt := mk_dt { dt_us : Z; dt_off : option Z }.
Record instant := mkInstant { i_dt : pydt }.
Definition naive (i : Z) : pydt := mk_dt i None.
Definition is_none {A : Type} (o : option A) : bool := match o with None => true | Some _ => false end.
Definition dt_utcoffset (d : pydt) : option Z := dt_off d.
Definition dt_utc (d : pydt) : Z := match dt_off d with Some o => dt_us d - o | None => dt_us d end.
Definition dt_same_awareness (a b : pydt) : bool := Bool.eqb (is_none (dt_off a)) (is_none (dt_off b)).
Definition dt_cmp (f : Z -> Z -> bool) (a b : pydt) : res bool :=
  if dt_same_awareness a b then Ok (f (dt_utc a) (dt_utc b)) else Raise TypeError.
Definition dt_lt : pydt -> pydt -> res bool := dt_cmp Z.ltb.
Definition dt_le : pydt -> pydt -> res bool := dt_cmp Z.leb.
Definition dt_gt : pydt -> pydt -> res bool := dt_cmp Z.gtb.
Definition dt_ge : pydt -> pydt -> res bool := dt_cmp Z.geb.
Definition dt_eq (a b : pydt) : bool := dt_same_awareness a b && (dt_utc a =? dt_utc b).
Definition dt_minus_dt (a b : pydt) : res Z :=
  if dt_same_awareness a b then Ok (instant_minus_instant (dt_utc a) (dt_utc b)) else Raise TypeError.
Definition dt_plus_td (d : pydt) (t : Z) : res pydt := do r <- add_td (dt_us d) t; Ok (mk_dt r (dt_off d)).
Definition dt_minus_td (d : pydt) (t : Z) : res pydt := do r <- add_td (dt_us d) (- t); Ok (mk_dt r (dt_off d)).
Definition datetime3 (y m d : Z) : res pydt := do r <- datetime_new y m d 0 0 0 0; Ok (naive r).
Definition dt_tzinfo (d : pydt) : option Z := dt_off d.
Definition datetime3_tz (y m d : Z) (tz : option Z) : res pydt := do r <- datetime_new y m d 0 0 0 0; Ok (mk_dt r tz).
Definition dt_fromisoformat (s : string) : res pydt := do r <- fromisoformat s; Ok (naive r).
Definition dt_year (d : pydt) : Z := get_year (dt_us d).
Definition dt_month (d : pydt) : Z := get_month (dt_us d).
Definition dt_day (d : pydt) : Z := get_day (dt_us d).
Definition dt_hour (d : pydt) : Z := get_hour (dt_us d).
Definition dt_minute (d : pydt) : Z := get_minute (dt_us d).
Definition dt_second (d : pydt) : Z := get_second (dt_us d).
Definition timedelta_seconds (n : num) : res Z :=
  match n with
  | NInt z => td_check (z * US_PER_SEC)
  | NFlt q => td_check (round_us q)
  | NFrac _ => Raise TypeError
  end.
Definition td_div (t : Z) (p : positive) : Z := Qround_half_even (t # p).
Definition td_total_seconds (t : Z) : num := NFlt (total_seconds t).
Definition is_frac (n : num) : bool := match n with NFrac _ => true | _ => false end.
Definition num_numerator (n : num) : res Z :=
  match n with NInt z => Ok z | NFrac q => Ok (Qnum q) | NFlt _ => Raise Unmodelled end.
Definition num_denominator (n : num) : res positive :=
  match n with NInt _ => Ok 1%positive | NFrac q => Ok (Qden q) | NFlt _ => Raise Unmodelled end.

(* signature kinds and argument values of the section's registrations *)
Inductive skind := KInstant | KQuantity | KIntegral.
Inductive val := VInst (i : instant) | VQty (q : quantity) | VInt (z : Z).

(* ---- translated functions *)
"""

# ----------------------------------------------------------------------------------------------------------------
# declared parameter kinds; "?" = polymorphic; free = kinds of a closure's free variables
DECL = {
    "types:Instant.__eq__": dict(params=["I", "I"]),
    "types:check_same_awareness": dict(params=["I", "I"]),
    "types:instant_lt": dict(params=["I", "I"]),
    "types:instant_leq": dict(params=["I", "I"]),
    "types:instant_gt": dict(params=["I", "I"]),
    "types:instant_geq": dict(params=["I", "I"]),
    "types:instant_from_iso": dict(params=["S"]),
    "types:get_year": dict(params=["I"]),
    "types:get_month": dict(params=["I"]),
    "types:get_day": dict(params=["I"]),
    "types:get_hour": dict(params=["I"]),
    "types:get_minute": dict(params=["I"]),
    "types:get_second": dict(params=["I"]),
    "types:floor_instant": dict(params=["I"]),
    "types:ceil_instant": dict(params=["I"]),
    "types:validate_time": dict(params=["QTY"]),
    "types:seconds_to_timedelta": dict(params=["N"]),
    "types:instant_minus_instant": dict(params=["I", "I"]),
    "types:instant_plus_quantity": dict(params=["I", "QTY"]),
    "types:instant_plus_int": dict(params=["I", "Z"]),
    "types:instant_minus_quantity": dict(params=["I", "QTY"]),
    "types:instant_minus_int": dict(params=["I", "Z"]),
    "functions:intify.f_new": dict(free={"f": "F"}, params=["?", "?"]),
    "functions:register_commutative_op.reverse_f": dict(free={"f": "F"}, params=["?", "?"]),
}
ORDER = list(DECL)
# registered in the section but not translatable by design (they read the clock): row only
OPAQUE = {"types:now": "reads the clock (datetime.now())", "types:today": "floor_instant(now()): reads the clock"}

EXN = {"KaRuntimeError": "KaRuntimeError", "ZeroDivisionError": "ZeroDivisionError", "ValueError": "ValueError",
       "TypeError": "TypeError", "OverflowError": "OverflowError", "IndexError": "IndexError"}
KIND_OF_TYPE = {"Instant": "KInstant", "Quantity": "KQuantity", "Integral": "KIntegral"}
TY_OF_KIND = {"KInstant": "I", "KQuantity": "QTY", "KIntegral": "Z"}
VAL_CTOR = {"I": "VInst", "QTY": "VQty", "Z": "VInt"}
COQ_TY = {"I": "instant", "DT": "pydt", "TD": "Z", "QTY": "quantity", "N": "num", "Z": "Z", "P": "positive", "S": "string",
          "B": "bool", "OPT": "(option Z)", "TZ": "(option Z)", "DIMS": "(list Q)", "U": "unit"}
REGEXES = {r"\d{4}$": "just_year", r"\d{4}-\d{2}$": "just_year_month"}
DT_FIELDS = {"year": "dt_year", "month": "dt_month", "day": "dt_day", "hour": "dt_hour", "minute": "dt_minute",
             "second": "dt_second"}
# module-level names with a fixed meaning; a local or parameter of that name is refused
SPECIAL = {"datetime", "timedelta", "frac", "re", "SECONDS", "Instant", "Quantity", "KaRuntimeError", "isinstance",
           "operator", "JUST_YEAR", "JUST_YEAR_AND_MONTH"}


def coq_str(s):
    if not s.isascii() or any(ord(c) < 32 for c in s):
        raise Untranslatable("string literal %r" % s)
    return '"' + s.replace('"', '""') + '"%string'


def is_tvar(t):
    return isinstance(t, str) and t.startswith("'")


def coq_ty(t):
    if isinstance(t, tuple):        # ("F", (args..), ret)
        return "(" + " -> ".join([coq_ty(a) for a in t[1]] + ["res " + coq_ty(t[2])]) + ")"
    if is_tvar(t):
        return t[1:]
    return COQ_TY[t]


def zlit(n):
    return "%d" % n if n >= 0 else "(%d)" % n


def comment_safe(s):
    return str(s).replace("*)", "* )").replace("(*", "( *")


class FnTr:
    """one function body -> one Gallina term of type `res T`, in continuation-passing style so that the do-bindings
    come out in Python's evaluation order"""

    def __init__(self, unit, module, qual, params, free):
        self.unit, self.module, self.qual = unit, module, qual
        self.n = 0
        self.ret = None
        self.tvars = []
        self.fsigs = {}                         # free function variable -> (argkinds, retkind)
        self.env0 = {}
        for name, t in list(free.items()) + params:
            self.check_name(name)
            self.env0[name] = self.newvar() if t == "?" else t

    # ---------------------------------------------------------------- helpers
    def check_name(self, name):
        if name in SPECIAL or not name.isidentifier() or not name.isascii():
            raise Untranslatable("variable name %s clashes with a module-level name of fixed meaning" % name)

    def newvar(self):
        v = "'" + "ABCDEFGH"[len(self.tvars)]
        self.tvars.append(v)
        return v

    def fresh(self):
        self.n += 1
        return "t%d" % self.n

    def need(self, ty, want, what):
        if ty != want:
            raise Untranslatable("%s has kind %s where %s is required" % (what, ty, want))

    def bound(self, op, k, kind):
        v = self.fresh()
        return "do %s <- %s;\n%s" % (v, op, k(v, kind))

    def glob(self, name, env):
        """a module-level name of fixed meaning, checked"""
        if name in env:
            raise Untranslatable("%s is a local variable here" % name)
        self.unit.check_global(self.module, name)

    # ---------------------------------------------------------------- expressions
    def exprs(self, es, env, k):
        def go(i, acc):
            if i == len(es):
                return k(acc)
            return self.expr(es[i], env, lambda a, t: go(i + 1, acc + [(a, t)]))
        return go(0, [])

    def as_num(self, a, t, what):
        if t == "N":
            return a
        if t == "Z":
            return "(NInt %s)" % a
        raise Untranslatable("%s has kind %s where a number is required" % (what, t))

    def expr(self, e, env, k):
        """k(atom, kind) -> text; atom is a pure Gallina term"""
        if isinstance(e, ast.Constant) and isinstance(e.value, int) and not isinstance(e.value, bool):
            return k(zlit(e.value), "Z")
        if isinstance(e, ast.Constant) and isinstance(e.value, str):
            return k(coq_str(e.value), "S")
        if isinstance(e, ast.Constant) and e.value is None:
            return k("tt", "U")
        if isinstance(e, ast.Name):
            if e.id in env:
                if env[e.id] == "F":
                    raise Untranslatable("closure variable %s used as a value" % e.id)
                return k("v_" + e.id, env[e.id])
            if e.id == "SECONDS":
                self.glob("SECONDS", env)
                return k("seconds_dims", "DIMS")
            raise Untranslatable("unbound name %s" % e.id)
        if isinstance(e, ast.Attribute):
            return self.attribute(e, env, k)
        if isinstance(e, ast.BinOp):
            return self.binop(e, env, k)
        if isinstance(e, ast.Compare):
            return self.compare(e, env, k)
        if isinstance(e, ast.BoolOp):
            return self.boolop(e, env, k)
        if isinstance(e, ast.UnaryOp) and isinstance(e.op, ast.Not):
            return self.cond(e.operand, env, lambda c: k("(negb %s)" % c, "B"))
        if isinstance(e, ast.IfExp):
            def after(c):
                tys = []

                def ret(a, t):
                    tys.append(t)
                    return "Ok %s" % a
                th = self.expr(e.body, env, ret)
                el = self.expr(e.orelse, env, ret)
                if len(set(tys)) != 1:
                    raise Untranslatable("conditional expression of two kinds")
                return self.bound("(if %s then (%s) else (%s))" % (c, th, el), k, tys[0])
            return self.cond(e.test, env, after)
        if isinstance(e, ast.Call):
            return self.call(e, env, k)
        raise Untranslatable(ast.dump(e)[:80])

    def attribute(self, e, env, k):
        def fin(a, t):
            if e.attr == "dt":
                self.need(t, "I", "object of .dt")
                return k("(i_dt %s)" % a, "DT")
            if e.attr in DT_FIELDS:
                self.need(t, "DT", "object of .%s" % e.attr)
                return k("(%s %s)" % (DT_FIELDS[e.attr], a), "Z")
            if e.attr == "tzinfo":
                self.need(t, "DT", "object of .tzinfo")
                return k("(dt_tzinfo %s)" % a, "TZ")
            if e.attr == "mag":
                self.need(t, "QTY", "object of .mag")
                return k("(q_mag %s)" % a, "N")
            if e.attr == "qv":
                self.need(t, "QTY", "object of .qv")
                return k("(q_dims %s)" % a, "DIMS")
            if e.attr == "numerator":
                self.need(t, "N", "object of .numerator")
                return self.bound("num_numerator %s" % a, k, "Z")
            if e.attr == "denominator":
                self.need(t, "N", "object of .denominator")
                return self.bound("num_denominator %s" % a, k, "P")
            raise Untranslatable("attribute %s" % e.attr)
        return self.expr(e.value, env, fin)

    def binop(self, e, env, k):
        def fin(ats):
            (a, ta), (b, tb) = ats
            if isinstance(e.op, ast.Add):
                if (ta, tb) == ("DT", "TD"):
                    return self.bound("dt_plus_td %s %s" % (a, b), k, "DT")
                if (ta, tb) == ("S", "S"):
                    return k("(%s ++ %s)%%string" % (a, b), "S")
            if isinstance(e.op, ast.Sub):
                if (ta, tb) == ("DT", "TD"):
                    return self.bound("dt_minus_td %s %s" % (a, b), k, "DT")
                if (ta, tb) == ("DT", "DT"):
                    return self.bound("dt_minus_dt %s %s" % (a, b), k, "TD")
            if isinstance(e.op, ast.Div):
                if (ta, tb) == ("TD", "P"):
                    return k("(td_div %s %s)" % (a, b), "TD")
            raise Untranslatable("operator %s on kinds %s, %s" % (type(e.op).__name__, ta, tb))
        return self.exprs([e.left, e.right], env, fin)

    def compare(self, e, env, k):
        if len(e.ops) != 1:
            raise Untranslatable("chained comparison")
        op, right = e.ops[0], e.comparators[0]
        if isinstance(op, (ast.Is, ast.IsNot)):
            if not (isinstance(right, ast.Constant) and right.value is None):
                raise Untranslatable("`is` with something else than None")

            def fin1(a, t):
                self.need(t, "OPT", "operand of `is None`")
                c = "(is_none %s)" % a
                return k(c if isinstance(op, ast.Is) else "(negb %s)" % c, "B")
            return self.expr(e.left, env, fin1)

        def fin(ats):
            (a, ta), (b, tb) = ats
            if isinstance(op, (ast.Eq, ast.NotEq)):
                if (ta, tb) == ("B", "B"):
                    c = "(Bool.eqb %s %s)" % (a, b)
                elif (ta, tb) == ("DIMS", "DIMS"):
                    c = "(dims_eqb %s %s)" % (a, b)
                elif (ta, tb) == ("DT", "DT"):
                    c = "(dt_eq %s %s)" % (a, b)
                else:
                    raise Untranslatable("== on kinds %s, %s" % (ta, tb))
                return k(c if isinstance(op, ast.Eq) else "(negb %s)" % c, "B")
            names = {ast.Lt: "dt_lt", ast.LtE: "dt_le", ast.Gt: "dt_gt", ast.GtE: "dt_ge"}
            if type(op) in names and (ta, tb) == ("DT", "DT"):
                return self.bound("%s %s %s" % (names[type(op)], a, b), k, "B")
            raise Untranslatable("comparison %s on kinds %s, %s" % (type(op).__name__, ta, tb))
        return self.exprs([e.left, right], env, fin)

    def boolop(self, e, env, k):
        isand = isinstance(e.op, ast.And)

        def chain(vals):
            if len(vals) == 1:
                return lambda kk: self.cond(vals[0], env, kk)

            def run(kk):
                def after(c):
                    rest = chain(vals[1:])(lambda c2: "Ok %s" % c2)
                    v = self.fresh()
                    if isand:
                        return "do %s <- (if %s then (%s) else Ok false);\n%s" % (v, c, rest, kk(v))
                    return "do %s <- (if %s then Ok true else (%s));\n%s" % (v, c, rest, kk(v))
                return self.cond(vals[0], env, after)
            return run
        return chain(e.values)(lambda c: k(c, "B"))

    def cond(self, e, env, k):
        """k(bool atom) -> text"""
        def fin(a, t):
            if t in ("B", "M"):
                return k(a)
            raise Untranslatable("truth value of kind %s" % t)
        return self.expr(e, env, fin)

    def call(self, e, env, k):
        fn = e.func
        # ---- method calls
        if isinstance(fn, ast.Attribute):
            if e.keywords:
                raise Untranslatable("keyword arguments in a method call")
            if isinstance(fn.value, ast.Name) and fn.value.id == "datetime" and fn.attr == "fromisoformat":
                self.glob("datetime", env)

                def fin(ats):
                    if len(ats) != 1:
                        raise Untranslatable("fromisoformat arity")
                    self.need(ats[0][1], "S", "argument of fromisoformat")
                    return self.bound("dt_fromisoformat %s" % ats[0][0], k, "DT")
                return self.exprs(e.args, env, fin)
            if isinstance(fn.value, ast.Name) and fn.value.id not in env and fn.attr == "match":
                pred = self.unit.regex_pred(self.module, fn.value.id)

                def fin(ats):
                    if len(ats) != 1:
                        raise Untranslatable("match arity")
                    self.need(ats[0][1], "S", "argument of match")
                    return k("(%s %s)" % (pred, ats[0][0]), "M")
                return self.exprs(e.args, env, fin)
            if fn.attr == "utcoffset" and not e.args:
                return self.expr(fn.value, env, lambda a, t: (self.need(t, "DT", "object of .utcoffset()"),
                                                              k("(dt_utcoffset %s)" % a, "OPT"))[1])
            if fn.attr == "total_seconds" and not e.args:
                return self.expr(fn.value, env, lambda a, t: (self.need(t, "TD", "object of .total_seconds()"),
                                                              k("(td_total_seconds %s)" % a, "N"))[1])
            raise Untranslatable("method call .%s" % fn.attr)
        if not isinstance(fn, ast.Name):
            raise Untranslatable("call of " + ast.dump(fn)[:60])
        f = fn.id
        # ---- a closure's free function variable
        if f in env:
            if env[f] != "F":
                raise Untranslatable("call of non-function variable %s" % f)
            if e.keywords:
                raise Untranslatable("keyword arguments")

            def fin(ats):
                tys = tuple(t for _, t in ats)
                if f in self.fsigs:
                    if self.fsigs[f][0] != tys:
                        raise Untranslatable("function variable %s called at two types" % f)
                else:
                    self.fsigs[f] = (tys, self.want_ret or self.newvar())
                return self.bound("v_%s %s" % (f, " ".join(a for a, _ in ats)), k, self.fsigs[f][1])
            return self.exprs(e.args, env, fin)
        # ---- timedelta(days=e) / timedelta(seconds=e)
        if f == "timedelta":
            self.glob("timedelta", env)
            if e.args or len(e.keywords) != 1 or e.keywords[0].arg not in ("days", "seconds"):
                raise Untranslatable("timedelta(...) with other arguments than days= or seconds=")
            kw = e.keywords[0]

            def fin(a, t):
                if kw.arg == "days":
                    self.need(t, "Z", "timedelta(days=..)")
                    return self.bound("td_of_days %s" % a, k, "TD")
                return self.bound("timedelta_seconds %s" % self.as_num(a, t, "timedelta(seconds=..)"), k, "TD")
            return self.expr(kw.value, env, fin)
        if f == "datetime":
            self.glob("datetime", env)
            if len(e.args) != 3 or any(kw.arg != "tzinfo" for kw in e.keywords) or len(e.keywords) > 1:
                raise Untranslatable("datetime(...) with other arguments than y, m, d[, tzinfo=..]")

            def fin(ats):
                for a, t in ats[:3]:
                    self.need(t, "Z", "datetime field")
                if len(ats) == 3:
                    return self.bound("datetime3 %s" % " ".join(a for a, _ in ats), k, "DT")
                self.need(ats[3][1], "TZ", "datetime(.., tzinfo=..)")
                return self.bound("datetime3_tz %s" % " ".join(a for a, _ in ats), k, "DT")
            # positional arguments, then the keyword value: Python's evaluation order
            return self.exprs(list(e.args) + [kw.value for kw in e.keywords], env, fin)
        if e.keywords:
            raise Untranslatable("keyword arguments")
        if f == "Instant":
            self.glob("Instant", env)

            def fin(ats):
                if len(ats) != 1:
                    raise Untranslatable("Instant arity")
                self.need(ats[0][1], "DT", "Instant(..) argument")
                return k("(mkInstant %s)" % ats[0][0], "I")
            return self.exprs(e.args, env, fin)
        if f == "Quantity":
            self.glob("Quantity", env)

            def fin(ats):
                if len(ats) != 2:
                    raise Untranslatable("Quantity arity")
                self.need(ats[1][1], "DIMS", "Quantity(.., qv)")
                return k("(Build_quantity %s %s)" % (self.as_num(ats[0][0], ats[0][1], "Quantity(mag, ..)"), ats[1][0]), "QTY")
            return self.exprs(e.args, env, fin)
        if f == "isinstance":
            if len(e.args) != 2 or not isinstance(e.args[1], ast.Name):
                raise Untranslatable("isinstance shape")
            cls = e.args[1].id
            self.glob(cls, env) if cls in ("Instant", "frac") else None

            def fin(a, t):
                if cls == "Instant" and t == "I":
                    return k("true", "B")
                if cls == "frac" and t == "N":
                    return k("(is_frac %s)" % a, "B")
                raise Untranslatable("isinstance(%s, %s)" % (t, cls))
            return self.expr(e.args[0], env, fin)
        # ---- a direct call of another function of the package
        info = self.unit.translate(self.unit.resolve_name(self.module, f))
        if info["free"]:
            raise Untranslatable("direct call of closure %s" % f)

        def fin(ats):
            if [t for _, t in ats] != info["ptypes"]:
                raise Untranslatable("call %s(..) with kinds %s, declared %s" % (f, [t for _, t in ats], info["ptypes"]))
            return self.bound("%s %s" % (info["gname"], " ".join(a for a, _ in ats)), k, info["ret"])
        return self.exprs(e.args, env, fin)

    want_ret = None

    # ---------------------------------------------------------------- statements
    def terminates(self, stmts):
        if not stmts:
            return False
        last = stmts[-1]
        if isinstance(last, (ast.Return, ast.Raise)):
            return True
        if isinstance(last, ast.If):
            return self.terminates(last.body) and bool(last.orelse) and self.terminates(last.orelse)
        if isinstance(last, ast.Try):
            return self.terminates(last.body) and all(self.terminates(h.body) for h in last.handlers) \
                and not last.orelse and not last.finalbody
        return False

    def pure_message(self, e, env):
        if isinstance(e, ast.Constant) and isinstance(e.value, str):
            return True
        if isinstance(e, ast.BinOp) and isinstance(e.op, ast.Add):
            return self.pure_message(e.left, env) and self.pure_message(e.right, env)
        if isinstance(e, ast.Call) and not e.args and not e.keywords and isinstance(e.func, ast.Attribute) \
                and e.func.attr == "prettified" and isinstance(e.func.value, ast.Attribute) and e.func.value.attr == "qv" \
                and isinstance(e.func.value.value, ast.Name) and env.get(e.func.value.value.id) == "QTY":
            return True
        return False

    def set_ret(self, t):
        if self.ret is None:
            self.ret = t
        if self.ret != t:
            raise Untranslatable("returns of two kinds (%s, %s)" % (self.ret, t))

    def block(self, stmts, env):
        if not stmts:
            self.set_ret("U")
            return "Ok tt"
        s, rest = stmts[0], stmts[1:]
        if isinstance(s, ast.Expr) and isinstance(s.value, ast.Constant) and isinstance(s.value.value, str):
            return self.block(rest, env)
        if isinstance(s, ast.Pass):
            return self.block(rest, env)
        if isinstance(s, ast.Return):
            if s.value is None:
                self.set_ret("U")
                return "Ok tt"

            def fin(a, t):
                if t == "M":
                    raise Untranslatable("a match object is returned")
                self.set_ret(t)
                return "Ok %s" % a
            return self.expr(s.value, env, fin)
        if isinstance(s, ast.Raise):
            x = s.exc
            if s.cause is not None or not isinstance(x, ast.Call) or not isinstance(x.func, ast.Name) \
                    or x.func.id not in EXN or x.keywords or not all(self.pure_message(a, env) for a in x.args):
                raise Untranslatable("raise " + (ast.dump(x)[:60] if x is not None else ""))
            if x.func.id == "KaRuntimeError":
                self.glob("KaRuntimeError", env)
            elif x.func.id in env:
                raise Untranslatable("%s is a local variable" % x.func.id)
            return "Raise %s" % EXN[x.func.id]
        if isinstance(s, ast.If):
            def after(c):
                th = self.block(s.body + ([] if self.terminates(s.body) else rest), dict(env))
                el_stmts = list(s.orelse)
                el = self.block(el_stmts + ([] if el_stmts and self.terminates(el_stmts) else rest), dict(env))
                return "if %s then (%s)\nelse (%s)" % (c, th, el)
            # `if f(x, y)`: a free function variable called as a condition returns a bool
            return self.cond_ctx(s.test, env, after)
        if isinstance(s, ast.Assign) and len(s.targets) == 1 and isinstance(s.targets[0], ast.Name):
            name = s.targets[0].id
            self.check_name(name)
            if env.get(name) == "F":
                raise Untranslatable("assignment to closure variable %s" % name)

            def fin(a, t):
                if t == "M":
                    raise Untranslatable("a match object is stored")
                env2 = dict(env)
                env2[name] = t
                return "let v_%s := %s in\n%s" % (name, a, self.block(rest, env2))
            return self.expr(s.value, env, fin)
        if isinstance(s, ast.AugAssign) and isinstance(s.target, ast.Name) and isinstance(s.op, ast.Add):
            name = s.target.id
            if env.get(name) != "S":
                raise Untranslatable("+= on a variable of kind %s" % env.get(name))

            def fin(a, t):
                self.need(t, "S", "right side of +=")
                return "let v_%s := (v_%s ++ %s)%%string in\n%s" % (name, name, a, self.block(rest, dict(env)))
            return self.expr(s.value, env, fin)
        if isinstance(s, ast.Expr) and isinstance(s.value, ast.Call) and isinstance(s.value.func, ast.Name) \
                and s.value.func.id not in env and s.value.func.id not in SPECIAL:
            # a call statement of a package function: result dropped
            def fin(a, t):
                return self.block(rest, dict(env))
            text = self.call(s.value, env, fin)
            return text
        if isinstance(s, ast.Try):
            if s.orelse or s.finalbody or len(s.handlers) != 1:
                raise Untranslatable("try statement shape")
            h = s.handlers[0]
            if not isinstance(h.type, ast.Name) or h.type.id not in EXN or h.type.id in env:
                raise Untranslatable("except clause")
            if h.name is not None:
                self.check_name(h.name)
                if any(isinstance(n, ast.Name) and n.id == h.name for b in h.body for n in ast.walk(b)):
                    raise Untranslatable("the caught exception object is used")
            if not (self.terminates(s.body) and self.terminates(h.body)):
                raise Untranslatable("try/except that falls through")
            if rest:
                raise Untranslatable("statements after a try that always returns or raises")
            body = self.block(s.body, dict(env))
            handler = self.block(h.body, dict(env))
            return "match (%s) with\n| Raise %s => (%s)\n| r_ => r_\nend" % (body, EXN[h.type.id], handler)
        raise Untranslatable("statement " + type(s).__name__)

    def cond_ctx(self, e, env, k):
        return self.cond(e, env, k)


class FnTrBoolF(FnTr):
    """as FnTr; a free function variable called directly as the test of an `if` / conditional expression returns bool"""

    def cond(self, e, env, k):
        if isinstance(e, ast.Call) and isinstance(e.func, ast.Name) and env.get(e.func.id) == "F":
            self.want_ret = "B"
            try:
                return FnTr.cond(self, e, env, k)
            finally:
                self.want_ret = None
        return FnTr.cond(self, e, env, k)


class Unit:
    def __init__(self, srcdir):
        self.text = {}
        self.tree = {}
        for m in ("functions", "types", "units"):
            self.text[m] = open(os.path.join(srcdir, "ka", m + ".py"), encoding="utf-8").read()
            self.tree[m] = ast.parse(self.text[m])
        self.done = {}          # key -> info | Untranslatable
        self.active = set()
        self.emitted = []       # (key, text)
        self.imported_from_types = set()
        for s in self.tree["functions"].body:
            if isinstance(s, ast.ImportFrom) and s.module == "types" and s.level == 1:
                self.imported_from_types |= {a.name for a in s.names if a.asname is None}
        self.global_ok = {}

    # ---------------------------------------------------------------- module-level bindings
    def bindings(self, module, name):
        """every module-level statement that binds `name`"""
        out = []
        for n in self.tree[module].body:
            if isinstance(n, (ast.FunctionDef, ast.ClassDef, ast.AsyncFunctionDef)) and n.name == name:
                out.append(n)
            elif isinstance(n, (ast.Import, ast.ImportFrom)):
                for a in n.names:
                    if (a.asname or a.name.split(".")[0]) == name or a.name == "*":
                        out.append(n)
            elif isinstance(n, (ast.Assign, ast.AugAssign, ast.AnnAssign, ast.For, ast.With, ast.If, ast.Try, ast.While)):
                for t in ast.walk(n):
                    if isinstance(t, ast.Name) and isinstance(t.ctx, (ast.Store, ast.Del)) and t.id == name:
                        out.append(n)
                        break
                    if isinstance(t, (ast.Import, ast.ImportFrom)) and any((a.asname or a.name.split(".")[0]) == name for a in t.names):
                        out.append(n)
                        break
                    if isinstance(t, (ast.FunctionDef, ast.ClassDef)) and t.name == name and t is not n:
                        out.append(n)
                        break
            elif isinstance(n, ast.Global):
                pass
        # `global name` inside a function body that assigns it
        for n in ast.walk(self.tree[module]):
            if isinstance(n, ast.Global) and name in n.names:
                out.append(n)
        return out

    def the_binding(self, module, name):
        bs = self.bindings(module, name)
        if len(bs) != 1:
            raise Untranslatable("%s is bound %d times at module level in %s.py" % (name, len(bs), module))
        return bs[0]

    def check_global(self, module, name):
        key = (module, name)
        if key not in self.global_ok:
            try:
                self._check_global(module, name)
                self.global_ok[key] = None
            except Untranslatable as x:
                self.global_ok[key] = x
        if self.global_ok[key] is not None:
            raise Untranslatable(str(self.global_ok[key]))

    def import_from(self, module, name, frm, orig, level):
        b = self.the_binding(module, name)
        if not (isinstance(b, ast.ImportFrom) and b.module == frm and b.level == level
                and any(a.name == orig and (a.asname or a.name) == name for a in b.names)):
            raise Untranslatable("%s is not `from %s import %s` in %s.py" % (name, frm, orig, module))

    def init_stores(self, module, cls, fields):
        """class cls: def __init__(self, f1, ..): self.f1 = f1; ..  (exactly)"""
        node = self.the_binding(module, cls)
        if not isinstance(node, ast.ClassDef) or node.bases or node.decorator_list or node.keywords:
            raise Untranslatable("%s is not a plain class" % cls)
        inits = [n for n in node.body if isinstance(n, ast.FunctionDef) and n.name == "__init__"]
        if len(inits) != 1:
            raise Untranslatable("%s.__init__" % cls)
        init = inits[0]
        a = init.args
        if [p.arg for p in a.args] != ["self"] + fields or a.vararg or a.kwarg or a.kwonlyargs or a.defaults or init.decorator_list:
            raise Untranslatable("%s.__init__ parameters" % cls)
        body = [s for s in init.body if not (isinstance(s, ast.Expr) and isinstance(s.value, ast.Constant))]
        if len(body) != len(fields):
            raise Untranslatable("%s.__init__ body" % cls)
        for s, f in zip(body, fields):
            if not (isinstance(s, ast.Assign) and len(s.targets) == 1 and isinstance(s.targets[0], ast.Attribute)
                    and isinstance(s.targets[0].value, ast.Name) and s.targets[0].value.id == "self"
                    and s.targets[0].attr == f and isinstance(s.value, ast.Name) and s.value.id == f):
                raise Untranslatable("%s.__init__ does not store %s" % (cls, f))
        # attribute access must be the plain instance attribute
        for n in node.body:
            if isinstance(n, ast.FunctionDef) and n.name in ("__getattr__", "__getattribute__", "__setattr__", "__new__", "__bool__"):
                raise Untranslatable("%s defines %s" % (cls, n.name))
            if isinstance(n, ast.FunctionDef) and n.name in fields or \
                    (isinstance(n, ast.Assign) and any(isinstance(t, ast.Name) and t.id in fields for t in n.targets)):
                raise Untranslatable("%s has a class-level %s" % (cls, n.name if isinstance(n, ast.FunctionDef) else "attribute"))

    def _check_global(self, module, name):
        if module != "types":
            raise Untranslatable("global %s used in %s.py" % (name, module))
        if name == "datetime":
            return self.import_from("types", "datetime", "datetime", "datetime", 0)
        if name == "timedelta":
            return self.import_from("types", "timedelta", "datetime", "timedelta", 0)
        if name == "frac":
            return self.import_from("types", "frac", "fractions", "Fraction", 0)
        if name == "SECONDS":
            self.import_from("types", "SECONDS", "units", "S", 1)
            b = self.the_binding("units", "S")
            v = b.value if isinstance(b, ast.Assign) and len(b.targets) == 1 else None
            if not (isinstance(v, ast.Call) and isinstance(v.func, ast.Attribute) and v.func.attr == "get_basis_vector"
                    and isinstance(v.func.value, ast.Name) and v.func.value.id == "QSPACE" and len(v.args) == 1
                    and not v.keywords and isinstance(v.args[0], ast.Constant) and v.args[0].value == "s"):
                raise Untranslatable("units.S is not QSPACE.get_basis_vector(\"s\")")
            return
        if name == "Instant":
            self.init_stores("types", "Instant", ["dt"])
            return
        if name == "Quantity":
            self.init_stores("types", "Quantity", ["mag", "qv"])
            return
        if name == "KaRuntimeError":
            b = self.the_binding("types", "KaRuntimeError")
            if not (isinstance(b, ast.ClassDef) and len(b.bases) == 1 and isinstance(b.bases[0], ast.Name)
                    and b.bases[0].id == "Exception"):
                raise Untranslatable("KaRuntimeError is not a direct subclass of Exception")
            return
        raise Untranslatable("global %s" % name)

    def regex_pred(self, module, name):
        b = self.the_binding(module, name)
        v = b.value if isinstance(b, ast.Assign) and len(b.targets) == 1 and isinstance(b.targets[0], ast.Name) else None
        if not (isinstance(v, ast.Call) and isinstance(v.func, ast.Attribute) and v.func.attr == "compile"
                and isinstance(v.func.value, ast.Name) and v.func.value.id == "re" and len(v.args) == 1 and not v.keywords
                and isinstance(v.args[0], ast.Constant) and isinstance(v.args[0].value, str)):
            raise Untranslatable("%s is not re.compile(<pattern>)" % name)
        rb = self.the_binding(module, "re")
        if not (isinstance(rb, ast.Import) and any(a.name == "re" and a.asname is None for a in rb.names)):
            raise Untranslatable("re is not `import re`")
        pat = v.args[0].value
        if pat not in REGEXES:
            raise Untranslatable("regular expression %r has no model predicate" % pat)
        return REGEXES[pat]

    # ---------------------------------------------------------------- lookup
    def toplevel(self, module, name):
        b = self.the_binding(module, name)
        if not isinstance(b, ast.FunctionDef):
            raise Untranslatable("%s is not a function of %s.py" % (name, module))
        return b

    def resolve_name(self, module, name):
        """a global name called inside `module` -> key of DECL"""
        if module == "types":
            key = "types:" + name
        else:
            here = [n for n in self.tree["functions"].body if isinstance(n, ast.FunctionDef) and n.name == name]
            if here:
                key = "functions:" + name
            elif name in self.imported_from_types:
                self.import_ok(name)
                key = "types:" + name
            else:
                raise Untranslatable("%s is not a function of this package" % name)
        if key not in DECL and key not in OPAQUE:
            raise Untranslatable("%s is not a function of this package" % name)
        return key

    def import_ok(self, name):
        b = self.the_binding("functions", name)
        if not (isinstance(b, ast.ImportFrom) and b.module == "types" and b.level == 1):
            raise Untranslatable("%s is rebound in functions.py" % name)

    def node_of(self, key):
        module, qual = key.split(":")
        parts = qual.split(".")
        first = self.the_binding(module, parts[0])
        if isinstance(first, ast.ClassDef):
            if len(parts) != 2 or first.bases or first.decorator_list or first.keywords:
                raise Untranslatable("class %s" % parts[0])
            ds = [n for n in first.body if isinstance(n, ast.FunctionDef) and n.name == parts[1]]
            if len(ds) != 1:
                raise Untranslatable("%d definitions of %s" % (len(ds), qual))
            for n in first.body:
                if isinstance(n, ast.Assign) and any(isinstance(t, ast.Name) and t.id == parts[1] for t in n.targets):
                    raise Untranslatable("%s is rebound in the class body" % qual)
            return module, qual, ds[0], []
        if not isinstance(first, ast.FunctionDef):
            raise Untranslatable("%s is not a function of %s.py" % (parts[0], module))
        node = first
        outer_params = []
        for p in parts[1:]:
            outer_params.append([a.arg for a in node.args.args])
            ds = [n for n in node.body if isinstance(n, ast.FunctionDef) and n.name == p]
            if len(ds) != 1:
                raise Untranslatable("%d nested definitions %s" % (len(ds), p))
            node = ds[0]
        return module, qual, node, outer_params

    # ---------------------------------------------------------------- one function
    def translate(self, key):
        if key in OPAQUE:
            raise Untranslatable("%s %s" % (key, OPAQUE[key]))
        if key in self.done:
            if isinstance(self.done[key], Untranslatable):
                raise Untranslatable("callee %s is untranslatable" % key)
            return self.done[key]
        if key in self.active:
            raise Untranslatable("recursion through %s" % key)
        self.active.add(key)
        try:
            info = self._translate(key)
            self.done[key] = info
            self.emitted.append((key, info["text"]))
            return info
        except Untranslatable as x:
            self.done[key] = x
            self.emitted.append((key, "(* UNTRANSLATABLE %s: %s *)" % (key, comment_safe(x))))
            raise
        finally:
            self.active.discard(key)

    def check_args(self, node):
        a = node.args
        if a.vararg or a.kwarg or a.kwonlyargs or a.defaults or a.kw_defaults or getattr(a, "posonlyargs", []):
            raise Untranslatable("parameter list of %s" % node.name)
        if node.decorator_list:
            raise Untranslatable("decorated function %s" % node.name)

    def _translate(self, key):
        module, qual, node, outer_params = self.node_of(key)
        decl = DECL[key]
        self.check_args(node)
        pnames = [a.arg for a in node.args.args]
        if len(pnames) != len(decl["params"]):
            raise Untranslatable("%s has %d parameters, declared %d" % (key, len(pnames), len(decl["params"])))
        if len(set(pnames)) != len(pnames):
            raise Untranslatable("duplicate parameter names")
        for n in ast.walk(node):
            if isinstance(n, (ast.Global, ast.Nonlocal, ast.FunctionDef, ast.Lambda, ast.AsyncFunctionDef, ast.ClassDef,
                              ast.Yield, ast.YieldFrom, ast.Await, ast.NamedExpr)) and n is not node:
                raise Untranslatable("%s inside %s" % (type(n).__name__, key))
        outer = [p for ps in outer_params for p in ps]
        assigned = {t.id for t in ast.walk(node) if isinstance(t, ast.Name) and isinstance(t.ctx, ast.Store)}
        used = []
        for n in ast.walk(node):
            if isinstance(n, ast.Name) and isinstance(n.ctx, ast.Load) and n.id in outer and n.id not in pnames \
                    and n.id not in assigned and n.id not in used:
                used.append(n.id)
        declared_free = decl.get("free", {})
        if set(used) != set(declared_free):
            raise Untranslatable("free variables of %s are %s, declared %s" % (key, used, sorted(declared_free)))
        if len(used) > 1:
            raise Untranslatable("closure with more than one free variable")
        free = {v: declared_free[v] for v in used}
        cls = FnTrBoolF if free else FnTr
        tr = cls(self, module, qual, list(zip(pnames, decl["params"])), free)
        body = tr.block(node.body, dict(tr.env0))
        if tr.ret is None:
            raise Untranslatable("%s never returns" % key)
        gname = "g_" + qual.replace(".", "_")
        binders = []
        freeinfo = []
        for v in used:
            if v not in tr.fsigs:
                raise Untranslatable("function variable %s is never called" % v)
            ty = ("F", tr.fsigs[v][0], tr.fsigs[v][1])
            freeinfo.append((v, ty))
            binders.append("(v_%s : %s)" % (v, coq_ty(ty)))
        ptypes = [tr.env0[p] for p in pnames]
        for p, t in zip(pnames, ptypes):
            binders.append("(v_%s : %s)" % (p, coq_ty(t)))
        tv = ""
        if tr.tvars:
            tv = "{%s : Type} " % " ".join(v[1:] for v in tr.tvars)
        text = "(* %s.py:%d  %s *)\nDefinition %s %s%s : res %s :=\n%s." % (
            module, node.lineno, qual, gname, tv, " ".join(binders), coq_ty(tr.ret), body)
        return dict(key=key, module=module, qual=qual, gname=gname, free=freeinfo, ptypes=ptypes, ret=tr.ret, text=text)

    # ---------------------------------------------------------------- registrations
    def section_statements(self):
        lines = self.text["functions"].splitlines()
        marks = [i + 1 for i, l in enumerate(lines) if l.strip() == "# Dates & times #"]
        if len(marks) != 1:
            raise Untranslatable("%d section markers '# Dates & times #'" % len(marks))
        m = marks[0]

        def banner(l):
            l = l.strip()
            return len(l) >= 3 and set(l) == {"#"}
        if not (banner(lines[m - 2]) and banner(lines[m])):
            raise Untranslatable("the section marker is not inside a banner")
        ends = [i + 1 for i, l in enumerate(lines) if i + 1 > m + 1 and banner(l)]
        if not ends:
            raise Untranslatable("end of the section (next banner) not found")
        end = ends[0]
        body = self.tree["functions"].body
        names = {k.split(":")[1] for k in list(DECL) + list(OPAQUE) if k.startswith("types:") and "." not in k}
        for s in body:
            if not (m < s.lineno < end):
                if isinstance(s, (ast.FunctionDef, ast.ClassDef, ast.Import, ast.ImportFrom)):
                    continue
                for n in ast.walk(s):
                    if isinstance(n, ast.Call):
                        for a in list(n.args) + [k.value for k in n.keywords]:
                            for x in ast.walk(a):
                                if isinstance(x, ast.Name) and (x.id == "Instant" or x.id in names):
                                    raise Untranslatable("%s is used outside the section, line %d" % (x.id, n.lineno))
        inside = [s for s in body if m < s.lineno < end]
        for s in body:
            if s.lineno <= m < (s.end_lineno or s.lineno) or s.lineno < end <= (s.end_lineno or s.lineno):
                raise Untranslatable("a statement straddles the section boundary, line %d" % s.lineno)
        return inside

    def registrations(self):
        self.regs = []
        for s in self.section_statements():
            self.reg_stmt(s, {}, None)
        return self.regs

    def reg_stmt(self, s, env, scope):
        if isinstance(s, ast.Expr) and isinstance(s.value, ast.Constant) and isinstance(s.value.value, str):
            return
        if isinstance(s, ast.Expr) and isinstance(s.value, ast.Call):
            return self.reg_call(s.value, env, scope)
        raise Untranslatable("section statement %s at line %d" % (type(s).__name__, s.lineno))

    def reg_call(self, call, env, scope):
        if not isinstance(call.func, ast.Name):
            raise Untranslatable("call at line %d" % call.lineno)
        f = call.func.id
        if f == "register_function":
            self.check_register_function()
            if len(call.args) not in (3, 4) or any(k.arg != "docstring" for k in call.keywords):
                raise Untranslatable("register_function arguments at line %d" % call.lineno)
            for extra in list(call.args[3:]) + [k.value for k in call.keywords]:
                if not (isinstance(extra, ast.Constant) and isinstance(extra.value, (str, type(None)))):
                    raise Untranslatable("docstring argument at line %d" % call.lineno)
            name = self.value(call.args[1], env, scope)
            sig = self.value(call.args[2], env, scope)
            if name[0] != "S" or sig[0] != "SIG":
                raise Untranslatable("register_function name/signature at line %d" % call.lineno)
            fv = self.value(call.args[0], env, scope, hint=sig[1])
            if fv[0] != "FN":
                raise Untranslatable("registered object at line %d is not a function" % call.lineno)
            self.regs.append((name[1], sig[1], fv[1]))
            return
        # a registrar: its body is interpreted
        if call.keywords:
            raise Untranslatable("keywords at line %d" % call.lineno)
        node = self.toplevel("functions", f)
        self.check_args(node)
        params = [a.arg for a in node.args.args]
        if len(params) != len(call.args):
            raise Untranslatable("arity of %s at line %d" % (f, call.lineno))
        env2 = {}
        for p, a in zip(params, call.args):
            env2[p] = self.value(a, env, scope)
        scope2 = dict(qual=f, locals={n.name: n for n in node.body if isinstance(n, ast.FunctionDef)})
        for b in node.body:
            if isinstance(b, ast.FunctionDef):
                continue
            if isinstance(b, ast.Expr) and isinstance(b.value, ast.Constant):
                continue
            if isinstance(b, ast.Expr) and isinstance(b.value, ast.Call):
                self.reg_call(b.value, env2, scope2)
                continue
            raise Untranslatable("statement %s in registrar %s" % (type(b).__name__, f))

    def check_register_function(self):
        """register_function itself must still append FunctionHeader(name, f, FunctionSignature(arg_types, ...))"""
        node = self.toplevel("functions", "register_function")
        ps = [a.arg for a in node.args.args][:3]
        if ps != ["f", "name", "arg_types"]:
            raise Untranslatable("register_function parameters %s" % ps)
        for n in ast.walk(node):
            if isinstance(n, ast.Call) and isinstance(n.func, ast.Name) and n.func.id == "FunctionHeader":
                if len(n.args) >= 3 and isinstance(n.args[0], ast.Name) and n.args[0].id == "name" \
                        and isinstance(n.args[1], ast.Name) and n.args[1].id == "f" \
                        and isinstance(n.args[2], ast.Call) and isinstance(n.args[2].func, ast.Name) \
                        and n.args[2].func.id == "FunctionSignature" and n.args[2].args \
                        and isinstance(n.args[2].args[0], ast.Name) and n.args[2].args[0].id == "arg_types":
                    return
        raise Untranslatable("register_function no longer builds FunctionHeader(name, f, FunctionSignature(arg_types, ..))")

    def type_name_ok(self, name):
        """Instant / Quantity come from .types, Integral from numbers — each bound once in functions.py"""
        b = self.the_binding("functions", name)
        want = ("numbers", 0) if name == "Integral" else ("types", 1)
        if not (isinstance(b, ast.ImportFrom) and (b.module, b.level) == want
                and any(a.name == name and a.asname is None for a in b.names)):
            raise Untranslatable("%s is not imported from %s in functions.py" % (name, want[0]))

    def value(self, e, env, scope, hint=None):
        if isinstance(e, ast.Constant) and isinstance(e.value, str):
            return ("S", e.value)
        if isinstance(e, ast.Name) and e.id in env:
            return env[e.id]
        if isinstance(e, ast.Name) and e.id in KIND_OF_TYPE and not (scope and e.id in scope["locals"]):
            self.type_name_ok(e.id)
            return ("T", KIND_OF_TYPE[e.id])
        if isinstance(e, ast.Tuple):
            vs = [self.value(x, env, scope) for x in e.elts]
            if not all(v[0] == "T" for v in vs):
                raise Untranslatable("signature at line %d" % e.lineno)
            return ("SIG", [v[1] for v in vs])
        if isinstance(e, ast.Call) and isinstance(e.func, ast.Name) and e.func.id == "tuple" and not e.args and not e.keywords \
                and not self.bindings("functions", "tuple"):
            return ("SIG", [])
        return ("FN", self.fvalue(e, env, scope, hint))

    def closure(self, key, bound_env):
        """function value for the (possibly nested) definition `key` with its free variables bound"""
        module, qual = key.split(":")
        pyqual = "ka.%s.%s" % (module, ".<locals>.".join(qual.split(".")))
        if key in OPAQUE:
            return dict(key=pyqual, term=None, args=None, ret=None, why=OPAQUE[key])
        info = self.translate(key)
        args, ret = list(info["ptypes"]), info["ret"]
        term = info["gname"]
        if info["free"]:
            cells = []
            for v, ty in info["free"]:
                if v not in bound_env:
                    raise Untranslatable("free variable %s of %s is unbound at the registration" % (v, key))
                b = bound_env[v]
                if b[0] != "FN" or b[1]["term"] is None:
                    raise Untranslatable("free variable %s of %s bound to a non-function or an untranslated function" % (v, key))
                fargs, fret = ty[1], ty[2]
                if len(fargs) != len(b[1]["args"]):
                    raise Untranslatable("arity of function bound to %s" % v)
                sub = {}

                def unify(a, c):
                    if is_tvar(a):
                        if sub.setdefault(a, c) != c:
                            raise Untranslatable("kinds of function bound to %s" % v)
                    elif a != c:
                        raise Untranslatable("kinds of function bound to %s" % v)
                for a, c in zip(fargs, b[1]["args"]):
                    unify(a, c)
                unify(fret, b[1]["ret"])
                args = [sub.get(a, a) for a in args]
                ret = sub.get(ret, ret)
                cells.append("%s=%s" % (v, b[1]["key"]))
                term += " " + b[1]["term"]
            pyqual += "[" + ",".join(cells) + "]"
            term = "(" + term + ")"
        if any(is_tvar(a) for a in args) or is_tvar(ret):
            raise Untranslatable("kinds of %s not determined at the registration" % key)
        return dict(key=pyqual, term=term, args=args, ret=ret)

    def instant_eq(self, negate, hint):
        """operator.eq / operator.ne at (Instant, Instant)"""
        b = self.the_binding("functions", "operator")
        if not (isinstance(b, ast.Import) and any(a.name == "operator" and a.asname is None for a in b.names)):
            raise Untranslatable("operator is not `import operator`")
        if hint != ["KInstant", "KInstant"]:
            raise Untranslatable("operator.eq/ne at signature %s" % (hint,))
        info = self.translate("types:Instant.__eq__")
        if info["ptypes"] != ["I", "I"] or info["ret"] != "B":
            raise Untranslatable("Instant.__eq__ kinds")
        cls = self.the_binding("types", "Instant")
        if any(isinstance(n, ast.FunctionDef) and n.name == "__ne__" for n in cls.body):
            raise Untranslatable("Instant defines __ne__")
        if negate:
            term = "(fun a b => do r <- g_Instant___eq__ a b; Ok (negb r))"
        else:
            term = "(fun a b => g_Instant___eq__ a b)"
        return dict(key="_operator.ne" if negate else "_operator.eq", term=term, args=["I", "I"], ret="B")

    def fvalue(self, e, env, scope, hint):
        if isinstance(e, ast.Name):
            if scope and e.id in scope["locals"]:
                return self.closure("functions:" + scope["qual"] + "." + e.id, env)
            return self.closure(self.resolve_name("functions", e.id), {})
        if isinstance(e, ast.Attribute) and isinstance(e.value, ast.Name) and e.value.id == "operator" \
                and e.attr in ("eq", "ne") and "operator" not in env:
            return self.instant_eq(e.attr == "ne", hint)
        if isinstance(e, ast.Call) and isinstance(e.func, ast.Name) and not e.keywords:
            # a closure factory: def g(p): def inner(..): ..; return inner
            g = e.func.id
            node, gq = self.toplevel("functions", g), g
            self.check_args(node)
            body = [b for b in node.body if not (isinstance(b, ast.Expr) and isinstance(b.value, ast.Constant))]
            if len(body) != 2 or not isinstance(body[0], ast.FunctionDef) or not isinstance(body[1], ast.Return) \
                    or not isinstance(body[1].value, ast.Name) or body[1].value.id != body[0].name:
                raise Untranslatable("%s is not a closure factory" % g)
            params = [a.arg for a in node.args.args]
            if len(params) != len(e.args):
                raise Untranslatable("arity of %s" % g)
            env2 = {p: self.value(a, env, scope, hint=hint) for p, a in zip(params, e.args)}
            return self.closure("functions:" + gq + "." + body[0].name, env2)
        raise Untranslatable("registered object " + ast.dump(e)[:60])


def gen(dump):
    u = Unit(C.SRC)
    for key in ORDER:
        try:
            u.translate(key)
        except Untranslatable:
            pass
    L = ["(* GENERATED by harness/trans_instant.py from src/ka/types.py (Instant .. validate_time) and src/ka/functions.py",
         "   (section # Dates & times #, intify, register_commutative_op) by AST translation — do not edit", MAPPING.rstrip("\n"),
         "*)", PRELUDE]
    try:
        regs = u.registrations()
        reg_err = None
    except Untranslatable as x:
        regs, reg_err = None, x
    for key, text in u.emitted:
        L.append(text)
        L.append("")
    for key, why in OPAQUE.items():
        L.append("(* NOT TRANSLATED %s: %s *)" % (key, why))
    L.append("")
    L.append("(* ---- registrations of the section, in source order: (name, signature, key of the registered function) *)")
    if regs is None:
        L.append("(* UNTRANSLATABLE registrations: %s *)" % comment_safe(reg_err))
    else:
        try:
            L.append(gen_regs(regs))
        except Untranslatable as x:
            L.append("(* UNTRANSLATABLE registrations: %s *)" % comment_safe(x))
    return "\n".join(L) + "\n"


def gen_regs(regs):
    rows = []
    cases = []
    seen = {}
    for name, sig, fv in regs:
        rows.append("(%s, [%s], %s)" % (coq_str(name), "; ".join(sig), coq_str(fv["key"])))
        if fv["term"] is None:
            continue
        if [TY_OF_KIND[k] for k in sig] != fv["args"]:
            raise Untranslatable("%s registered for %s with signature %s but its parameters are declared %s"
                                 % (fv["key"], name, sig, fv["args"]))
        if fv["ret"] not in VAL_CTOR:
            raise Untranslatable("%s returns kind %s" % (fv["key"], fv["ret"]))
        k = (fv["key"], tuple(sig))
        if k in seen:
            if seen[k] != fv["term"]:
                raise Untranslatable("two different functions with key %s" % fv["key"])
            continue
        seen[k] = fv["term"]
        pats = "; ".join("%s a%d" % (VAL_CTOR[TY_OF_KIND[kd]], i) for i, kd in enumerate(sig))
        args = " ".join("a%d" % i for i in range(len(sig)))
        cases.append((fv["key"], "[%s] => do r <- %s %s; Ok (%s r)" % (pats, fv["term"], args, VAL_CTOR[fv["ret"]])))
    out = ["Definition g_registered : list (string * list skind * string) := [\n  " + ";\n  ".join(rows) + "\n]."]
    out.append("")
    out.append("(* the function a key denotes, applied to arguments of the registered shape *)")
    out.append("Definition g_run (impl : string) (args : list val) : res val :=")
    keys = []
    for key, _ in cases:
        if key not in keys:
            keys.append(key)
    for key in keys:
        out.append("  if String.eqb impl %s then\n    match args with\n%s\n    | _ => Raise Unmodelled\n    end else" % (
            coq_str(key), "\n".join("    | " + c for kk, c in cases if kk == key)))
    out.append("  Raise Unmodelled.")
    return "\n".join(out)


GENERATES = {"GenInstantSrc.v": gen}

if __name__ == "__main__":
    sys.stdout.write(gen({}))
