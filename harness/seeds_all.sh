#!/bin/bash
# Re-run every kept change under seeded/ against the checks (private Coq/build copies, 5 at a time).
# Results: build/final_<seed>.json ; summary: harness/seedrecord.py
cd "$(dirname "$0")/.."
rm -f build/final_*.json build/final_done
( ls -d seeded/C??-b? seeded/C??-c? | sed 's/$/ --benign/'; ls -d seeded/C??-1 seeded/C??-2 seeded/C??-r2-? seeded/C??-r3-? seeded/C??-r4-? seeded/C??-r5-? seeded/C??-r6-? ) \
  | xargs -P ${1:-5} -L 1 sh -c 's=$(basename $0); /venv/bin/python harness/seedtest.py $0 $1 > build/final_$s.json 2>&1'
echo done > build/final_done
