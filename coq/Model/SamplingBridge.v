(* SamplingBridge.v — small faithful definitions of the parts of the sampling code that
   Model/Sampling.v idealises or (since the repairs ea2ad56, 7f44cc1 and the exact UniformInt
   arithmetic in /repo) writes differently from the source.  Definitions only.
   GenFacts/SamplingSrcFacts.v proves the AST translation of the source (Gen/GenSamplingSrc.v)
   EQUAL to these, and these related to Sampling.v's definitions (refinement lemmas there).

   Nothing here replaces Sampling.v: the theorems of C18 stay about Sampling.v. *)
From Ka Require Export Model.Sampling.

Open Scope Q_scope.

(* ------------------------------------------------------------------------- *)
(* Poisson.sample as it is written now:
     u = unit(); k = 0; p = 0; log_mu = math.log(self.mu)
     while True:
         q = math.exp(k*log_mu - self.mu - math.lgamma(k+1))
         p += q
         if p > u or (k > self.mu and p + q == p): break
         k += 1
     return k
   Generic over the pmf (the term q of round k); [mu] only enters the stagnation guard.
   Sampling.v's poisson_loop is this loop without the second disjunct (and with the
   accumulator reduced by Qred).  Over exact rationals p + q == p says q == 0. *)
Fixpoint poisson_loop_g (pmf : nat -> Q) (mu u : Q) (fuel k : nat) (p : Q) : res nat :=
  match fuel with
  | O => Raise OutOfFuel
  | S f => let q := pmf k in
           let p' := p + q in
           if Qltb u p' || (Qltb mu (inject_Z (Z.of_nat k)) && Qeqb (p' + q) p') then Ok k
           else poisson_loop_g pmf mu u f (S k) p'
  end.
Definition poisson_gen_g (pmf : nat -> Q) (mu : Q) (fuel : nat) (u : Q) : res nat :=
  poisson_loop_g pmf mu u fuel 0 0.

(* the term as the source computes it: exp(k*log(mu) - mu - lgamma(k+1)), over the float kernels *)
Definition poisson_logpmf (expK logK lgammaK : Q -> Q) (mu : Q) (k : nat) : Q :=
  expK (inject_Z (Z.of_nat k) * logK mu - mu - lgammaK (inject_Z (Z.of_nat k + 1))).

(* ------------------------------------------------------------------------- *)
(* UniformInt.sample in exact integer arithmetic:
     n, d = unit().as_integer_ratio(); return self.lo + n*(self.hi-self.lo+1)//d *)
Definition uniformint_ratio (lo hi : Z) (u : Q) : Z :=
  let r := Qred u in (lo + (Qnum r * (hi - lo + 1)) / Z.pos (Qden r))%Z.

(* ------------------------------------------------------------------------- *)
(* utils.erfinv on the open interval (-1, 1): 0 at 0, otherwise ndtri((z+1)/2.0)/math.sqrt(2).
   (At z = -1 / 1 the source returns -inf / inf, outside [-1, 1] it raises ValueError; Sampling.v
   handles the only reachable one of these, z = -1 at the draw u = 0, in gaussian_u.) *)
Definition erfinv_fin (ndtriK : Q -> Q) (sqrt2 : Q) (z : Q) : Q :=
  if Qeqb z 0 then 0 else ndtriK ((z + 1) / 2) / sqrt2.

(* ------------------------------------------------------------------------- *)
(* the number of draws one sample() consumes: a function of the parameters alone *)
Definition ndraws (X : law) : nat :=
  match X with
  | Binomial n _ => Z.to_nat n
  | Geometric p => if Qeqb p 1 then O else 1%nat
  | _ => 1%nat
  end.
Definition advance (s : rstate) (n : nat) : rstate := {| src := src s; pos := (pos s + n)%nat |}.
