(* Arrays.v — ranges, array aggregates and comprehensions as the code stands
   (functions.py array_prod .. ka_range, eval.py eval_comprehension / bool_like,
   parse.py parse_array / parse_clause / parse_maybe_range).  Definitions only.

   Elements are the scalars of Model/Qty.v (numbers and quantities, [qval]) or nested
   arrays.  Lazy combinatorics appear with their resolved values (property C05 proves that
   resolving never changes a value).  Floats are the idealised [NFlt]. *)
From Ka Require Export Model.Num Model.Qty.
From Ka Require Import Model.Comb.
Local Open Scope Z_scope.

(* ------------------------------------------------------------------------- *)
(* Integer range: Array(list(range(lo, hi+1))) — a counting loop of hi+1-lo steps *)
Fixpoint upto (n : nat) (cur : Z) : list Z :=
  match n with O => [] | S k => cur :: upto k (cur + 1) end.
Definition int_range (lo hi : Z) : list Z := upto (Z.to_nat (hi + 1 - lo)) lo.

(* ------------------------------------------------------------------------- *)
(* ka_range: guards, then  curr = lo; while curr <= hi: append; curr = curr + step *)
Definition num_true (n : num) : bool := negb (Qis_zero (toQ n)).

Fixpoint range_loop (fuel : nat) (curr hi step : num) : res (list num) :=
  match fuel with
  | O => Raise OutOfFuel
  | S f =>
      match n_le curr hi with
      | Raise x => Raise x
      | Ok c =>
          if num_true c then
            match n_add curr step with
            | Raise x => Raise x
            | Ok nxt =>
                match range_loop f nxt hi step with
                | Raise x => Raise x
                | Ok rest => Ok (curr :: rest)
                end
            end
          else Ok []
      end
  end.

(* iterations that append: floor((hi-lo)/step)+1; one more test ends the loop *)
Definition range_fuel (lo hi step : num) : nat :=
  Z.to_nat (Qfloor ((toQ hi - toQ lo) / toQ step)) + 2.

Definition ka_range (lo hi step : num) : res (list num) :=
  match n_le lo hi with
  | Raise x => Raise x
  | Ok c =>
      if negb (num_true c) then Raise FunctionArgError
      else match n_lt (NInt 0) step with
           | Raise x => Raise x
           | Ok c2 =>
               if negb (num_true c2) then Raise FunctionArgError
               else range_loop (range_fuel lo hi step) lo hi step
           end
  end.

(* ------------------------------------------------------------------------- *)
(* values *)
Inductive value := VS (s : qval) | VA (l : list value).

Definition vint (z : Z) : value := VS (VN (NInt z)).
Definition vbool (b : bool) : value := vint (if b then 1 else 0).

(* Python truthiness of a dispatch result used in `if dispatch(...)` *)
Definition truthy (v : value) : bool :=
  match v with
  | VS (VN n) => num_true n
  | VS (VQ _ _) => true
  | VA l => match l with [] => false | _ => true end
  end.

Section Elems.
Variable ndims : nat.

Definition lift_s (r : res qval) : res value :=
  match r with Ok s => Ok (VS s) | Raise e => Raise e end.

(* dispatch("+"|"-"|"*"|"/", (a, b)) on array elements: only scalars have a signature *)
Definition v_binop (o : qop) (a b : value) : res value :=
  match a, b with
  | VS x, VS y => lift_s (q_binop ndims o x y)
  | _, _ => Raise NoMatchingFunctionSignatureError
  end.

(* comparisons; "==" and "!=" have the (Any, Any) catch-all, the others do not *)
Definition v_cmp (c : qcmp) (a b : value) : res value :=
  match a, b with
  | VS x, VS y => lift_s (q_cmp ndims c x y)
  | _, _ => match c with
            | QEq => Ok (vint 0)
            | QNe => Ok (vint 1)
            | _ => Raise NoMatchingFunctionSignatureError
            end
  end.

(* a monadic left fold: for e in l: acc = f(acc, e) *)
Fixpoint foldM {A B} (f : A -> B -> res A) (l : list B) (acc : A) : res A :=
  match l with
  | [] => Ok acc
  | e :: r => match f acc e with Raise x => Raise x | Ok acc' => foldM f r acc' end
  end.

Definition array_sum (l : list value) : res value :=
  match l with
  | [] => Ok (vint 0)
  | x :: r => foldM (fun acc e => v_binop QAdd acc e) r x
  end.

(* result = 1; for e: result = dispatch("*", (e, result)) *)
Definition array_prod (l : list value) : res value :=
  foldM (fun acc e => v_binop QMul e acc) l (vint 1).

Definition array_size (l : list value) : res value := Ok (vint (Z.of_nat (List.length l))).

Definition array_mean (l : list value) : res value :=
  match l with
  | [] => Raise FunctionArgError
  | _ => match array_sum l with
         | Raise x => Raise x
         | Ok s => v_binop QDiv s (vint (Z.of_nat (List.length l)))
         end
  end.

Definition min_step (res0 e : value) : res value :=
  match v_cmp QLt e res0 with
  | Raise x => Raise x
  | Ok c => Ok (if truthy c then e else res0)
  end.
Definition max_step (res0 e : value) : res value :=
  match v_cmp QLt res0 e with
  | Raise x => Raise x
  | Ok c => Ok (if truthy c then e else res0)
  end.

Definition array_min (l : list value) : res value :=
  match l with [] => Raise FunctionArgError | x :: _ => foldM min_step l x end.
Definition array_max (l : list value) : res value :=
  match l with [] => Raise FunctionArgError | x :: _ => foldM max_step l x end.

(* any(dispatch("==", (x, e)) for e in arr): stops at the first equal element *)
Fixpoint in_array (x : value) (l : list value) : res value :=
  match l with
  | [] => Ok (vint 0)
  | e :: r => match v_cmp QEq x e with
              | Raise err => Raise err
              | Ok c => if truthy c then Ok (vint 1) else in_array x r
              end
  end.

Definition ka_cmp (x y : value) : res Z :=
  match v_cmp QLt x y with
  | Raise e => Raise e
  | Ok c => if truthy c then Ok (-1)
            else match v_cmp QEq x y with
                 | Raise e => Raise e
                 | Ok c2 => if truthy c2 then Ok 0 else Ok 1
                 end
  end.

(* sorted(contents, key=cmp_to_key(ka_cmp)): the key objects are ordered by
   ka_cmp(a, b) < 0 only; Python's sort is stable.  Modelled as the stable insertion
   sort: each element goes after every element that is not greater. *)
Fixpoint ins (x : value) (l : list value) : res (list value) :=
  match l with
  | [] => Ok [x]
  | y :: r => match ka_cmp x y with
              | Raise e => Raise e
              | Ok c => if c <? 0 then Ok (x :: y :: r)
                        else match ins x r with
                             | Raise e => Raise e
                             | Ok r' => Ok (y :: r')
                             end
              end
  end.
Definition ka_sort (l : list value) : res (list value) := foldM (fun acc x => ins x acc) l [].

Definition array_median (l : list value) : res value :=
  match l with
  | [] => Raise FunctionArgError
  | _ =>
      match ka_sort l with
      | Raise e => Raise e
      | Ok sl =>
          let n := List.length sl in
          if Nat.even n then
            match nth_error sl (Nat.div2 n - 1), nth_error sl (Nat.div2 n) with
            | Some a, Some b =>
                match v_binop QAdd a b with
                | Raise e => Raise e
                | Ok s => v_binop QDiv s (vint 2)
                end
            | _, _ => Raise IndexError
            end
          else match nth_error sl (Nat.div2 n) with
               | Some m => Ok m
               | None => Raise IndexError
               end
      end
  end.

(* max(a, b, ...) / min(a, b, ...): vararg signature over Number; Python's max/min keep
   the first extremal argument, as the array scans do *)
Definition is_num_value (v : value) : bool := match v with VS (VN _) => true | _ => false end.
Definition vararg_ext (is_max : bool) (args : list value) : res value :=
  if negb (forallb is_num_value args) then Raise NoMatchingFunctionSignatureError
  else if is_max then array_max args else array_min args.

End Elems.

(* ------------------------------------------------------------------------- *)
(* eval_comprehension, generic in the evaluator.  An evaluation may write the environment
   (a nested comprehension does), so evaluators are state-passing. *)
Section Comprehension.
Variables (V E : Type).
Variable setv : string -> V -> E -> E.            (* env.set_variable *)
Variable as_arr : V -> option (list V).           (* isinstance(v, Array) *)
Variable blike : V -> option bool.                (* bool_like: Some true for ==1, Some false for ==0 *)

Definition ev := E -> res (V * E).

(* subarrays = [eval_node(g, env) for g in assignment_nodes] *)
Fixpoint eval_list (gs : list ev) (env : E) : res (list V * E) :=
  match gs with
  | [] => Ok ([], env)
  | g :: r => match g env with
              | Raise x => Raise x
              | Ok (v, env1) =>
                  match eval_list r env1 with
                  | Raise x => Raise x
                  | Ok (vs, env2) => Ok (v :: vs, env2)
                  end
              end
  end.

Fixpoint all_arrays (vs : list V) : option (list (list V)) :=
  match vs with
  | [] => Some []
  | v :: r => match as_arr v, all_arrays r with
              | Some a, Some rest => Some (a :: rest)
              | _, _ => None
              end
  end.

(* for name, subarray in zip(names, subarrays): if i >= len(subarray): exhausted; break
                                                env.set_variable(name, subarray[i])       *)
Fixpoint bind_at (i : nat) (names : list string) (arrs : list (list V)) (env : E) : E * bool :=
  match names, arrs with
  | n :: ns, a :: rest =>
      match nth_error a i with
      | None => (env, true)
      | Some v => bind_at i ns rest (setv n v env)
      end
  | _, _ => (env, false)
  end.

(* for condition in condition_nodes: every condition is evaluated (no early exit on 0);
   the first result that is not bool_like raises *)
Fixpoint eval_conds (cs : list ev) (env : E) (ok : bool) : res (bool * E) :=
  match cs with
  | [] => Ok (ok, env)
  | c :: r => match c env with
              | Raise x => Raise x
              | Ok (v, env1) =>
                  match blike v with
                  | None => Raise EvalError
                  | Some b => eval_conds r env1 (ok && b)
                  end
              end
  end.

Fixpoint comp_loop (fuel : nat) (i : nat) (names : list string) (arrs : list (list V))
         (conds : list ev) (body : ev) (env : E) : res (list V * E) :=
  match fuel with
  | O => Raise OutOfFuel
  | S f =>
      let '(env1, exhausted) := bind_at i names arrs env in
      if exhausted then Ok ([], env1)
      else match eval_conds conds env1 true with
           | Raise x => Raise x
           | Ok (ok, env2) =>
               if ok then
                 match body env2 with
                 | Raise x => Raise x
                 | Ok (v, env3) =>
                     match comp_loop f (S i) names arrs conds body env3 with
                     | Raise x => Raise x
                     | Ok (vs, envf) => Ok (v :: vs, envf)
                     end
                 end
               else comp_loop f (S i) names arrs conds body env2
           end
  end.

(* min(len(a) for a in subarrays) *)
Fixpoint min_len (arrs : list (list V)) : nat :=
  match arrs with
  | [] => O
  | a :: r => match r with
              | [] => List.length a
              | _ => Nat.min (List.length a) (min_len r)
              end
  end.

Definition eval_comprehension (body : ev) (names : list string) (gens conds : list ev) (env : E)
  : res (list V * E) :=
  match names with
  | [] => Raise EvalError
  | _ =>
      match eval_list gens env with
      | Raise x => Raise x
      | Ok (vs, env1) =>
          match all_arrays vs with
          | None => Raise EvalError
          | Some arrs => comp_loop (S (min_len arrs)) 0 names arrs conds body env1
          end
      end
  end.

(* ---- the declarative reading *)
(* position i of the generators, when every generator has one *)
Definition row_at (arrs : list (list V)) (i : nat) : list V :=
  flat_map (fun a => match nth_error a i with Some v => [v] | None => [] end) arrs.
Definition rows (arrs : list (list V)) : list (list V) :=
  map (row_at arrs) (seq 0 (min_len arrs)).

Fixpoint bind_row (names : list string) (row : list V) (env : E) : E :=
  match names, row with
  | n :: ns, v :: r => bind_row ns r (setv n v env)
  | _, _ => env
  end.

Fixpoint comp_rows (names : list string) (conds : list ev) (body : ev)
         (rs : list (list V)) (env : E) : res (list V * E) :=
  match rs with
  | [] => Ok ([], env)
  | r :: rest =>
      match eval_conds conds (bind_row names r env) true with
      | Raise x => Raise x
      | Ok (ok, env2) =>
          if ok then
            match body env2 with
            | Raise x => Raise x
            | Ok (v, env3) =>
                match comp_rows names conds body rest env3 with
                | Raise x => Raise x
                | Ok (vs, envf) => Ok (v :: vs, envf)
                end
            end
          else comp_rows names conds body rest env2
      end
  end.

(* after the last full position the generators that still have an element at index
   min_len (those before the first shortest one) are bound once more *)
Definition comp_spec (body : ev) (names : list string) (arrs : list (list V)) (conds : list ev)
           (env : E) : res (list V * E) :=
  match comp_rows names conds body (rows arrs) env with
  | Raise x => Raise x
  | Ok (vs, envf) => Ok (vs, fst (bind_at (min_len arrs) names arrs envf))
  end.

(* ---- evaluators that only read the environment *)
Definition pure (f : E -> res V) : ev :=
  fun env => match f env with Ok v => Ok (v, env) | Raise x => Raise x end.

(* the environments in which the positions are evaluated *)
Fixpoint row_envs (names : list string) (rs : list (list V)) (env : E) : list E :=
  match rs with
  | [] => []
  | r :: rest => let e1 := bind_row names r env in e1 :: row_envs names rest e1
  end.

(* all conditions of one position: Ok true when every one is 1 *)
Fixpoint conds_pure (cs : list (E -> res V)) (env : E) (ok : bool) : res bool :=
  match cs with
  | [] => Ok ok
  | c :: r => match c env with
              | Raise x => Raise x
              | Ok v => match blike v with
                        | None => Raise EvalError
                        | Some b => conds_pure r env (ok && b)
                        end
              end
  end.

Fixpoint filter_map_pure (cs : list (E -> res V)) (body : E -> res V) (envs : list E) : res (list V) :=
  match envs with
  | [] => Ok []
  | e :: rest =>
      match conds_pure cs e true with
      | Raise x => Raise x
      | Ok ok =>
          if ok then
            match body e with
            | Raise x => Raise x
            | Ok v => match filter_map_pure cs body rest with
                      | Raise x => Raise x
                      | Ok vs => Ok (v :: vs)
                      end
            end
          else filter_map_pure cs body rest
      end
  end.

End Comprehension.

(* ------------------------------------------------------------------------- *)
(* A concrete expression language for the side-by-side runs. *)
Inductive agg := ASum | AProd | AMean | AMedian | AMin | AMax | ASize.

Inductive expr :=
| ENum (n : num)
| EFact (n : Z)
| EChoose (n k : Z)
| EVar (x : string)
| ETag (e : expr) (s : usig)
| EConv (e : expr) (s : usig)
| EBin (o : qop) (a b : expr)
| ECmp (c : qcmp) (a b : expr)
| EArr (l : list expr)
| ERange (a b : expr)
| ERange3 (a b c : expr)
| EAgg (f : agg) (a : expr)
| EVarargs (is_max : bool) (l : list expr)
| EIn (a b : expr)
| EComp (body : expr) (names : list string) (gens conds : list expr)
| ESeq (a b : expr)
| EAssign (x : string) (a : expr).

Definition env := list (string * value).
Fixpoint lookup (x : string) (en : env) : option value :=
  match en with
  | [] => None
  | (y, v) :: r => if String.eqb x y then Some v else lookup x r
  end.
Definition set_var (x : string) (v : value) (en : env) : env := (x, v) :: en.

Definition value_as_arr (v : value) : option (list value) :=
  match v with VA l => Some l | VS _ => None end.
(* bool_like(x): x == 1 or x == 0 with Python equality: a number equal to 1 or 0;
   a Quantity is never equal to an int *)
Definition value_blike (v : value) : option bool :=
  match v with
  | VS (VN n) => if Qeqb (toQ n) 1 then Some true else if Qeqb (toQ n) 0 then Some false else None
  | _ => None
  end.

Definition as_int (v : value) : option Z := match v with VS (VN (NInt z)) => Some z | _ => None end.
Definition as_num (v : value) : option num := match v with VS (VN n) => Some n | _ => None end.

Section Eval.
Variable ndims : nat.

Definition run_agg (f : agg) (l : list value) : res value :=
  match f with
  | ASum => array_sum ndims l | AProd => array_prod ndims l | AMean => array_mean ndims l
  | AMedian => array_median ndims l | AMin => array_min ndims l | AMax => array_max ndims l
  | ASize => array_size l
  end.

Definition lift_v (r : res qval) (en : env) : res (value * env) :=
  match r with Ok s => Ok (VS s, en) | Raise e => Raise e end.
Definition with_env (r : res value) (en : env) : res (value * env) :=
  match r with Ok v => Ok (v, en) | Raise e => Raise e end.

Fixpoint eval (e : expr) (en : env) {struct e} : res (value * env) :=
  let evals := fix evals (l : list expr) (en : env) {struct l} : res (list value * env) :=
    match l with
    | [] => Ok ([], en)
    | x :: r => match eval x en with
                | Raise err => Raise err
                | Ok (v, en1) => match evals r en1 with
                                 | Raise err => Raise err
                                 | Ok (vs, en2) => Ok (v :: vs, en2)
                                 end
                end
    end in
  match e with
  | ENum n => Ok (VS (VN n), en)
  | EFact n => Ok (vint (fact_Z n), en)
  | EChoose n k => Ok (VS (VN (choose_num n k)), en)
  | EVar x => match lookup x en with Some v => Ok (v, en) | None => Raise EvalError end
  | ETag a s =>
      match eval a en with
      | Raise err => Raise err
      | Ok (VS v, en1) => lift_v (make_quantity ndims v s) en1
      | Ok (VA _, _) => Raise EvalError
      end
  | EConv a s =>
      match eval a en with
      | Raise err => Raise err
      | Ok (VS v, en1) => lift_v (convert_quantity ndims v s) en1
      | Ok (VA _, en1) =>
          match compose_units ndims s with Raise err => Raise err | Ok _ => Raise EvalError end
      end
  | EBin o a b =>
      match eval a en with
      | Raise err => Raise err
      | Ok (va, en1) => match eval b en1 with
                        | Raise err => Raise err
                        | Ok (vb, en2) => with_env (v_binop ndims o va vb) en2
                        end
      end
  | ECmp c a b =>
      match eval a en with
      | Raise err => Raise err
      | Ok (va, en1) => match eval b en1 with
                        | Raise err => Raise err
                        | Ok (vb, en2) => with_env (v_cmp ndims c va vb) en2
                        end
      end
  | EArr l =>
      match evals l en with
      | Raise err => Raise err
      | Ok (vs, en1) => Ok (VA vs, en1)
      end
  | ERange a b =>
      match eval a en with
      | Raise err => Raise err
      | Ok (va, en1) =>
          match eval b en1 with
          | Raise err => Raise err
          | Ok (vb, en2) =>
              match as_int va, as_int vb with
              | Some x, Some y => Ok (VA (map vint (int_range x y)), en2)
              | _, _ => Raise NoMatchingFunctionSignatureError
              end
          end
      end
  | ERange3 a b c =>
      match eval a en with
      | Raise err => Raise err
      | Ok (va, en1) =>
          match eval b en1 with
          | Raise err => Raise err
          | Ok (vb, en2) =>
              match eval c en2 with
              | Raise err => Raise err
              | Ok (vc, en3) =>
                  match as_num va, as_num vb, as_num vc with
                  | Some x, Some y, Some z =>
                      match ka_range x y z with
                      | Raise err => Raise err
                      | Ok l => Ok (VA (map (fun n => VS (VN n)) l), en3)
                      end
                  | _, _, _ => Raise NoMatchingFunctionSignatureError
                  end
              end
          end
      end
  | EAgg f a =>
      match eval a en with
      | Raise err => Raise err
      | Ok (VA l, en1) => with_env (run_agg f l) en1
      | Ok (VS s, en1) =>
          match f, s with
          | AMax, VN _ | AMin, VN _ => Ok (VS s, en1)     (* max(5): the vararg signature *)
          | _, _ => Raise NoMatchingFunctionSignatureError
          end
      end
  | EVarargs is_max l =>
      match evals l en with
      | Raise err => Raise err
      | Ok (vs, en1) => with_env (vararg_ext ndims is_max vs) en1
      end
  | EIn a b =>
      match eval a en with
      | Raise err => Raise err
      | Ok (va, en1) =>
          match eval b en1 with
          | Raise err => Raise err
          | Ok (VA l, en2) => with_env (in_array ndims va l) en2
          | Ok (VS _, _) => Raise NoMatchingFunctionSignatureError
          end
      end
  | EComp body names gens conds =>
      match eval_comprehension value env set_var value_as_arr value_blike
              (fun en' => eval body en') names
              (map (fun g => fun en' => eval g en') gens)
              (map (fun c => fun en' => eval c en') conds) en with
      | Raise err => Raise err
      | Ok (vs, en1) => Ok (VA vs, en1)
      end
  | ESeq a b =>
      match eval a en with
      | Raise err => Raise err
      | Ok (_, en1) => eval b en1
      end
  | EAssign x a =>
      match eval a en with
      | Raise err => Raise err
      | Ok (v, en1) => Ok (v, set_var x v en1)
      end
  end.

Definition init_env : env := [("true"%string, vint 1); ("false"%string, vint 0)].
Definition run (e : expr) : res value :=
  match eval e init_env with Ok (v, _) => Ok v | Raise err => Raise err end.

End Eval.

(* rendering for the kernel lane: the text of common.enc_value *)
Local Open Scope string_scope.
Fixpoint show_value (v : value) : string :=
  match v with
  | VS s => show_qval s
  | VA l => "A:[" ++ String.concat ";" (map show_value l) ++ "]"
  end.
