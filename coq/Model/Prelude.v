(* Prelude: outcomes, exceptions, and text rendering used by the kernel lane. *)
From Coq Require Export ZArith QArith List String Bool.
From Coq Require Import DecimalString DecimalZ Ascii.
Export ListNotations.

(* Python / Ka exception classes that the modelled code can raise.  [Unmodelled]
   and [OutOfFuel] are not exceptions of the implementation: the first says the
   model declines to predict this input (outside the modelled class), the second
   that an explicit-fuel loop ran out (excluded by hypothesis in theorems). *)
Inductive exn :=
| ZeroDivisionError | OverflowError | TypeError | ValueError | IndexError
| KaRuntimeError | EvalError | ParsingError | LexError
| UnknownFunctionError | NoMatchingFunctionSignatureError
| UnknownKeywordError | BadTypeKeywordError
| IncompatibleQuantitiesError | FunctionArgError | InvalidParameterException
| Unmodelled | OutOfFuel.

Inductive res (A : Type) := Ok (a : A) | Raise (e : exn).
Arguments Ok {A} a.
Arguments Raise {A} e.

Definition bind {A B} (r : res A) (f : A -> res B) : res B :=
  match r with Ok a => f a | Raise e => Raise e end.
Notation "'do' x <- r ; k" := (bind r (fun x => k))
  (at level 200, x pattern, r at level 100, k at level 200).

Definition exn_eqb (a b : exn) : bool :=
  match a, b with
  | ZeroDivisionError, ZeroDivisionError | OverflowError, OverflowError
  | TypeError, TypeError | ValueError, ValueError | IndexError, IndexError
  | KaRuntimeError, KaRuntimeError | EvalError, EvalError
  | ParsingError, ParsingError | LexError, LexError
  | UnknownFunctionError, UnknownFunctionError
  | NoMatchingFunctionSignatureError, NoMatchingFunctionSignatureError
  | UnknownKeywordError, UnknownKeywordError
  | BadTypeKeywordError, BadTypeKeywordError
  | IncompatibleQuantitiesError, IncompatibleQuantitiesError
  | FunctionArgError, FunctionArgError
  | InvalidParameterException, InvalidParameterException
  | Unmodelled, Unmodelled | OutOfFuel, OutOfFuel => true
  | _, _ => false
  end.

Local Open Scope string_scope.

Definition show_exn (e : exn) : string :=
  match e with
  | ZeroDivisionError => "ZeroDivisionError" | OverflowError => "OverflowError"
  | TypeError => "TypeError" | ValueError => "ValueError" | IndexError => "IndexError"
  | KaRuntimeError => "KaRuntimeError" | EvalError => "EvalError"
  | ParsingError => "ParsingError" | LexError => "LexError"
  | UnknownFunctionError => "UnknownFunctionError"
  | NoMatchingFunctionSignatureError => "NoMatchingFunctionSignatureError"
  | UnknownKeywordError => "UnknownKeywordError"
  | BadTypeKeywordError => "BadTypeKeywordError"
  | IncompatibleQuantitiesError => "IncompatibleQuantitiesError"
  | FunctionArgError => "FunctionArgError"
  | InvalidParameterException => "InvalidParameterException"
  | Unmodelled => "Unmodelled" | OutOfFuel => "OutOfFuel"
  end.

Definition show_Z (z : Z) : string := NilZero.string_of_int (Z.to_int z).
Definition show_pos (p : positive) : string := show_Z (Zpos p).
Definition show_N (n : N) : string := show_Z (Z.of_N n).
Definition show_nat (n : nat) : string := show_Z (Z.of_nat n).
Definition show_Q (q : Q) : string := show_Z (Qnum q) ++ "/" ++ show_pos (Qden q).
Definition show_bool (b : bool) : string := if b then "1" else "0".
Definition nl : string := String (ascii_of_nat 10) EmptyString.

Definition show_res {A} (sh : A -> string) (r : res A) : string :=
  match r with Ok a => sh a | Raise e => "E:" ++ show_exn e end.

Definition show_list {A} (sh : A -> string) (l : list A) : string :=
  "[" ++ String.concat "," (map sh l) ++ "]".

Definition lines (l : list string) : string := String.concat nl l.
