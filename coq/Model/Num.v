(* Num.v — Ka's numeric tower as Python evaluates it (functions.py:225-270,
   types.py:33-53).  Definitions only; proofs are in Proofs/NumProofs.v.

   num:  NInt z   — Python int (unbounded)
         NFrac q  — fractions.Fraction, kept canonical (Qred q = q, Qden q > 1)
                    because dispatch() passes every result through simplify_number
         NFlt q   — a Python float, *idealised*: q is the value exact real
                    arithmetic would give.  Used only for tolerance comparisons;
                    every exactness theorem is about NInt/NFrac only. *)
From Ka Require Export Model.Prelude.
From Coq Require Export Qround Qpower Qabs.

Inductive num := NInt (z : Z) | NFrac (q : Q) | NFlt (q : Q).

Definition toQ (n : num) : Q :=
  match n with NInt z => inject_Z z | NFrac q => q | NFlt q => q end.

Definition is_flt (n : num) : bool := match n with NFlt _ => true | _ => false end.

(* simplify_number on an exact rational: Fraction with denominator 1 -> int *)
Definition norm (q : Q) : num :=
  let r := Qred q in
  if (Qden r =? 1)%positive then NInt (Qnum r) else NFrac r.

Definition nflt (q : Q) : num := NFlt (Qred q).

Definition canonical (n : num) : Prop :=
  match n with
  | NInt _ => True
  | NFrac q => Qred q = q /\ (1 < Qden q)%positive
  | NFlt _ => True
  end.
Definition exact (n : num) : Prop := is_flt n = false.

Definition Qis_zero (q : Q) : bool := (Qnum q =? 0)%Z.

(* exact-or-ideal lifting of a rational operation *)
Definition lift2 (f : Q -> Q -> Q) (a b : num) : num :=
  if is_flt a || is_flt b then nflt (f (toQ a) (toQ b)) else norm (f (toQ a) (toQ b)).

Definition n_add (a b : num) : res num :=
  match a, b with
  | NInt x, NInt y => Ok (NInt (x + y))
  | _, _ => Ok (lift2 Qplus a b)
  end.
Definition n_sub (a b : num) : res num :=
  match a, b with
  | NInt x, NInt y => Ok (NInt (x - y))
  | _, _ => Ok (lift2 Qminus a b)
  end.
Definition n_mul (a b : num) : res num :=
  match a, b with
  | NInt x, NInt y => Ok (NInt (x * y))
  | _, _ => Ok (lift2 Qmult a b)
  end.
(* "/" : (Integral, Integral) -> fraction_divide; otherwise operator.truediv *)
Definition n_div (a b : num) : res num :=
  if Qis_zero (toQ b) then Raise ZeroDivisionError
  else Ok (lift2 Qdiv a b).
(* floored modulo: a - b*floor(a/b) *)
Definition Qmod_floor (a b : Q) : Q := a - b * inject_Z (Qfloor (a / b)).
Definition n_mod (a b : num) : res num :=
  if Qis_zero (toQ b) then Raise ZeroDivisionError
  else match a, b with
       | NInt x, NInt y => Ok (NInt (x mod y))
       | _, _ => Ok (lift2 Qmod_floor a b)
       end.

Definition Qtrunc (q : Q) : Z := Z.quot (Qnum q) (Zpos (Qden q)).
Definition Qround_half_even (q : Q) : Z :=
  let f := Qfloor q in
  let r := q - inject_Z f in
  match Qcompare r (1#2) with
  | Lt => f
  | Gt => f + 1
  | Eq => if Z.even f then f else f + 1
  end%Z.

(* exact comparisons on rationals *)
Definition Qltb (a b : Q) : bool := match Qcompare a b with Lt => true | _ => false end.
Definition Qleb (a b : Q) : bool := match Qcompare a b with Gt => false | _ => true end.
Definition Qeqb (a b : Q) : bool := match Qcompare a b with Eq => true | _ => false end.

Definition is_integral (n : num) : bool := (Qden (Qred (toQ n)) =? 1)%positive.

(* strict_pow (functions.py:242-246) followed by Python's ** on the tower. *)
Definition n_pow (a b : num) : res num :=
  match b with
  | NInt n =>
      if is_flt a then
        (* float ** int: ideal value; 0.0 ** negative raises *)
        if Qis_zero (toQ a) && (n <? 0)%Z then Raise ZeroDivisionError
        else Ok (nflt (Qpower (toQ a) n))
      else if (0 <=? n)%Z then Ok (norm (Qpower (toQ a) n))
      else match a with
           | NInt x => if (x =? 0)%Z then Raise ZeroDivisionError
                       else Ok (nflt (Qpower (toQ a) n))      (* int ** -k is a float *)
           | _ => Ok (norm (Qpower (toQ a) n))                 (* Fraction ** -k is exact *)
           end
  | _ => (* fractional or float exponent: is_fractional / negative base guard, then a float power *)
      if negb (is_integral b) && Qltb (toQ a) 0 then Raise KaRuntimeError else Raise Unmodelled
  end.

Definition n_neg (a : num) : res num :=
  match a with
  | NInt x => Ok (NInt (- x))
  | NFrac q => Ok (norm (- q))
  | NFlt q => Ok (nflt (- q))
  end.
Definition n_pos (a : num) : res num := Ok a.
Definition n_abs (a : num) : res num :=
  match a with
  | NInt x => Ok (NInt (Z.abs x))
  | NFrac q => Ok (norm (Qabs q))
  | NFlt q => Ok (nflt (Qabs q))
  end.
Definition n_floor (a : num) : res num := Ok (NInt (Qfloor (toQ a))).
Definition n_ceil (a : num) : res num := Ok (NInt (Qceiling (toQ a))).
Definition n_round (a : num) : res num := Ok (NInt (Qround_half_even (toQ a))).
Definition n_int (a : num) : res num := Ok (NInt (Qtrunc (Qred (toQ a)))).
Definition n_float (a : num) : res num := Ok (nflt (toQ a)).

(* comparisons: intify(operator.lt) etc. — exact across kinds *)
Definition b2n (b : bool) : num := NInt (if b then 1 else 0).
Definition n_lt (a b : num) : res num := Ok (b2n (Qltb (toQ a) (toQ b))).
Definition n_le (a b : num) : res num := Ok (b2n (Qleb (toQ a) (toQ b))).
Definition n_eq (a b : num) : res num := Ok (b2n (Qeqb (toQ a) (toQ b))).
Definition n_ne (a b : num) : res num := Ok (b2n (negb (Qeqb (toQ a) (toQ b)))).
Definition n_gt (a b : num) : res num := Ok (b2n (Qltb (toQ b) (toQ a))).
Definition n_ge (a b : num) : res num := Ok (b2n (Qleb (toQ b) (toQ a))).

(* ------------------------------------------------------------------------- *)
(* Arithmetic expressions of property C01 and their evaluation as dispatch()
   performs it: children first, left to right; the selected body; then
   simplify_number (folded into norm). *)

Inductive binop := Add | Sub | Mul | Div | Mod | Pow.
Inductive unop := UNeg | UPos | UAbs | UFloor | UCeil | URound | UInt.

Inductive aexpr :=
| ALit (z : Z)                 (* integer literal *)
| ASci (m : Z) (k : Z)         (* m e k : integer mantissa, integer exponent *)
| ABin (o : binop) (a b : aexpr)
| AUn (o : unop) (a : aexpr).

Definition binop_eval (o : binop) : num -> num -> res num :=
  match o with
  | Add => n_add | Sub => n_sub | Mul => n_mul | Div => n_div | Mod => n_mod | Pow => n_pow
  end.
Definition unop_eval (o : unop) : num -> res num :=
  match o with
  | UNeg => n_neg | UPos => n_pos | UAbs => n_abs | UFloor => n_floor
  | UCeil => n_ceil | URound => n_round | UInt => n_int
  end.

(* tokens.py:216-227 then parse.py:312-314: int * 10**k, or int * Fraction(1,10**-k),
   simplified at parse time. *)
Definition sci_value (m k : Z) : Q := inject_Z m * Qpower 10 k.

Fixpoint aeval (e : aexpr) : res num :=
  match e with
  | ALit z => Ok (NInt z)
  | ASci m k => Ok (norm (sci_value m k))
  | ABin o a b =>
      match aeval a with
      | Raise x => Raise x
      | Ok va => match aeval b with
                 | Raise x => Raise x
                 | Ok vb => binop_eval o va vb
                 end
      end
  | AUn o a =>
      match aeval a with
      | Raise x => Raise x
      | Ok va => unop_eval o va
      end
  end.

(* ------------------------------------------------------------------------- *)
(* The specification: plain rational arithmetic in stdlib Q, no normal forms,
   no kinds. *)
Inductive dres := Val (q : Q) | DivZero | OutOfClass.

Definition Qnonneg_int (q : Q) : option Z :=
  let r := Qred q in
  if (Qden r =? 1)%positive && (0 <=? Qnum r)%Z then Some (Qnum r) else None.

Definition dbin (o : binop) (x y : Q) : dres :=
  match o with
  | Add => Val (x + y)
  | Sub => Val (x - y)
  | Mul => Val (x * y)
  | Div => if Qis_zero y then DivZero else Val (x / y)
  | Mod => if Qis_zero y then DivZero else Val (x - y * inject_Z (Qfloor (x / y)))
  | Pow => match Qnonneg_int y with Some n => Val (Qpower x n) | None => OutOfClass end
  end.
Definition dun (o : unop) (x : Q) : dres :=
  match o with
  | UNeg => Val (- x)
  | UPos => Val x
  | UAbs => Val (Qabs x)
  | UFloor => Val (inject_Z (Qfloor x))
  | UCeil => Val (inject_Z (Qceiling x))
  | URound => Val (inject_Z (Qround_half_even x))
  | UInt => Val (inject_Z (Qtrunc (Qred x)))
  end.

Fixpoint denote (e : aexpr) : dres :=
  match e with
  | ALit z => Val (inject_Z z)
  | ASci m k => Val (inject_Z m * Qpower 10 k)
  | ABin o a b =>
      match denote a with
      | Val x => match denote b with
                 | Val y => dbin o x y
                 | d => d
                 end
      | d => d
      end
  | AUn o a =>
      match denote a with
      | Val x => dun o x
      | d => d
      end
  end.

(* rendering for the kernel lane *)
Local Open Scope string_scope.
Definition show_num (n : num) : string :=
  match n with
  | NInt z => "I:" ++ show_Z z
  | NFrac q => "F:" ++ show_Q q
  | NFlt q => "X:" ++ show_Q q
  end.
