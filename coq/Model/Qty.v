(* Qty.v — quantities: unit signatures, make/convert, and the quantity operators
   (eval.py:95-140, functions.py:351-379 as repaired).  Definitions only.
   Units arrive here already resolved (dimension vector, multiple, offset); name lookup is
   Units.v / property C13. *)
From Ka Require Export Model.Num.
Local Open Scope Z_scope.

Definition dimvec := list Z.

(* Vector.__add__, __mul__ (scalar), __neg__: zip semantics *)
Fixpoint vadd (a b : dimvec) : dimvec :=
  match a, b with x :: a', y :: b' => (x + y) :: vadd a' b' | _, _ => [] end.
Definition vscale (k : Z) (a : dimvec) : dimvec := map (Z.mul k) a.
Definition vneg (a : dimvec) : dimvec := map Z.opp a.
Definition vsub (a b : dimvec) : dimvec := vadd a (vneg b).
Fixpoint veqb (a b : dimvec) : bool :=
  match a, b with
  | [], [] => true
  | x :: a', y :: b' => (x =? y) && veqb a' b'
  | _, _ => false
  end.
Definition vzero (n : nat) : dimvec := repeat 0 n.

Record unit := { ud : dimvec; um : num; uo : num }.
(* UnitSignature: units and inverted units with integer exponents *)
Definition usig := (list (unit * Z) * list (unit * Z))%type.

Definition num_is_one (n : num) : bool := Qeqb (toQ n) 1.
Definition num_is_zero (n : num) : bool := Qeqb (toQ n) 0.

(* compose_units: one pass over units then inverted units *)
Fixpoint compose_loop (nspecs : nat) (specs : list (unit * Z)) (qv : dimvec) (mult off : num)
  : res (dimvec * num * num) :=
  match specs with
  | [] => Ok (qv, mult, off)
  | (u, e) :: rest =>
      let qv' := vadd qv (vscale e (ud u)) in
      match (if num_is_one (um u) then Ok mult
             else match n_pow (um u) (NInt e) with
                  | Raise x => Raise x
                  | Ok p => n_mul mult p
                  end) with
      | Raise x => Raise x
      | Ok mult' =>
          let off' := uo u in
          if negb (num_is_zero off') && (1 <? Z.of_nat nspecs) then Raise EvalError
          else if negb (num_is_zero off') && negb (e =? 1) then Raise EvalError
          else compose_loop nspecs rest qv' mult' off'
      end
  end.

Definition specs_of (s : usig) : list (unit * Z) :=
  fst s ++ map (fun ue => (fst ue, - snd ue)) (snd s).

Definition compose_units (ndims : nat) (s : usig) : res (dimvec * num * num) :=
  let specs := specs_of s in
  compose_loop (List.length specs) specs (vzero ndims) (NInt 1) (NInt 0).

Inductive qval := VN (n : num) | VQ (mag : num) (d : dimvec).

Definition make_quantity (ndims : nat) (v : qval) (s : usig) : res qval :=
  match v with
  | VQ _ _ => Raise EvalError
  | VN mag =>
      match compose_units ndims s with
      | Raise x => Raise x
      | Ok (qv, mult, off) =>
          match n_mul mult mag with
          | Raise x => Raise x
          | Ok t => match n_add t off with Raise x => Raise x | Ok m => Ok (VQ m qv) end
          end
      end
  end.

Definition convert_quantity (ndims : nat) (v : qval) (s : usig) : res qval :=
  match compose_units ndims s with
  | Raise x => Raise x
  | Ok (qv, mult, off) =>
      match v with
      | VN _ => Raise EvalError
      | VQ mag d =>
          if negb (veqb qv d) then Raise EvalError
          else match n_sub mag off with
               | Raise x => Raise x
               | Ok t => match n_div t mult with Raise x => Raise x | Ok r => Ok (VN r) end
               end
      end
  end.

Inductive qop := QAdd | QSub | QMul | QDiv.
Inductive qcmp := QLt | QLe | QEq | QNe | QGt | QGe.

Definition qop_num (o : qop) : num -> num -> res num :=
  match o with QAdd => n_add | QSub => n_sub | QMul => n_mul | QDiv => n_div end.
Definition qcmp_num (c : qcmp) : num -> num -> res num :=
  match c with QLt => n_lt | QLe => n_le | QEq => n_eq | QNe => n_ne | QGt => n_gt | QGe => n_ge end.

Definition lift_q (ndims : nat) (v : qval) : num * dimvec :=
  match v with VN n => (n, vzero ndims) | VQ m d => (m, d) end.
Definition is_q (v : qval) : bool := match v with VQ _ _ => true | VN _ => false end.

(* register_quantities_op's f, with a Number on either side lifted to zero dimension;
   operands in their written order *)
Definition q_binop (ndims : nat) (o : qop) (a b : qval) : res qval :=
  if negb (is_q a) && negb (is_q b) then
    match a, b with
    | VN x, VN y => match qop_num o x y with Ok r => Ok (VN r) | Raise e => Raise e end
    | _, _ => Raise Unmodelled
    end
  else
    let '(m1, d1) := lift_q ndims a in
    let '(m2, d2) := lift_q ndims b in
    match o with
    | QAdd | QSub =>
        if negb (veqb d1 d2) then Raise IncompatibleQuantitiesError
        else match qop_num o m1 m2 with Ok r => Ok (VQ r d1) | Raise e => Raise e end
    | QMul => match n_mul m1 m2 with Ok r => Ok (VQ r (vadd d1 d2)) | Raise e => Raise e end
    | QDiv => match n_div m1 m2 with Ok r => Ok (VQ r (vsub d1 d2)) | Raise e => Raise e end
    end.

Definition q_cmp (ndims : nat) (c : qcmp) (a b : qval) : res qval :=
  if negb (is_q a) && negb (is_q b) then
    match a, b with
    | VN x, VN y => match qcmp_num c x y with Ok r => Ok (VN r) | Raise e => Raise e end
    | _, _ => Raise Unmodelled
    end
  else
    let '(m1, d1) := lift_q ndims a in
    let '(m2, d2) := lift_q ndims b in
    if negb (veqb d1 d2) then Raise IncompatibleQuantitiesError
    else match qcmp_num c m1 m2 with Ok r => Ok (VN r) | Raise e => Raise e end.

Definition q_neg (v : qval) : res qval :=
  match v with
  | VN x => match n_neg x with Ok r => Ok (VN r) | Raise e => Raise e end
  | VQ m d => match n_neg m with Ok r => Ok (VQ r d) | Raise e => Raise e end
  end.

Definition swapped (c : qcmp) : bool := match c with QGt | QGe => true | _ => false end.
Definition flip_cmp (c : qcmp) : qcmp := match c with QGt => QLt | QGe => QLe | c => c end.

Inductive qexpr :=
| QLit (a : aexpr)
| QTag (e : qexpr) (s : usig)          (* e U *)
| QBin (o : qop) (a b : qexpr)
| QCmp (c : qcmp) (a b : qexpr)
| QConv (e : qexpr) (s : usig)         (* e to U *)
| QNeg (e : qexpr).

Section Eval.
Variable ndims : nat.

Fixpoint qeval (e : qexpr) : res qval :=
  match e with
  | QLit a => match aeval a with Ok n => Ok (VN n) | Raise x => Raise x end
  | QTag e s => match qeval e with Raise x => Raise x | Ok v => make_quantity ndims v s end
  | QBin o a b =>
      match qeval a with Raise x => Raise x | Ok va =>
      match qeval b with Raise x => Raise x | Ok vb => q_binop ndims o va vb end end
  | QCmp c a b =>
      (* the parser rewrites  a > b  /  a >= b  into  b < a  /  b <= a  (parse.py make_comparison_node):
         the right operand is evaluated first *)
      if swapped c then
        match qeval b with Raise x => Raise x | Ok vb =>
        match qeval a with Raise x => Raise x | Ok va => q_cmp ndims (flip_cmp c) vb va end end
      else
        match qeval a with Raise x => Raise x | Ok va =>
        match qeval b with Raise x => Raise x | Ok vb => q_cmp ndims c va vb end end
  | QConv e s => match qeval e with Raise x => Raise x | Ok v => convert_quantity ndims v s end
  | QNeg e => match qeval e with Raise x => Raise x | Ok v => q_neg v end
  end.

(* ---- specification 1 (C03): dimensions, computed from the units' dimension vectors only *)
Definition sig_dim (s : usig) : dimvec :=
  vsub (fold_left (fun acc ue => vadd acc (vscale (snd ue) (ud (fst ue)))) (fst s) (vzero ndims))
       (fold_left (fun acc ue => vadd acc (vscale (snd ue) (ud (fst ue)))) (snd s) (vzero ndims)).

(* Some (is_quantity, dimension) or None = rejected by the dimension rules *)
Fixpoint dim_spec (e : qexpr) : option (bool * dimvec) :=
  match e with
  | QLit _ => Some (false, vzero ndims)
  | QTag e s =>
      match dim_spec e with
      | Some (false, _) => Some (true, sig_dim s)
      | _ => None
      end
  | QBin o a b =>
      match dim_spec a, dim_spec b with
      | Some (qa, da), Some (qb, db) =>
          match o with
          | QAdd | QSub => if veqb da db then Some (qa || qb, da) else None
          | QMul => Some (qa || qb, vadd da db)
          | QDiv => Some (qa || qb, vsub da db)
          end
      | _, _ => None
      end
  | QCmp _ a b =>
      match dim_spec a, dim_spec b with
      | Some (_, da), Some (_, db) => if veqb da db then Some (false, vzero ndims) else None
      | _, _ => None
      end
  | QConv e s =>
      match dim_spec e with
      | Some (true, d) => if veqb (sig_dim s) d then Some (false, vzero ndims) else None
      | _ => None
      end
  | QNeg e => dim_spec e
  end.

(* ---- specification 2 (C04): magnitudes in plain rational arithmetic *)
Definition sig_factor (s : usig) : Q :=
  fold_left (fun (acc : Q) ue => (acc * Qpower (toQ (um (fst ue))) (snd ue))%Q) (specs_of s) 1%Q.
Definition sig_offset (s : usig) : Q :=
  match specs_of s with
  | [] => 0%Q
  | l => toQ (uo (fst (last l (Build_unit [] (NInt 1) (NInt 0), 0))))
  end.

Inductive mres := MVal (q : Q) | MErr.

Fixpoint mag_spec (e : qexpr) : mres :=
  match e with
  | QLit a => match denote a with Val q => MVal q | _ => MErr end
  | QTag e s => match mag_spec e with MVal x => MVal (sig_factor s * x + sig_offset s)%Q | MErr => MErr end
  | QBin o a b =>
      match mag_spec a, mag_spec b with
      | MVal x, MVal y =>
          match o with
          | QAdd => MVal (x + y)%Q | QSub => MVal (x - y)%Q | QMul => MVal (x * y)%Q
          | QDiv => if Qis_zero y then MErr else MVal (x / y)%Q
          end
      | _, _ => MErr
      end
  | QCmp c a b =>
      match mag_spec a, mag_spec b with
      | MVal x, MVal y =>
          MVal (if match c with
                   | QLt => Qltb x y | QLe => Qleb x y | QEq => Qeqb x y
                   | QNe => negb (Qeqb x y) | QGt => Qltb y x | QGe => Qleb y x
                   end then 1 else 0)%Q
      | _, _ => MErr
      end
  | QConv e s =>
      match mag_spec e with
      | MVal x => if Qis_zero (sig_factor s) then MErr else MVal ((x - sig_offset s) / sig_factor s)%Q
      | MErr => MErr
      end
  | QNeg e => match mag_spec e with MVal x => MVal (- x)%Q | MErr => MErr end
  end.

End Eval.

Definition qmag (v : qval) : num := match v with VN n => n | VQ m _ => m end.
Definition qdim (ndims : nat) (v : qval) : dimvec := match v with VN _ => vzero ndims | VQ _ d => d end.

Local Open Scope string_scope.
Definition show_dim (d : dimvec) : string := String.concat "," (map show_Z d).
Definition show_qval (v : qval) : string :=
  match v with
  | VN n => show_num n
  | VQ m d => "Q:" ++ show_num m ++ "|" ++ show_dim d
  end.
