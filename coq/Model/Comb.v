(* Comb.v — lazy combinatorics (types.py:87-186, utils.py:32-52, functions.py:230-296,
   interpret.py reduce_result) as the code stands after the repairs recorded in
   known_findings.json.  Definitions only. *)
From Ka Require Export Model.Num.
Local Open Scope Z_scope.

Record range := mkr { lo : Z; hi : Z }.

Definition is_empty (r : range) : bool := hi r <? lo r.
Definition intersects (a b : range) : bool := negb ((hi a <? lo b) || (hi b <? lo a)).

(* IntRange.difference, all five branches *)
Definition difference (s o : range) : list range * list range :=
  if (hi s <? lo o) || (hi o <? lo s) then ([s], [o])
  else if (lo s <=? lo o) && (hi o <=? hi s) then
    ((if lo s <? lo o then [mkr (lo s) (lo o - 1)] else [])
       ++ (if hi o <? hi s then [mkr (hi o + 1) (hi s)] else []), [])
  else if (lo o <=? lo s) && (hi s <=? hi o) then
    ([], (if lo o <? lo s then [mkr (lo o) (lo s - 1)] else [])
           ++ (if hi s <? hi o then [mkr (hi s + 1) (hi o)] else []))
  else if lo s <? lo o then ([mkr (lo s) (lo o - 1)], [mkr (hi s + 1) (hi o)])
  else ([mkr (hi o + 1) (hi s)], [mkr (lo o) (lo s - 1)]).

(* the inner scan of Combinatoric.mul: first numerator range that intersects d *)
Fixpoint scan_ns (pre ns : list range) (d : range) : option (list range * list range) :=
  match ns with
  | [] => None
  | n :: rest =>
      if intersects n d then
        let '(rn, rd) := difference n d in Some (rev pre ++ rn ++ rest, rd)
      else scan_ns (n :: pre) rest d
  end.

(* Combinatoric.mul.  [stack] is the list ds with its LAST element first (ds.pop() takes
   the head; ds.extend(l) pushes l's elements so that the last of l ends up first). *)
Fixpoint mul_loop (fuel : nat) (ns stack result_ds : list range) : res (list range * list range) :=
  match stack with
  | [] => Ok (ns, result_ds)
  | d :: stack' =>
      match fuel with
      | O => Raise OutOfFuel
      | S fuel' =>
          match scan_ns [] ns d with
          | Some (ns', rd) => mul_loop fuel' ns' (rev rd ++ stack') result_ds
          | None => mul_loop fuel' ns stack' (result_ds ++ [d])
          end
      end
  end.

Definition rsize (r : range) : Z := Z.max 0 (hi r - lo r + 1).
Definition total_size (l : list range) : Z := fold_right (fun r a => rsize r + a) 0 l.
Definition mul_fuel (ds : list range) : nat := Z.to_nat (2 * total_size ds + Z.of_nat (List.length ds) + 1).

Definition comb_mul (ns ds new_ns new_ds : list range) : res (list range * list range) :=
  let ds' := ds ++ new_ds in
  mul_loop (mul_fuel ds') (ns ++ new_ns) (rev ds') [].

(* Combinatoric.resolve *)
Fixpoint num_loop (k : nat) (h : Z) (result : Z) (den : list range) : res (Z * list range) :=
  match k with
  | O => Ok (result, den)
  | S k' =>
      let result := result * h in
      match den with
      | [] => num_loop k' (h - 1) result den
      | d :: rest =>
          if lo d =? 0 then Raise ZeroDivisionError
          else if result mod lo d =? 0 then
            let d' := mkr (lo d + 1) (hi d) in
            num_loop k' (h - 1) (result / lo d) (if is_empty d' then rest else d' :: rest)
          else num_loop k' (h - 1) result den
      end
  end.

Definition rcount (r : range) : nat := Z.to_nat (hi r - lo r + 1).

Fixpoint num_ranges (ns : list range) (result : Z) (den : list range) : res (Z * list range) :=
  match ns with
  | [] => Ok (result, den)
  | r :: rest =>
      match num_loop (rcount r) (hi r) result den with
      | Raise e => Raise e
      | Ok (result', den') => num_ranges rest result' den'
      end
  end.

Fixpoint prod_from (l : Z) (n : nat) : Z :=
  match n with O => 1 | S n' => l * prod_from (l + 1) n' end.
Definition prod_range (r : range) : Z := prod_from (lo r) (rcount r).
Definition prod_ranges (l : list range) : Z := fold_right (fun r a => prod_range r * a) 1 l.

(* denom_ranges is used from its end, so [den] above is rev ds; the final denominator loop
   multiplies what is left (order irrelevant). *)
Definition resolve (ns ds : list range) : res num :=
  match num_ranges ns 1 (rev ds) with
  | Raise e => Raise e
  | Ok (result, den) =>
      let denom := prod_ranges den in
      if denom =? 0 then Raise ZeroDivisionError
      else Ok (norm (inject_Z result / inject_Z denom))
  end.

(* ---- values of the slice *)
Inductive cval := CNum (n : num) | CComb (ns ds : list range).

Definition nonempty_ranges (l : list range) : list range := filter (fun r => negb (is_empty r)) l.

Definition lazy_factorial (n : Z) : cval :=
  if n <? 2 then CNum (NInt 1) else CComb [mkr 2 n] [].
Definition lazy_choose (n k : Z) : cval :=
  if (n <? k) || (n <? 0) || (k <? 0) then CNum (NInt 0)
  else CComb (if n <? 2 then [] else [mkr 2 n]) (nonempty_ranges [mkr 2 k; mkr 2 (n - k)]).

Definition wrap (r : res (list range * list range)) : res cval :=
  match r with Ok (ns, ds) => Ok (CComb ns ds) | Raise e => Raise e end.

(* get_ratio on an int or Fraction *)
Definition ratio (f : num) : Z * Z :=
  match f with
  | NInt z => (z, 1)
  | NFrac q => (Qnum q, Zpos (Qden q))
  | NFlt q => (Qnum q, Zpos (Qden q))
  end.

Definition comb_times_frac (ns ds : list range) (f : num) : res cval :=
  let '(n, d) := ratio f in
  if n =? 0 then Ok (CNum (NInt 0))
  else wrap (comb_mul ns ds (if n =? 1 then [] else [mkr n n]) (if d =? 1 then [] else [mkr d d])).

(* frac(1, f) *)
Definition recip (f : num) : res num :=
  if Qis_zero (toQ f) then Raise ZeroDivisionError else Ok (norm (/ toQ f)).

Definition comb_div_frac (ns ds : list range) (f : num) : res cval :=
  match recip f with Raise e => Raise e | Ok r => comb_times_frac ns ds r end.

Definition coerce (v : cval) : res num :=
  match v with CNum n => Ok n | CComb ns ds => resolve ns ds end.

(* "*" and "/" as dispatch resolves them on (Combinatoric|Rational|float) pairs *)
Definition c_mul (a b : cval) : res cval :=
  match a, b with
  | CComb ns1 ds1, CComb ns2 ds2 => wrap (comb_mul ns1 ds1 ns2 ds2)
  | CComb ns ds, CNum f =>
      if is_flt f then match resolve ns ds with Raise e => Raise e | Ok x => match n_mul x f with Ok r => Ok (CNum r) | Raise e => Raise e end end
      else comb_times_frac ns ds f
  | CNum f, CComb ns ds =>
      if is_flt f then match resolve ns ds with Raise e => Raise e | Ok x => match n_mul f x with Ok r => Ok (CNum r) | Raise e => Raise e end end
      else comb_times_frac ns ds f
  | CNum x, CNum y => match n_mul x y with Ok r => Ok (CNum r) | Raise e => Raise e end
  end.

Definition c_div (a b : cval) : res cval :=
  match a, b with
  | CComb ns1 ds1, CComb ns2 ds2 => wrap (comb_mul ns1 ds1 ds2 ns2)
  | CComb ns ds, CNum f =>
      if is_flt f then match resolve ns ds with Raise e => Raise e | Ok x => match n_div x f with Ok r => Ok (CNum r) | Raise e => Raise e end end
      else comb_div_frac ns ds f
  | CNum f, CComb ns ds =>
      if is_flt f then match resolve ns ds with Raise e => Raise e | Ok x => match n_div f x with Ok r => Ok (CNum r) | Raise e => Raise e end end
      else comb_times_frac ds ns f
  | CNum x, CNum y => match n_div x y with Ok r => Ok (CNum r) | Raise e => Raise e end
  end.

(* ---- expressions of property C05 *)
Inductive cmp := CLt | CLe | CEq | CNe | CGt | CGe.
Inductive cexpr :=
| CFact (n : Z)                      (* n!  with an integer argument *)
| CChoose (n k : Z)                  (* C(n,k) *)
| CInt (z : Z)
| CMul (a b : cexpr)
| CDiv (a b : cexpr)
| CAdd (a b : cexpr)                 (* boundary: used as a number *)
| CSub (a b : cexpr)
| CCmp (c : cmp) (a b : cexpr)
| CUn (o : unop) (a : cexpr).

Definition cmp_eval (c : cmp) : num -> num -> res num :=
  match c with
  | CLt => n_lt | CLe => n_le | CEq => n_eq | CNe => n_ne | CGt => n_gt | CGe => n_ge
  end.

Definition lift_num2 (f : num -> num -> res num) (a b : cval) : res cval :=
  match coerce a with
  | Raise e => Raise e
  | Ok x => match coerce b with
            | Raise e => Raise e
            | Ok y => match f x y with Ok r => Ok (CNum r) | Raise e => Raise e end
            end
  end.

Fixpoint ceval_lazy (e : cexpr) : res cval :=
  match e with
  | CFact n => Ok (lazy_factorial n)
  | CChoose n k => Ok (lazy_choose n k)
  | CInt z => Ok (CNum (NInt z))
  | CMul a b =>
      match ceval_lazy a with Raise x => Raise x | Ok va =>
      match ceval_lazy b with Raise x => Raise x | Ok vb => c_mul va vb end end
  | CDiv a b =>
      match ceval_lazy a with Raise x => Raise x | Ok va =>
      match ceval_lazy b with Raise x => Raise x | Ok vb => c_div va vb end end
  | CAdd a b =>
      match ceval_lazy a with Raise x => Raise x | Ok va =>
      match ceval_lazy b with Raise x => Raise x | Ok vb => lift_num2 n_add va vb end end
  | CSub a b =>
      match ceval_lazy a with Raise x => Raise x | Ok va =>
      match ceval_lazy b with Raise x => Raise x | Ok vb => lift_num2 n_sub va vb end end
  | CCmp c a b =>
      match ceval_lazy a with Raise x => Raise x | Ok va =>
      match ceval_lazy b with Raise x => Raise x | Ok vb => lift_num2 (cmp_eval c) va vb end end
  | CUn o a =>
      match ceval_lazy a with Raise x => Raise x | Ok va =>
      match coerce va with Raise x => Raise x | Ok x =>
      match unop_eval o x with Ok r => Ok (CNum r) | Raise e => Raise e end end end
  end.

(* top level: reduce_result resolves a lazy result before display *)
Definition ceval_top (e : cexpr) : res num :=
  match ceval_lazy e with Raise x => Raise x | Ok v => coerce v end.

(* ---- the specification: eager big-integer arithmetic *)
Definition fact_Z (n : Z) : Z := if n <? 2 then 1 else prod_from 2 (Z.to_nat (n - 1)).
(* n! / (k! (n-k)!) as the numeric tower delivers it; 0 outside 0 <= k <= n *)
Definition choose_num (n k : Z) : num :=
  if (n <? k) || (n <? 0) || (k <? 0) then NInt 0
  else norm (inject_Z (fact_Z n) / inject_Z (fact_Z k * fact_Z (n - k))).
(* Pascal's triangle, for the statement that this is the binomial coefficient *)
Fixpoint binom (n k : nat) : Z :=
  match n, k with
  | _, O => 1
  | O, S _ => 0
  | S n', S k' => binom n' k' + binom n' k
  end.

Fixpoint ceval_eager (e : cexpr) : res num :=
  match e with
  | CFact n => Ok (NInt (fact_Z n))
  | CChoose n k => Ok (choose_num n k)
  | CInt z => Ok (NInt z)
  | CMul a b =>
      match ceval_eager a with Raise x => Raise x | Ok va =>
      match ceval_eager b with Raise x => Raise x | Ok vb => n_mul va vb end end
  | CDiv a b =>
      match ceval_eager a with Raise x => Raise x | Ok va =>
      match ceval_eager b with Raise x => Raise x | Ok vb => n_div va vb end end
  | CAdd a b =>
      match ceval_eager a with Raise x => Raise x | Ok va =>
      match ceval_eager b with Raise x => Raise x | Ok vb => n_add va vb end end
  | CSub a b =>
      match ceval_eager a with Raise x => Raise x | Ok va =>
      match ceval_eager b with Raise x => Raise x | Ok vb => n_sub va vb end end
  | CCmp c a b =>
      match ceval_eager a with Raise x => Raise x | Ok va =>
      match ceval_eager b with Raise x => Raise x | Ok vb => cmp_eval c va vb end end
  | CUn o a =>
      match ceval_eager a with Raise x => Raise x | Ok va => unop_eval o va end
  end.
