(* Printer.v — token text of a surface tree, in two forms:
     Min   parentheses only where the grouping rules require them,
     Full  every compound operand parenthesised.
   Definitions only.

   RULE TABLE (the property's list, tightest first).  [level s] is the level at which the
   construct [s] is produced by the parser; an operand position accepts levels up to its own:
        0  number, identifier, call, parenthesis          (parse_unsigned_term_without_factorial)
        1  postfix !            operand 0                 (parse_unsigned_term)
        2  one unary sign       operand 1                 (parse_unitless_term)
        3  unit attachment      operand 2                 (parse_maybe_quantity)
        4  a .. b               operands 3, 3  non-assoc  (parse_maybe_range)
        5  string, instant, array, comprehension, interval (parse_term: they cannot take a
           sign, "!", a unit or "..", so they are parenthesised in operand positions 0-4)
        6  ^                    operands 6 (left), 5      (parse_factor)
        7  * / %                operands 7 (left), 6      (parse_product)
        8  + - ±                operands 8 (left), 7      (parse_sum)
        9  one or two comparisons, operands 8  non-assoc  (parse_comparison)
       10  e to u               operand 9      non-assoc  (parse_expression)
   Exceptions that are not a matter of levels:
   * a left operand of ^ that ends in a unit signature is parenthesised ("2 m ^ 3" is 2 (m^3));
   * an expression statement that starts "identifier =" is parenthesised (it would be an
     assignment), so is a condition clause that starts "identifier in" (it would be a
     generator); a positional argument never starts "identifier :" (Proofs: no guard needed). *)
From Ka Require Export Model.Syntax.
Local Open Scope nat_scope.

Inductive mode := Min | Full.

Definition level (s : sst) : nat :=
  match s with
  | SNum _ | SVar _ | SParen _ | SCall _ _ _ => 0
  | SFact _ => 1
  | SSign _ _ => 2
  | SQty _ _ => 3
  | SRange _ _ => 4
  | SStr _ | SInst _ | SArr _ | SCompr _ _ | SInterval _ _ => 5
  | SBin BPow _ _ => 6
  | SBin BMul _ _ | SBin BDiv _ _ | SBin BMod _ _ => 7
  | SBin _ _ _ => 8
  | SCmp1 _ _ _ | SCmp2 _ _ _ _ _ => 9
  | SConv _ _ => 10
  end.

Definition is_qty (s : sst) : bool := match s with SQty _ _ => true | _ => false end.

(* the minimal text of [s] ends in a unit signature (so a following "^" would be an exponent) *)
Definition ends_units (s : sst) : bool :=
  match s with
  | SQty _ _ => true
  | SRange _ b => is_qty b
  | SBin BPow _ b => match b with SQty _ _ => true | SRange _ c => is_qty c | _ => false end
  | _ => false
  end.

(* must the operand [s] at a position of level [L] be parenthesised?  [powleft]: the position is
   the left operand of ^ *)
Definition wrap (m : mode) (L : nat) (powleft : bool) (s : sst) : bool :=
  match m with
  | Full => negb (level s =? 0)
  | Min => negb (level s <=? L) || (powleft && ends_units s)
  end.

Definition parens (b : bool) (ts : list tok) : list tok := if b then KLP :: ts ++ [KRP] else ts.

(* unit signatures: exponent 1 is not written, a negative exponent is "^ - n" *)
Definition pr_exp (z : Z) : list tok :=
  if (z =? 1)%Z then []
  else if (z <? 0)%Z then [KExp; KMinus; KNum (ZLit (- z))]
  else [KExp; KNum (ZLit z)].
Definition pr_units (u : units) : list tok := flat_map (fun p => KVar (fst p) :: pr_exp (snd p)) u.
Definition pr_usig (u : usig) : list tok :=
  pr_units (fst u) ++ match snd u with [] => [] | inv => KBar :: pr_units inv end.

Fixpoint join (sep : tok) (l : list (list tok)) : list tok :=
  match l with
  | [] => []
  | [x] => x
  | x :: r => x ++ sep :: join sep r
  end.

Definition starts_var_with (t : tok -> bool) (ts : list tok) : bool :=
  match ts with KVar _ :: t' :: _ => t t' | _ => false end.
Definition is_assign (t : tok) : bool := match t with KAssign => true | _ => false end.
Definition is_in (t : tok) : bool := match t with KIn => true | _ => false end.
(* parenthesise a token text that starts "identifier <t>" *)
Definition guard (t : tok -> bool) (ts : list tok) : list tok := parens (starts_var_with t ts) ts.

Definition binlevel_of (o : binop) : nat :=
  match o with BPow => 6 | BMul | BDiv | BMod => 7 | BAdd | BSub | BPm => 8 end.

Fixpoint raw (m : mode) (s : sst) : list tok :=
  match s with
  | SNum n => [KNum n]
  | SVar x => [KVar x]
  | SStr t => [KStr t]
  | SInst t => [KInst t]
  | SParen e => KLP :: raw m e ++ [KRP]
  | SSign neg e => (if neg then KMinus else KPlus) :: parens (wrap m 1 false e) (raw m e)
  | SFact e => parens (wrap m 0 false e) (raw m e) ++ [KBang]
  | SBin o a b =>
      parens (wrap m (binlevel_of o) (match o with BPow => true | _ => false end) a) (raw m a)
        ++ tok_of_bin o :: parens (wrap m (pred (binlevel_of o)) false b) (raw m b)
  | SRange a b => parens (wrap m 3 false a) (raw m a) ++ KDots :: parens (wrap m 3 false b) (raw m b)
  | SInterval a b =>
      KLBrack :: parens (wrap m 10 false a) (raw m a) ++ KComma :: parens (wrap m 10 false b) (raw m b) ++ [KRBrack]
  | SCall f args kw =>
      KVar f :: KLP ::
        join KComma (map (fun e => parens (wrap m 10 false e) (raw m e)) args
                     ++ map (fun p => KVar (fst p) :: KColon :: parens (wrap m 10 false (snd p)) (raw m (snd p))) kw)
        ++ [KRP]
  | SArr l => KLBrace :: join KComma (map (fun e => parens (wrap m 10 false e) (raw m e)) l) ++ [KRBrace]
  | SCompr body cl =>
      KLBrace :: parens (wrap m 10 false body) (raw m body) ++ KColon ::
        join KComma (map (fun c => match fst c with
                                   | Some x => KVar x :: KIn :: parens (wrap m 10 false (snd c)) (raw m (snd c))
                                   | None => guard is_in (parens (wrap m 10 false (snd c)) (raw m (snd c)))
                                   end) cl)
        ++ [KRBrace]
  | SQty e u => parens (wrap m 2 false e) (raw m e) ++ pr_usig u
  | SConv e u => parens (wrap m 9 false e) (raw m e) ++ KTo :: pr_usig u
  | SCmp1 o a b => parens (wrap m 8 false a) (raw m a) ++ tok_of_cmp o :: parens (wrap m 8 false b) (raw m b)
  | SCmp2 o1 o2 a b c =>
      parens (wrap m 8 false a) (raw m a) ++ tok_of_cmp o1 :: parens (wrap m 8 false b) (raw m b)
        ++ tok_of_cmp o2 :: parens (wrap m 8 false c) (raw m c)
  end.

(* an operand at a position of level L *)
Definition pr (m : mode) (L : nat) (powleft : bool) (s : sst) : list tok :=
  parens (wrap m L powleft s) (raw m s).

Definition pr_stmt (m : mode) (st : stmt) : list tok :=
  match st with
  | StExpr e => guard is_assign (raw m e)
  | StAssign x e => KVar x :: KAssign :: raw m e
  end.

Definition print_prog (m : mode) (p : prog) : list tok := join KSemi (map (pr_stmt m) p).

Definition print_min : prog -> list tok := print_prog Min.
Definition print_full : prog -> list tok := print_prog Full.

(* well-formedness that no printer can repair: a unit list is never empty (parse_units raises),
   a comprehension has at least one clause *)
Definition usig_ok (u : usig) : bool := match fst u with [] => false | _ => true end.

Fixpoint wf (s : sst) : bool :=
  match s with
  | SNum _ | SVar _ | SStr _ | SInst _ => true
  | SParen e | SSign _ e | SFact e => wf e
  | SBin _ a b | SRange a b | SInterval a b | SCmp1 _ a b => wf a && wf b
  | SCmp2 _ _ a b c => wf a && wf b && wf c
  | SCall _ args kw => forallb wf args && forallb (fun p => wf (snd p)) kw
  | SArr l => forallb wf l
  | SCompr body cl => wf body && match cl with [] => false | _ => true end && forallb (fun c => wf (snd c)) cl
  | SQty e u | SConv e u => wf e && usig_ok u
  end.
Definition wf_stmt (st : stmt) : bool := match st with StExpr e | StAssign _ e => wf e end.
Definition wf_prog (p : prog) : bool := forallb wf_stmt p.

(* ------------------------------------------------------------------ a surface tree for a parse tree
   (used by the harness as an oracle: when the implementation and the model disagree on a
   token sequence that the model parses to t, the fully parenthesised text of [unparse t]
   must still parse to t on the implementation, or the property itself fails there). *)
Local Open Scope string_scope.
Definition all_cmp : list cmpop := [CEq; CNeq; CLt; CGt; CLeq; CGeq; CAssign; CIn].
Definition all_bin : list binop := [BPow; BMul; BDiv; BMod; BAdd; BSub; BPm].

Fixpoint unparse (t : ptree) : sst :=
  match t with
  | PNum n => SNum n
  | PStr s => SStr s
  | PInst s => SInst s
  | PVar x => SVar x
  | PCall name args kw =>
      let dflt := SCall name (map unparse args) (map (fun p => (fst p, unparse (snd p))) kw) in
      match kw with
      | _ :: _ => dflt
      | [] =>
          match args with
          | [x] =>
              if String.eqb name "-" then SSign true (unparse x)
              else if String.eqb name "+" then SSign false (unparse x)
              else if String.eqb name "!" then SFact (unparse x)
              else dflt
          | [x; y] =>
              match find (fun o => String.eqb (bin_name o) name) all_bin with
              | Some o => SBin o (unparse x) (unparse y)
              | None =>
                  if String.eqb name "range" then SRange (unparse x) (unparse y)
                  else if String.eqb name "interval" then SInterval (unparse x) (unparse y)
                  else match find (fun o => String.eqb (cmp_name o) name) all_cmp with
                       | Some o => SCmp1 o (unparse x) (unparse y)
                       | None => dflt
                       end
              end
          | [x; y; z] =>
              match find (fun o => String.eqb (cmp_name (fst o) ++ "_" ++ cmp_name (snd o)) name)
                         (list_prod all_cmp all_cmp) with
              | Some o => SCmp2 (fst o) (snd o) (unparse x) (unparse y) (unparse z)
              | None => dflt
              end
          | _ => dflt
          end
      end
  | PAssign x e => SCmp1 CAssign (SVar x) (unparse e)     (* never inside an expression *)
  | PStmts l => SArr (map unparse l)                       (* never inside an expression *)
  | PQty e u => SQty (unparse e) u
  | PConv e u => SConv (unparse e) u
  | PArr l => SArr (map unparse l)
  | PCompr b gens conds =>
      SCompr (unparse b) (map (fun p => (Some (fst p), unparse (snd p))) gens
                          ++ map (fun c => (None, unparse c)) conds)
  end.

Definition unparse_prog (t : ptree) : prog :=
  match t with
  | PStmts l => map (fun s => match s with PAssign x e => StAssign x (unparse e) | e => StExpr (unparse e) end) l
  | e => [StExpr (unparse e)]
  end.
