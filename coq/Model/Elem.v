(* Elem.v — the elementary functions of property C16 as dispatch() runs them
   (functions.py: strict_pow, is_fractional, ka_log, ka_ln/log10/log2, ka_sqrt,
   NUMERIC_FUNCTIONS, register_numeric_function's Number and Quantity overloads,
   coerce_to; types.py: simplify_number; CPython: int/Fraction/float ** and the
   conversions math.* performs on its arguments).  Definitions only.

   What is Ka's code (guards, dispatch on kinds, the exact branches of **, the rounding
   functions, simplify_number) is written out.  What is libm's (sin cos tan sqrt log pow)
   is NOT: a call to it is the constructor [PCall c] of a [plan], and the value it returns
   is the section variable [ext : call -> fval] of section Libm.  The harness prints the
   plan and compares the implementation's result with an independent high-precision
   evaluation of the call.

   Floats are idealised as in Num.v ([NFlt q]: q the exact value), with two facts of
   CPython kept because they change the OUTCOME CLASS and not just the last bits:
   converting an int or Fraction of magnitude >= 2^1024 - 2^970 to a double raises
   OverflowError, and a non-zero Fraction of magnitude <= 2^-1075 converts to 0.0. *)
From Ka Require Export Model.Qty Model.Comb.

Inductive efun1 :=
| FSin | FCos | FTan | FSqrt | FLn | FLog10 | FLog2
| FAbs | FFloor | FCeil | FRound | FInt | FFloat.
Inductive efun := E1 (g : efun1) | ELog | EPow.

(* an invocation of the C library (through CPython's math module / float_pow) *)
Inductive call :=
| CSin (x : Q) | CCos (x : Q) | CTan (x : Q) | CSqrt (x : Q)
| CLog (x b : Q)            (* math.log(x, b) = log(x)/log(b) *)
| CPow (x y : Q).           (* C pow(x, y) *)

(* what the wrapper hands back to Ka *)
Inductive fval :=
| Fin (q : Q)               (* a finite double *)
| FInf                      (* an infinity (either sign) *)
| FNaN
| FExn (e : exn).           (* the wrapper raised (math range error, ...) *)

Inductive plan :=
| PRaise (e : exn)          (* Ka's guard, or CPython before any libm call, raises *)
| PExact (n : num)          (* computed without libm: int/Fraction arithmetic, rounding, abs, float() *)
| PCall (c : call).

(* ---- conversions to a C double *)
Definition dbl_ovf : Q := inject_Z (2 ^ 1024 - 2 ^ 970).
Definition dbl_tiny : Q := 1 # (2 ^ 1075).
Definition to_dbl (q : Q) : res Q :=
  if Qleb dbl_ovf (Qabs q) then Raise OverflowError else Ok q.
(* float(q) == 0.0 although q <> 0 *)
Definition underflows (q : Q) : bool := negb (Qis_zero q) && Qleb (Qabs q) dbl_tiny.

(* PyFloat_AsDouble on an int, Fraction.__float__ (n/d, correctly rounded), a float as is *)
Definition conv (n : num) : res Q :=
  match n with NFlt q => Ok q | _ => to_dbl (toQ n) end.

(* math.log's own argument handling: ints of any size are accepted (loghelper works on
   the digits); a Fraction goes through float().  A positive Fraction that underflows to
   0.0 makes math.log raise ValueError, which nothing in Ka catches: modelled here AS
   REPAIRED (a diagnosed KaRuntimeError) — see the check's finding 'log-underflow'. *)
Definition log_conv (n : num) : res Q :=
  match n with
  | NInt z => Ok (inject_Z z)
  | NFrac q => if underflows q then Raise KaRuntimeError else to_dbl q
  | NFlt q => Ok q
  end.

(* math.e as a double: 0x1.5bf0a8b145769p+1 *)
Definition float_e : Q := 6121026514868073 # 2251799813685248.

(* ---- the bodies *)
Definition with_conv (n : num) (k : Q -> plan) : plan :=
  match conv n with Raise e => PRaise e | Ok q => k q end.

(* ka_log(x, base) *)
Definition plan_log (x b : num) : plan :=
  if Qleb (toQ x) 0 then PRaise KaRuntimeError
  else if Qleb (toQ b) 0 || Qeqb (toQ b) 1 then PRaise KaRuntimeError
  else match log_conv x with
       | Raise e => PRaise e
       | Ok qx => match log_conv b with
                  | Raise e => PRaise e
                  | Ok qb => PCall (CLog qx qb)
                  end
       end.

(* float_pow(x, y) after both operands are doubles: 0.0 ** negative raises, otherwise libm *)
Definition float_pow (qx qy : Q) : plan :=
  if Qis_zero qx && Qltb qy 0 then PRaise ZeroDivisionError else PCall (CPow qx qy).

Definition conv_pow (x y : num) : plan :=
  match conv x with
  | Raise e => PRaise e
  | Ok qx => match conv y with
             | Raise e => PRaise e
             | Ok qy => float_pow qx qy
             end
  end.

(* strict_pow(x, y): the guard, then Python's ** on the tower *)
Definition plan_pow (x y : num) : plan :=
  if negb (is_integral y) && Qltb (toQ x) 0 then PRaise KaRuntimeError
  else match y with
       | NInt n =>
           match x with
           | NInt z => if (0 <=? n)%Z then PExact (NInt (z ^ n))
                       else conv_pow x y              (* int ** -k: both converted, float_pow *)
           | NFrac q => if Qis_zero q && (n <? 0)%Z then PRaise ZeroDivisionError
                        else PExact (norm (Qpower q n))   (* Fraction ** int is exact *)
           | NFlt _ => conv_pow x y
           end
       | _ => conv_pow x y      (* Fraction or float exponent: float(x) ** float(y) *)
       end.

Definition abs_num (n : num) : num :=
  match n with
  | NInt z => NInt (Z.abs z)
  | NFrac q => NFrac (Qabs q)
  | NFlt q => NFlt (Qabs q)
  end.

Definition plan1 (g : efun1) (n : num) : plan :=
  match g with
  | FSin => with_conv n (fun q => PCall (CSin q))
  | FCos => with_conv n (fun q => PCall (CCos q))
  | FTan => with_conv n (fun q => PCall (CTan q))
  | FSqrt => if Qltb (toQ n) 0 then PRaise KaRuntimeError
             else with_conv n (fun q => PCall (CSqrt q))
  | FLn => plan_log n (NFlt float_e)
  | FLog10 => plan_log n (NInt 10)
  | FLog2 => plan_log n (NInt 2)
  | FAbs => PExact (abs_num n)
  | FFloor => PExact (NInt (Qfloor (toQ n)))
  | FCeil => PExact (NInt (Qceiling (toQ n)))
  | FRound => PExact (NInt (Qround_half_even (toQ n)))
  | FInt => PExact (NInt (Qtrunc (Qred (toQ n))))
  | FFloat => with_conv n (fun q => PExact (NFlt q))
  end.

(* ---- arguments as dispatch() sees them *)
Inductive earg :=
| AN (c : cval)                    (* int, Fraction, float, or a lazy Combinatoric *)
| AQ (mag : num) (d : dimvec).     (* a Quantity: base-unit magnitude, dimension vector *)

Inductive wrapk := WNum | WQty (d : dimvec).
Definition wrapv (w : wrapk) (n : num) : qval :=
  match w with WNum => VN n | WQty d => VQ n d end.

(* the value the body is applied to (coerce_to resolves a lazy value for a Number
   parameter; quantity_function passes quantity.mag) and how the result is wrapped *)
Definition arg_value (a : earg) : res num :=
  match a with AN c => coerce c | AQ m _ => Ok m end.
Definition arg_wrap (a : earg) : wrapk :=
  match a with AN _ => WNum | AQ _ d => WQty d end.

(* lookup in FUNCTIONS restricted to numbers, lazy values and quantities: one-argument
   functions have a (Number,) and a (Quantity,) overload; log and ^ only (Number, Number) *)
Definition eplan (f : efun) (args : list earg) : plan * wrapk :=
  match f, args with
  | E1 g, [a] =>
      match arg_value a with
      | Raise e => (PRaise e, WNum)
      | Ok n => (plan1 g n, arg_wrap a)
      end
  | ELog, [AN c1; AN c2] =>
      match coerce c1 with
      | Raise e => (PRaise e, WNum)
      | Ok x => match coerce c2 with
                | Raise e => (PRaise e, WNum)
                | Ok b => (plan_log x b, WNum)
                end
      end
  | EPow, [AN c1; AN c2] =>
      match coerce c1 with
      | Raise e => (PRaise e, WNum)
      | Ok x => match coerce c2 with
                | Raise e => (PRaise e, WNum)
                | Ok y => (plan_pow x y, WNum)
                end
      end
  | _, _ => (PRaise NoMatchingFunctionSignatureError, WNum)
  end.

(* ---- simplify_number *)
Definition simpf (q : Q) : num :=
  let r := Qred q in
  if (Qden r =? 1)%positive then NInt (Qnum r) else NFlt r.
Definition simp (n : num) : num :=
  match n with NInt z => NInt z | NFrac q => norm q | NFlt q => simpf q end.

(* outcome of one dispatch: a value, an exception, or — the case the property forbids —
   a NaN handed on as a value (simplify_number lets a NaN through: modf(nan) = (nan, nan)) *)
Inductive eout (A : Type) := EVal (a : A) | EErr (e : exn) | ENaN.
Arguments EVal {A} a.
Arguments EErr {A} e.
Arguments ENaN {A}.
Definition emap {A B} (f : A -> B) (o : eout A) : eout B :=
  match o with EVal a => EVal (f a) | EErr e => EErr e | ENaN => ENaN end.

Section Libm.
Variable ext : call -> fval.

(* body result -> simplify_type: an infinity makes int(whole) raise OverflowError *)
Definition deliver (p : plan) : eout num :=
  match p with
  | PRaise e => EErr e
  | PExact n => EVal (simp n)
  | PCall c =>
      match ext c with
      | Fin q => EVal (simpf q)
      | FInf => EErr OverflowError
      | FNaN => ENaN
      | FExn e => EErr e
      end
  end.

Definition elem (f : efun) (args : list earg) : eout qval :=
  let '(p, w) := eplan f args in emap (wrapv w) (deliver p).
End Libm.

(* ---- the real domain of each external function *)
Definition call_in_domain (c : call) : Prop :=
  match c with
  | CSin _ | CCos _ | CTan _ => True
  | CSqrt x => 0 <= x
  | CLog x b => 0 < x /\ 0 < b /\ ~ b == 1
  | CPow x y => (0 <= x \/ is_integral (NFlt y) = true) /\ ~ (x == 0 /\ y < 0)
  end.

(* "argument representable as a double" as far as the outcome class is concerned *)
Definition dbl_ok (n : num) : Prop := is_flt n = true \/ Qabs (toQ n) < dbl_ovf.
Definition log_ok (n : num) : Prop :=
  match n with
  | NInt _ => True                 (* math.log takes ints of any size *)
  | NFrac q => underflows q = false /\ Qabs q < dbl_ovf
  | NFlt _ => True
  end.
(* the operand kinds for which Python's ** is a float power (everything except the exact
   branches int ** non-negative int and Fraction ** int) *)
Definition pow_is_float (x y : num) : Prop :=
  match y, x with
  | NInt n, NInt _ => (n < 0)%Z
  | NInt _, NFrac _ => False
  | _, _ => True
  end.

(* exception classes the modelled dispatch can end in *)
Definition elem_classes : list exn :=
  [KaRuntimeError; ZeroDivisionError; OverflowError; NoMatchingFunctionSignatureError].

(* ---- rendering for the kernel lane *)
Local Open Scope string_scope.
Definition show_call (c : call) : string :=
  match c with
  | CSin x => "sin:" ++ show_Q x
  | CCos x => "cos:" ++ show_Q x
  | CTan x => "tan:" ++ show_Q x
  | CSqrt x => "sqrt:" ++ show_Q x
  | CLog x b => "log:" ++ show_Q x ++ ":" ++ show_Q b
  | CPow x y => "pow:" ++ show_Q x ++ ":" ++ show_Q y
  end.
Definition show_wrap (w : wrapk) : string :=
  match w with WNum => "N" | WQty d => "Q" ++ show_dim d end.
Definition show_eplan (pw : plan * wrapk) : string :=
  let '(p, w) := pw in
  match p with
  | PRaise e => "R:" ++ show_exn e
  | PExact n => "V:" ++ show_num (simp n) ++ "|" ++ show_wrap w
  | PCall c => "C:" ++ show_call c ++ "|" ++ show_wrap w
  end.
