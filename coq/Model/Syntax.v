(* Syntax.v — tokens, parse trees (mirroring ka.parse.ParseNode), the surface syntax [sst]
   with explicit parenthesis nodes, and [desugar : sst -> ptree].  Definitions only.

   TOKENS.  One constructor per constant tag of ka.tokens.Tokens plus the four payload tags.
   "," is FUNCTION_ARG_SEPARATOR = ARRAY_SEPARATOR = INTERVAL_SEP and ":" is KW_SEPARATOR =
   ARRAY_CONDITION_SEP (equal tag strings in tokens.py, pinned in GenFacts/ParserFacts.v).
   Payloads are opaque to the parser: a number literal is [ZLit z] (a Python int: the only
   thing parse_integer tests) or [XLit label] (any other number, identified by str(value)).

   PARSE TREES.  [PCall] covers every EvalModes.FUNCALL node: operators (label = the token
   tag), function calls, "range", "interval", comparison chains (label "op" or "op1_op2");
   keyword children (EvalModes.KEYWORD_ARG) always follow the positional ones (parse_args is
   positional + keyword) and are kept as a separate list.  [PCompr body gens conds] is the
   ARRAY_WITH_CONDITION node: children = body :: generators (meta name) ++ conditions,
   num_assignments = length gens (make_array_with_condition_node). *)
From Ka Require Export Model.Prelude.
Local Open Scope string_scope.

Inductive numlit := ZLit (z : Z) | XLit (label : string).

Inductive tok :=
| KAssign | KSemi | KLP | KRP | KPlus | KMinus | KMul | KDiv | KMod | KExp | KPm
| KComma | KBang | KBar | KTo | KEq | KNeq | KLt | KLeq | KGt | KGeq
| KLBrace | KRBrace | KColon | KIn | KDots | KLBrack | KRBrack
| KNum (n : numlit) | KVar (x : string) | KStr (s : string) | KInst (s : string).

(* the tag string of ka.tokens.Token.tag *)
Definition tag_of (t : tok) : string :=
  match t with
  | KAssign => "=" | KSemi => ";" | KLP => "(" | KRP => ")" | KPlus => "+" | KMinus => "-"
  | KMul => "*" | KDiv => "/" | KMod => "%" | KExp => "^" | KPm => "±"
  | KComma => "," | KBang => "!" | KBar => "|" | KTo => "to" | KEq => "==" | KNeq => "!="
  | KLt => "<" | KLeq => "<=" | KGt => ">" | KGeq => ">="
  | KLBrace => "{" | KRBrace => "}" | KColon => ":" | KIn => "in" | KDots => ".."
  | KLBrack => "[" | KRBrack => "]"
  | KNum _ => "number" | KVar _ => "identifier" | KStr _ => "string" | KInst _ => "instant"
  end.

(* the Python-side names (class Tokens) of the constant tags, for the table fact *)
Definition tag_names : list (string * tok) := [
  ("ASSIGNMENT_OP", KAssign); ("STATEMENT_SEPARATOR", KSemi); ("LBRACKET", KLP); ("RBRACKET", KRP);
  ("PLUS", KPlus); ("MINUS", KMinus); ("MULT", KMul); ("DIV", KDiv); ("MOD", KMod); ("EXP", KExp);
  ("PLUSMINUS", KPm); ("FUNCTION_ARG_SEPARATOR", KComma); ("ARRAY_SEPARATOR", KComma);
  ("INTERVAL_SEP", KComma); ("FACTORIAL", KBang); ("UNIT_DIVIDE", KBar); ("UNIT_CONVERT", KTo);
  ("EQ", KEq); ("NEQ", KNeq); ("LT", KLt); ("LEQ", KLeq); ("GT", KGt); ("GEQ", KGeq);
  ("ARRAY_OPEN", KLBrace); ("ARRAY_CLOSE", KRBrace); ("ARRAY_CONDITION_SEP", KColon);
  ("KW_SEPARATOR", KColon); ("ELEMENT_OF", KIn); ("RANGE_SEPARATOR", KDots);
  ("INTERVAL_OPEN", KLBrack); ("INTERVAL_CLOSE", KRBrack);
  ("NUM", KNum (ZLit 0)); ("VAR", KVar ""); ("STRING", KStr ""); ("INSTANT", KInst "")].

(* unit signature: units and inverted units, each (name, integer exponent) *)
Definition units := list (string * Z).
Definition usig := (units * units)%type.

Inductive ptree :=
| PNum (n : numlit)
| PStr (s : string)
| PInst (s : string)
| PVar (x : string)
| PCall (name : string) (args : list ptree) (kw : list (string * ptree))
| PAssign (x : string) (e : ptree)
| PStmts (l : list ptree)
| PQty (e : ptree) (u : usig)
| PConv (e : ptree) (u : usig)
| PArr (l : list ptree)
| PCompr (body : ptree) (gens : list (string * ptree)) (conds : list ptree).

(* ------------------------------------------------------------------ parser outcomes
   [PErr k]: ParsingError raised when k tokens were still unread at the reported position, so
   token_index = (number of tokens) - k.  [PFuel]: the model's explicit fuel ran out (never for
   the fuel used by [parse], see Proofs). *)
Inductive pres (A : Type) := POk (a : A) | PErr (remaining : nat) | PFuel.
Arguments POk {A} a.
Arguments PErr {A} remaining.
Arguments PFuel {A}.

Definition pbind {A B} (r : pres A) (f : A -> pres B) : pres B :=
  match r with POk a => f a | PErr k => PErr k | PFuel => PFuel end.
Notation "'dop' x <- r ; k" := (pbind r (fun x => k))
  (at level 200, x pattern, r at level 100, k at level 200).

(* ------------------------------------------------------------------ comparison nodes *)
Inductive cmpop := CEq | CNeq | CLt | CGt | CLeq | CGeq | CAssign | CIn.

Definition cmp_of_tok (t : tok) : option cmpop :=
  match t with
  | KEq => Some CEq | KNeq => Some CNeq | KLt => Some CLt | KGt => Some CGt
  | KLeq => Some CLeq | KGeq => Some CGeq | KAssign => Some CAssign | KIn => Some CIn
  | _ => None
  end.
Definition tok_of_cmp (c : cmpop) : tok :=
  match c with
  | CEq => KEq | CNeq => KNeq | CLt => KLt | CGt => KGt
  | CLeq => KLeq | CGeq => KGeq | CAssign => KAssign | CIn => KIn
  end.
Definition cmp_name (c : cmpop) : string := tag_of (tok_of_cmp c).
Definition is_backward (c : cmpop) : bool := match c with CGt | CGeq => true | _ => false end.
Definition is_forward (c : cmpop) : bool := match c with CLt | CLeq => true | _ => false end.
Definition flip_op (c : cmpop) : cmpop := match c with CGt => CLt | CGeq => CLeq | c => c end.

(* make_comparison_node: flip only if a backward operator is present and no forward one *)
Definition mk_cmp (terms : list ptree) (ops : list cmpop) : ptree :=
  if existsb is_backward ops && negb (existsb is_forward ops)
  then PCall (String.concat "_" (map cmp_name (rev (map flip_op ops)))) (rev terms) []
  else PCall (String.concat "_" (map cmp_name ops)) terms [].

(* ------------------------------------------------------------------ surface syntax *)
Inductive binop := BPow | BMul | BDiv | BMod | BAdd | BSub | BPm.

Definition tok_of_bin (o : binop) : tok :=
  match o with BPow => KExp | BMul => KMul | BDiv => KDiv | BMod => KMod
             | BAdd => KPlus | BSub => KMinus | BPm => KPm end.
Definition bin_name (o : binop) : string := tag_of (tok_of_bin o).

Inductive sst :=
| SNum (n : numlit)
| SVar (x : string)
| SStr (s : string)
| SInst (s : string)
| SParen (e : sst)
| SSign (neg : bool) (e : sst)                 (* unary - (true) / + (false) *)
| SFact (e : sst)
| SBin (op : binop) (a b : sst)
| SRange (a b : sst)                           (* a .. b *)
| SInterval (a b : sst)                        (* [a, b] *)
| SCall (f : string) (args : list sst) (kw : list (string * sst))
| SArr (l : list sst)
| SCompr (body : sst) (cl : list (option string * sst))  (* Some x: generator x in e; None: condition *)
| SQty (e : sst) (u : usig)
| SConv (e : sst) (u : usig)                   (* e to u *)
| SCmp1 (op : cmpop) (a b : sst)
| SCmp2 (op1 op2 : cmpop) (a b c : sst).

Inductive stmt := StExpr (e : sst) | StAssign (x : string) (e : sst).
Definition prog := list stmt.

Definition sign_name (neg : bool) : string := if neg then "-" else "+".

Fixpoint desugar (s : sst) : ptree :=
  match s with
  | SNum n => PNum n
  | SVar x => PVar x
  | SStr t => PStr t
  | SInst t => PInst t
  | SParen e => desugar e
  | SSign neg e => PCall (sign_name neg) [desugar e] []
  | SFact e => PCall "!" [desugar e] []
  | SBin op a b => PCall (bin_name op) [desugar a; desugar b] []
  | SRange a b => PCall "range" [desugar a; desugar b] []
  | SInterval a b => PCall "interval" [desugar a; desugar b] []
  | SCall f args kw => PCall f (map desugar args) (map (fun p => (fst p, desugar (snd p))) kw)
  | SArr l => PArr (map desugar l)
  | SCompr body cl =>
      PCompr (desugar body)
        (flat_map (fun c => match fst c with Some x => [(x, desugar (snd c))] | None => [] end) cl)
        (flat_map (fun c => match fst c with Some _ => [] | None => [desugar (snd c)] end) cl)
  | SQty e u => PQty (desugar e) u
  | SConv e u => PConv (desugar e) u
  | SCmp1 op a b => mk_cmp [desugar a; desugar b] [op]
  | SCmp2 op1 op2 a b c => mk_cmp [desugar a; desugar b; desugar c] [op1; op2]
  end.

Definition desugar_stmt (s : stmt) : ptree :=
  match s with StExpr e => desugar e | StAssign x e => PAssign x (desugar e) end.
Definition desugar_prog (p : prog) : ptree := PStmts (map desugar_stmt p).

(* a size: every strict sub-expression is smaller, and the constructs whose parts are parsed
   by a nested parse_expression (behind "[" "{" "(" of a call) count 2, so that the size also
   bounds the nesting depth of parse_expression on the fully parenthesised text *)
Fixpoint size (s : sst) : nat :=
  match s with
  | SNum _ | SVar _ | SStr _ | SInst _ => 1
  | SParen e | SSign _ e | SFact e | SQty e _ | SConv e _ => S (size e)
  | SBin _ a b | SRange a b | SCmp1 _ a b => S (size a + size b)
  | SInterval a b => S (S (size a + size b))
  | SCmp2 _ _ a b c => S (size a + size b + size c)
  | SCall _ args kw =>
      S (S (fold_right (fun e n => size e + n) 0 args + fold_right (fun p n => size (snd p) + n) 0 kw))%nat
  | SArr l => S (S (fold_right (fun e n => size e + n) 0 l))%nat
  | SCompr body cl => S (S (size body + fold_right (fun c n => size (snd c) + n) 0 cl))%nat
  end.

(* ------------------------------------------------------------------ text of trees and tokens
   (the harness produces the same text from the implementation's ParseNode / Token objects) *)
Definition show_numlit (n : numlit) : string :=
  match n with ZLit z => "I" ++ show_Z z | XLit l => "O" ++ l end.

(* str(value): what parse_number stores as the leaf's label *)
Definition numlit_label (n : numlit) : string :=
  match n with ZLit z => show_Z z | XLit l => l end.

Definition show_tok (t : tok) : string :=
  match t with
  | KNum n => "n:" ++ show_numlit n
  | KVar x => "v:" ++ x
  | KStr s => "s:" ++ s
  | KInst s => "t:" ++ s
  | c => tag_of c
  end.
Definition show_toks (l : list tok) : string := String.concat " " (map show_tok l).

Definition show_units (u : units) : string :=
  String.concat " " (map (fun p => fst p ++ "^" ++ show_Z (snd p)) u).
Definition show_usig (u : usig) : string := show_units (fst u) ++ "|" ++ show_units (snd u).

Fixpoint show_ptree (t : ptree) : string :=
  match t with
  | PNum n => "N(" ++ numlit_label n ++ ")"
  | PStr s => "S(" ++ s ++ ")"
  | PInst s => "T(" ++ s ++ ")"
  | PVar x => "V(" ++ x ++ ")"
  | PCall f args kw =>
      "C[" ++ f ++ " " ++ String.concat "," (map show_ptree args) ++ " "
           ++ String.concat "," (map (fun p => fst p ++ ":" ++ show_ptree (snd p)) kw) ++ "]"
  | PAssign x e => "A[" ++ x ++ " " ++ show_ptree e ++ "]"
  | PStmts l => "P[" ++ String.concat ";" (map show_ptree l) ++ "]"
  | PQty e u => "Q[" ++ show_ptree e ++ " " ++ show_usig u ++ "]"
  | PConv e u => "K[" ++ show_ptree e ++ " " ++ show_usig u ++ "]"
  | PArr l => "L[" ++ String.concat "," (map show_ptree l) ++ "]"
  | PCompr b gens conds =>
      "M[" ++ show_ptree b ++ " " ++ String.concat "," (map (fun p => fst p ++ "~" ++ show_ptree (snd p)) gens)
           ++ " " ++ String.concat "," (map show_ptree conds) ++ "]"
  end.
