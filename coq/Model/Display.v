(* Display.v — what Ka prints for a result and what it offers for re-entry
   (interpret.py display_result / stringify_result / prettify_frac /
   precisionify_float, units.py QuantityVector.prettified, gui.py:279-298).
   Definitions only; proofs are in Proofs/DisplayProofs.v.

   Values are the reduced results (reduce_result has resolved lazy values):
   numbers (Num.num: int, canonical Fraction, float given by the exact rational
   value of the double), quantities (magnitude + exponents over the base units
   of Gen/GenUnits.v), arrays, intervals, strings, instants.

   precisionify_float is '{:.<p>g}'.format(f): CPython formats the exact binary
   value correctly rounded (half-to-even) to p significant digits (p = 0 is
   treated as 1), uses exponent form iff exp < -4 or exp >= p, strips trailing
   zeros, writes the exponent as e+XX / e-XX with at least two digits.  [fmt_g]
   below is that function on the exact rational value; the harness compares it
   with Python's own formatter on every sampled double.

   One place models the REPAIRED behaviour of a reported defect: a top-level
   Interval is printed through stringify_result (floats with the configured
   precision), not through Interval.__str__ (raw repr of floats). *)
From Ka Require Export Model.Prelude.
From Ka Require Export Model.Num.
From Ka Require Import Gen.GenUnits.
From Coq Require Import Ascii.
Local Open Scope string_scope.

(* ------------------------------------------------------------------ digits *)
Definition digit_char (d : Z) : ascii := ascii_of_nat (48 + Z.to_nat d).

Fixpoint dtext (ds : list Z) : string :=
  match ds with
  | [] => EmptyString
  | d :: r => String (digit_char d) (dtext r)
  end.

Definition digit_of (c : ascii) : option Z :=
  let n := nat_of_ascii c in
  if (48 <=? n)%nat && (n <=? 57)%nat then Some (Z.of_nat (n - 48)) else None.

(* longest prefix of decimal digits, and the rest *)
Fixpoint take_digits (s : string) : list Z * string :=
  match s with
  | String c r =>
      match digit_of c with
      | Some d => let '(ds, rest) := take_digits r in (d :: ds, rest)
      | None => ([], s)
      end
  | EmptyString => ([], EmptyString)
  end.

(* Horner value of a digit list, most significant digit first *)
Definition dval (ds : list Z) : Z := fold_left (fun a d => 10 * a + d)%Z ds 0%Z.

(* an independent reader of integer text: optional '-', then digits only *)
Definition nat_text (s : string) : option Z :=
  match take_digits s with
  | (d :: ds, EmptyString) => Some (dval (d :: ds))
  | _ => None
  end.
Definition Z_of_text (s : string) : option Z :=
  match s with
  | String "-"%char r => option_map Z.opp (nat_text r)
  | _ => nat_text s
  end.

(* reads a (possibly negative) integer at the front of s *)
Definition read_Z (s : string) : option (Z * string) :=
  match s with
  | String "-"%char r =>
      match take_digits r with
      | (d :: ds, rest) => Some ((- dval (d :: ds))%Z, rest)
      | _ => None
      end
  | _ =>
      match take_digits s with
      | (d :: ds, rest) => Some (dval (d :: ds), rest)
      | _ => None
      end
  end.

(* the k low decimal digits of m, most significant first *)
Fixpoint digits_msd (k : nat) (m : Z) : list Z :=
  match k with
  | O => []
  | S k' => ((m / 10 ^ Z.of_nat k') mod 10)%Z :: digits_msd k' m
  end.

(* remove trailing zeros *)
Fixpoint strip_tz (ds : list Z) : list Z :=
  match ds with
  | [] => []
  | d :: r =>
      match strip_tz r with
      | [] => if (d =? 0)%Z then [] else [d]
      | r' => d :: r'
      end
  end.

(* remove leading zeros *)
Fixpoint strip_lz (ds : list Z) : list Z :=
  match ds with
  | [] => []
  | d :: r => if (d =? 0)%Z then strip_lz r else ds
  end.

(* --------------------------------------------- floor logarithm, rounding *)
Definition bpow (b e : Z) : Q := (inject_Z b) ^ e.

(* pre: b^e <= x.  Finds the first e' >= e with x < b^(e'+1). *)
Fixpoint ilog_up (fuel : nat) (b : Z) (x : Q) (e : Z) : Z :=
  match fuel with
  | O => e
  | S f => if Qltb x (bpow b (e + 1)) then e else ilog_up f b x (e + 1)%Z
  end.
(* pre: x < b^(e+1).  Finds the first e' <= e with b^e' <= x. *)
Fixpoint ilog_down (fuel : nat) (b : Z) (x : Q) (e : Z) : Z :=
  match fuel with
  | O => e
  | S f => if Qleb (bpow b e) x then e else ilog_down f b x (e - 1)%Z
  end.

Definition log2_spread (x : Q) : Z := (Z.log2 (Qnum x) + Z.log2 (Zpos (Qden x)))%Z.
Definition log2_diff (x : Q) : Z := (Z.log2 (Qnum x) - Z.log2 (Zpos (Qden x)))%Z.

(* floor (log_b x) for x > 0, b >= 2, searched from a guess g with |g| <= log2_spread x *)
Definition ilog_from (b g : Z) (x : Q) : Z :=
  let fuel := Z.to_nat (2 * log2_spread x + 3) in
  if Qleb (bpow b g) x then ilog_up fuel b x g else ilog_down fuel b x (g - 1)%Z.

Definition ilog10 (x : Q) : Z := ilog_from 10 (log2_diff x * 30103 / 100000)%Z x.
Definition ilog2 (x : Q) : Z := ilog_from 2 (log2_diff x) x.

(* x > 0, p >= 1: the p-digit mantissa m (10^(p-1) <= m < 10^p) and the decimal
   exponent e of x rounded half-to-even to p significant digits:
   |x - m * 10^(e-p+1)| <= 1/2 * 10^(e-p+1). *)
Definition round_sig (p : Z) (x : Q) : Z * Z :=
  let e := ilog10 x in
  let m := Qround_half_even (x / bpow 10 (e - p + 1)) in
  if (m =? 10 ^ p)%Z then ((10 ^ (p - 1))%Z, (e + 1)%Z) else (m, e).

(* float(Fraction) = int/int true division: correctly rounded to binary64
   (53 bits, subnormals below 2^-1022), OverflowError (None) from 2^1024.
   The result is the exact value of the double (0 for both zeros). *)
Definition float_of_pos (a : Q) : option Q :=
  let qe := (Z.max (ilog2 a) (-1022) - 52)%Z in
  let m := Qround_half_even (a / bpow 2 qe) in
  let r := inject_Z m * bpow 2 qe in
  if Qleb (bpow 2 1024) r then None else Some (Qred r).
Definition float_of_Q (q : Q) : option Q :=
  match Qcompare q 0 with
  | Eq => Some 0
  | Gt => float_of_pos q
  | Lt => option_map Qopp (float_of_pos (- q))
  end.

(* ---------------------------------------------------------------- '%.{p}g' *)
Definition exp_text (e : Z) : string :=
  (if (e <? 0)%Z then "-" else "+")
  ++ (if (Z.abs e <? 10)%Z then "0" else "") ++ show_Z (Z.abs e).

Definition sci_text (ds : list Z) (e : Z) : string :=
  match ds with
  | [] => EmptyString
  | d :: r =>
      String (digit_char d) (match r with [] => "" | _ => "." ++ dtext r end)
      ++ "e" ++ exp_text e
  end.

Definition plain_text (ds : list Z) (e : Z) : string :=
  if (e <? 0)%Z then "0." ++ dtext (repeat 0%Z (Z.to_nat (- e - 1))) ++ dtext ds
  else
    let k := Z.to_nat (e + 1) in
    if (List.length ds <=? k)%nat then dtext ds ++ dtext (repeat 0%Z (k - List.length ds))
    else dtext (firstn k ds) ++ "." ++ dtext (skipn k ds).

Definition use_exp (P e : Z) : bool := (e <? -4)%Z || (P <=? e)%Z.

Definition fmt_pos (p : Z) (x : Q) : string :=
  let P := Z.max 1 p in
  let '(m, e) := round_sig P x in
  let ds := strip_tz (digits_msd (Z.to_nat P) m) in
  if use_exp P e then sci_text ds e else plain_text ds e.

Definition fmt_g (p : Z) (x : Q) : string :=
  match Qcompare x 0 with
  | Eq => "0"
  | Gt => fmt_pos p x
  | Lt => "-" ++ fmt_pos p (- x)
  end.

(* the decimal reading of such a text: [-] digits [. digits] [e(+|-)digits] *)
Definition split_sign (s : string) : bool * string :=
  match s with
  | String "-"%char r => (true, r)
  | _ => (false, s)
  end.
Definition read_exp (s : string) : option Z :=
  match s with
  | EmptyString => Some 0%Z
  | String "e"%char (String "+"%char r) => nat_text r
  | String "e"%char (String "-"%char r) => option_map Z.opp (nat_text r)
  | _ => None
  end.
(* (negative?, integer digits, fraction digits, exponent) *)
Definition text_parts (s : string) : option (bool * list Z * list Z * Z) :=
  let '(neg, s0) := split_sign s in
  let '(Ip, s1) := take_digits s0 in
  match Ip with
  | [] => None
  | _ =>
      let '(Fp, s2) := match s1 with
                      | String "."%char r => take_digits r
                      | _ => ([], s1)
                      end in
      match read_exp s2 with
      | Some Ex => Some (neg, Ip, Fp, Ex)
      | None => None
      end
  end.
Definition value_of_text (s : string) : option Q :=
  match text_parts s with
  | Some (neg, Ip, Fp, Ex) =>
      Some ((if neg then -1 else 1) * inject_Z (dval (Ip ++ Fp)) * bpow 10 (Ex - Z.of_nat (List.length Fp)))
  | None => None
  end.
(* number of significant digits written: mantissa digits from the first non-zero one *)
Definition sig_digits (s : string) : option nat :=
  match text_parts s with
  | Some (_, Ip, Fp, _) => Some (List.length (strip_lz (Ip ++ Fp)))
  | None => None
  end.

(* ---------------------------------------------------------------- fractions *)
Definition frac_text (q : Q) : string := show_Z (Qnum q) ++ "/" ++ show_pos (Qden q).   (* str(Fraction) *)

Definition bracket (b : bool) (s : string) : string := if b then "(" ++ s ++ ")" else s.

Definition prettify_frac (q : Q) (brackets : bool) : string :=
  let n := Qnum q in
  let d := Zpos (Qden q) in
  let sign := (if 0 <=? n then 1 else -1)%Z in
  let whole := (Z.abs n / d)%Z in
  bracket brackets
    (if (0 <? whole)%Z
     then show_Z (sign * whole) ++ " " ++ show_Z (Z.abs n - whole * d) ++ "/" ++ show_pos (Qden q)
     else frac_text q).

(* the reading of "w n/d" / "n/d": (whole part if present, numerator, denominator) *)
Definition mixed_parts (s : string) : option (option Z * Z * Z) :=
  match read_Z s with
  | Some (a, String " "%char r) =>
      match read_Z r with
      | Some (n, String "/"%char r2) =>
          match nat_text r2 with
          | Some d => Some (Some a, n, d)
          | None => None
          end
      | _ => None
      end
  | Some (n, String "/"%char r2) =>
      match nat_text r2 with
      | Some d => Some (None, n, d)
      | None => None
      end
  | _ => None
  end.
(* the sign is written on the whole part and applies to the fraction too *)
Definition mixed_denote (w : option Z) (n d : Z) : Q :=
  match w with
  | None => inject_Z n / inject_Z d
  | Some a => if (a <? 0)%Z then inject_Z a - inject_Z n / inject_Z d
              else inject_Z a + inject_Z n / inject_Z d
  end.

(* the parenthesised decimal approximation, precisionify_frac:
   precisionify_float(float(f)); float(f) of a tiny negative fraction is -0.0,
   printed "-0".  A fraction too large for a double (OverflowError) is divided
   as Decimal(n)/Decimal(d) in the default context — 28 significant digits,
   half-even, and always 28 digits here because the quotient exceeds 10^308 —
   and Decimal's 'g' format rounds that once more (half-even) to p digits when
   p < 28, keeps trailing zeros, and writes the exponent unpadded with a sign. *)
Definition dec_sci_text (ds : list Z) (e : Z) : string :=
  match ds with
  | [] => EmptyString
  | d :: r =>
      String (digit_char d) (match r with [] => "" | _ => "." ++ dtext r end)
      ++ "e" ++ (if (e <? 0)%Z then "-" else "+") ++ show_Z (Z.abs e)
  end.
Definition dec_fallback (p : Z) (a : Q) : string :=     (* a > 0 *)
  let P := Z.max 1 p in
  let '(c, e) := round_sig 28 a in
  if (P <? 28)%Z then
    let '(m, e2) := round_sig P (inject_Z c * bpow 10 (e - 27)) in
    dec_sci_text (digits_msd (Z.to_nat P) m) e2
  else dec_sci_text (digits_msd 28 c) e.

Definition approx_text (p : Z) (q : Q) : string :=
  match float_of_Q q with
  | Some f => if Qeqb f 0 then (if Qltb q 0 then "-0" else "0") else fmt_g p f
  | None => if Qltb q 0 then "-" ++ dec_fallback p (- q) else dec_fallback p q
  end.

(* ------------------------------------------------------------------- units *)
Definition unit_word (name : string) (e : Z) : string :=
  if (e =? 1)%Z then name else name ++ "^" ++ show_Z e.

Fixpoint unit_words (names : list string) (dims : list Z) : list string :=
  match names, dims with
  | n :: ns, e :: es =>
      if (e =? 0)%Z then unit_words ns es else unit_word n e :: unit_words ns es
  | _, _ => []
  end.

Definition prettified (dims : list Z) : string := String.concat " " (unit_words base_units dims).

(* reading the unit text back: words separated by single spaces, each name or name^exp *)
Fixpoint split_caret (s : string) : string * option string :=
  match s with
  | EmptyString => (EmptyString, None)
  | String c r =>
      if Ascii.eqb c "^" then (EmptyString, Some r)
      else let '(a, b) := split_caret r in (String c a, b)
  end.
Definition word_denote (w : string) : option (string * Z) :=
  match split_caret w with
  | (n, None) => Some (n, 1%Z)
  | (n, Some t) => match Z_of_text t with Some e => Some (n, e) | None => None end
  end.
(* first word and the remaining words *)
Fixpoint words_aux (s : string) : string * list string :=
  match s with
  | EmptyString => (EmptyString, [])
  | String c r =>
      let '(w, ws) := words_aux r in
      if Ascii.eqb c " " then (EmptyString, w :: ws) else (String c w, ws)
  end.
Definition words (s : string) : list string :=
  match s with
  | EmptyString => []
  | _ => let '(w, ws) := words_aux s in w :: ws
  end.
Fixpoint sequence {A} (l : list (option A)) : option (list A) :=
  match l with
  | [] => Some []
  | Some a :: r => match sequence r with Some r' => Some (a :: r') | None => None end
  | None :: _ => None
  end.
(* the dimension denoted by a unit text: (base-unit name, exponent) for every word *)
Definition dims_of_text (s : string) : option (list (string * Z)) := sequence (map word_denote (words s)).

(* the non-zero dimensions of a quantity, in base-unit order *)
Fixpoint nonzero_dims (names : list string) (dims : list Z) : list (string * Z) :=
  match names, dims with
  | n :: ns, e :: es => if (e =? 0)%Z then nonzero_dims ns es else (n, e) :: nonzero_dims ns es
  | _, _ => []
  end.

(* a base-unit name that can be read back: not empty, no space, no caret *)
Fixpoint plain_name_chars (s : string) : bool :=
  match s with
  | EmptyString => true
  | String c r => negb (Ascii.eqb c "^") && negb (Ascii.eqb c " ") && plain_name_chars r
  end.
Definition plain_name (s : string) : bool :=
  match s with EmptyString => false | _ => plain_name_chars s end.

(* ----------------------------------------------------------------- instants *)
Fixpoint pad (k : nat) (z : Z) : string :=
  match k with
  | O => EmptyString
  | S k' => pad k' (z / 10) ++ String (digit_char (z mod 10)) EmptyString
  end.

(* datetime.isoformat(): the utc offset (microseconds) is written +HH:MM, with
   :SS and .ffffff only when they are not zero *)
Definition tz_text (off : Z) : string :=
  let a := Z.abs off in
  let us := (a mod 1000000)%Z in
  let s := (a / 1000000)%Z in
  (if (off <? 0)%Z then "-" else "+")
  ++ pad 2 (s / 3600) ++ ":" ++ pad 2 ((s / 60) mod 60)
  ++ (if ((s mod 60 =? 0) && (us =? 0))%Z then ""
      else ":" ++ pad 2 (s mod 60) ++ (if (us =? 0)%Z then "" else "." ++ pad 6 us)).

Definition iso_text (y mo d h mi s us : Z) (tz : option Z) : string :=
  pad 4 y ++ "-" ++ pad 2 mo ++ "-" ++ pad 2 d ++ "T" ++ pad 2 h ++ ":" ++ pad 2 mi ++ ":" ++ pad 2 s
  ++ (if (us =? 0)%Z then "" else "." ++ pad 6 us)
  ++ match tz with None => "" | Some off => tz_text off end.

(* tokens.py read_string on the text after the opening quote: a backslash
   followed by a quote is kept (both characters) and does not close the string *)
Definition quote_char : ascii := ascii_of_nat 34.
Definition backslash_char : ascii := ascii_of_nat 92.
Fixpoint read_string_body (s : string) : option string :=
  match s with
  | EmptyString => None
  | String c r =>
      if Ascii.eqb c backslash_char then
        match r with
        | String c2 r2 =>
            if Ascii.eqb c2 quote_char
            then option_map (fun t => String c (String c2 t)) (read_string_body r2)
            else option_map (String c) (read_string_body r)
        | EmptyString => None
        end
      else if Ascii.eqb c quote_char then Some EmptyString
      else option_map (String c) (read_string_body r)
  end.
Definition read_string (s : string) : option string :=
  match s with
  | String c r => if Ascii.eqb c quote_char then read_string_body r else None
  | EmptyString => None
  end.
Fixpoint plain_string (s : string) : bool :=      (* no quote, no backslash *)
  match s with
  | EmptyString => true
  | String c r => negb (Ascii.eqb c quote_char) && negb (Ascii.eqb c backslash_char) && plain_string r
  end.

(* ------------------------------------------------------------------- values *)
Inductive value :=
| VNum (n : num)
| VQty (mag : num) (dims : list Z)
| VArr (l : list value)
| VIvl (a b : value)
| VStr (s : string)
| VInst (y mo d h mi s us : Z) (tz : option Z).

Definition quote : string := String (ascii_of_nat 34) EmptyString.

Definition num_text (p : Z) (n : num) (brackets : bool) : string :=
  match n with
  | NInt z => show_Z z
  | NFrac q => bracket brackets (frac_text q)
  | NFlt x => fmt_g p x
  end.

(* stringify_result: "syntactically valid" text; with brackets_for_frac = true
   this is what the GUI puts back into the input line *)
Fixpoint stringify (p : Z) (bf : bool) (v : value) : string :=
  match v with
  | VNum n => num_text p n bf
  | VQty mag dims => num_text p mag bf ++ " " ++ prettified dims
  | VArr l => "{" ++ String.concat ", " (map (stringify p bf) l) ++ "}"
  | VIvl a b => "[" ++ stringify p false a ++ ", " ++ stringify p false b ++ "]"
  | VStr s => quote ++ s ++ quote
  | VInst y mo d h mi s us tz => "#" ++ iso_text y mo d h mi s us tz ++ "#"
  end.

Definition reentry_text (p : Z) (v : value) : string := stringify p true v.

(* display_result: the line written to execute()'s output stream (without the
   final newline).  bf is execute's brackets_for_frac (False on the command
   line, True in the GUI). *)
Definition display (p : Z) (bf : bool) (v : value) : string :=
  match v with
  | VNum (NFrac q) => prettify_frac q false ++ " " ++ "    (" ++ approx_text p q ++ ")"
  | VNum n => num_text p n false
  | VQty (NFrac q) dims =>
      prettify_frac q bf ++ " " ++ prettified dims
      ++ "    (" ++ approx_text p q ++ " " ++ prettified dims ++ ")"
  | VQty mag dims => num_text p mag false ++ " " ++ prettified dims
  | VArr l => "{" ++ String.concat ", " (map (stringify p false) l) ++ "}"
  | VIvl a b => stringify p false v        (* REPAIRED: the code prints Interval.__str__ *)
  | VStr s => s
  | VInst y mo d h mi s us tz => iso_text y mo d h mi s us tz
  end.
