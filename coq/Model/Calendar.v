(* Calendar.v — the proleptic Gregorian calendar that Python's datetime implements
   (datetime is external C code; it is tied to this model by the C17 correspondence runs).
   Definitions only; proofs are in Proofs/CalendarProofs.v.

   Day numbers count from 0001-01-01 = day 0 (Python's toordinal() - 1).  The conversion
   functions are the era based algorithms of H. Hinnant ("chrono-compatible low-level date
   algorithms"), moved to that epoch.  Coq's Z./ is floor division, so they are total on Z. *)
From Ka Require Export Model.Prelude.
Local Open Scope Z_scope.

Definition is_leap (y : Z) : bool :=
  ((y mod 4 =? 0) && negb (y mod 100 =? 0)) || (y mod 400 =? 0).

Definition days_in_month (y m : Z) : Z :=
  if m =? 2 then (if is_leap y then 29 else 28)
  else if (m =? 4) || (m =? 6) || (m =? 9) || (m =? 11) then 30 else 31.

(* a calendar date (any year in Z) *)
Definition valid_date (y m d : Z) : bool :=
  (1 <=? m) && (m <=? 12) && (1 <=? d) && (d <=? days_in_month y m).

(* datetime.MINYEAR / datetime.MAXYEAR *)
Definition MINYEAR : Z := 1.
Definition MAXYEAR : Z := 9999.
Definition valid_year (y : Z) : bool := (MINYEAR <=? y) && (y <=? MAXYEAR).

(* --- one 400-year era, years starting on 1 March ("shifted" years) --------------------- *)
Definition DAYS_PER_ERA : Z := 146097.

(* day of the shifted year of day d of month m: 0 = 1 March *)
Definition doy_of (m d : Z) : Z := (153 * ((m + 9) mod 12) + 2) / 5 + d - 1.

(* day of era of (year-of-era yoe in [0,400), month, day) *)
Definition doe_of (yoe m d : Z) : Z := yoe * 365 + yoe / 4 - yoe / 100 + doy_of m d.

(* inverse inside one era: day of era in [0,146097) -> (shifted year of era, month, day) *)
Definition civil_of_doe (doe : Z) : Z * Z * Z :=
  let yoe := (doe - doe / 1460 + doe / 36524 - doe / 146096) / 365 in
  let doy := doe - (365 * yoe + yoe / 4 - yoe / 100) in
  let mp := (5 * doy + 2) / 153 in
  let d := doy - (153 * mp + 2) / 5 + 1 in
  let m := if mp <? 10 then mp + 3 else mp - 9 in
  (yoe, m, d).

(* January and February belong to the previous shifted year *)
Definition shift (m : Z) : Z := if m <=? 2 then 1 else 0.

(* --- the two conversions ---------------------------------------------------------------- *)
Definition days_from_civil (y m d : Z) : Z :=
  let y' := y - shift m in
  let era := y' / 400 in
  let yoe := y' - era * 400 in
  era * DAYS_PER_ERA + doe_of yoe m d - 306.

Definition civil_from_days (n : Z) : Z * Z * Z :=
  let z := n + 306 in
  let era := z / DAYS_PER_ERA in
  let doe := z - era * DAYS_PER_ERA in
  let '(yoe, m, d) := civil_of_doe doe in
  (yoe + era * 400 + shift m, m, d).

(* days before 1 January of year y+1 (closed form used for the range statements) *)
Definition days_before_year_end (y : Z) : Z := 365 * y + y / 4 - y / 100 + y / 400.

(* first day number past 9999-12-31 *)
Definition MAX_DAYS : Z := 3652059.

(* --- bounded universal checks by an iterated counter (no list is materialised) ------------ *)
Fixpoint all_from (n : nat) (z : Z) (f : Z -> bool) : bool :=
  match n with
  | O => true
  | S k => f z && all_from k (z + 1) f
  end.
(* f holds on 0, 1, .., n-1 *)
Definition all_below (n : nat) (f : Z -> bool) : bool := all_from n 0 f.

(* the shifted-year form of date validity: yoe is the year-of-era of the shifted year *)
Definition valid_in_era (yoe m d : Z) : bool := valid_date (yoe + shift m) m d.

Definition day_ok (doe : Z) : bool :=
  let '(yoe, m, d) := civil_of_doe doe in
  (0 <=? yoe) && (yoe <? 400) && valid_in_era yoe m d && (doe_of yoe m d =? doe).

Definition date_ok (yoe m d : Z) : bool :=
  if valid_in_era yoe m d then
    let doe := doe_of yoe m d in
    (0 <=? doe) && (doe <? DAYS_PER_ERA) &&
    (let '(yoe', m', d') := civil_of_doe doe in (yoe' =? yoe) && (m' =? m) && (d' =? d))
  else true.

(* every day of one era; every (shifted year of era, month 1..12, day 1..31) *)
Definition era_check_days : bool := all_below (Z.to_nat DAYS_PER_ERA) day_ok.
Definition era_check_dates : bool :=
  all_below 400 (fun yoe => all_below 12 (fun m0 => all_below 31 (fun d0 =>
    date_ok yoe (m0 + 1) (d0 + 1)))).
