(* Prob.v — Ka's random variables and events as Python evaluates them
   (src/ka/probability.py, the registrations in src/ka/functions.py:409-467 and the
   comparison rewrite in src/ka/parse.py:47-67).  Definitions only; proofs are in
   Proofs/ProbProofs.v.

   Numbers are exact rationals (Q).  The code computes exactly when parameters and
   thresholds are ints/Fractions (Binomial, Geometric, Bernoulli, Uniform); UniformInt
   uses Python's "/" on ints (a float that is value-equal to the rational here) and
   Poisson/Exponential/Gaussian go through math.exp / math.erf, which enter the model
   as the two fields of [flops] (abstract functions Q -> Q). *)
From Ka Require Export Model.Num.
From Coq Require Export Qminmax.

Open Scope Q_scope.

(* ------------------------------------------------------------------------- *)
(* Finite sums over integer windows.  The accumulator is reduced at every step so
   that evaluation in the VM stays small; Qred is the identity up to ==. *)
Fixpoint sum_n (f : Z -> Q) (lo : Z) (n : nat) : Q :=        (* Σ_{i<n} f (lo+i) *)
  match n with
  | O => 0
  | S m => Qred (sum_n f lo m + f (lo + Z.of_nat m)%Z)
  end.
(* Σ_{k=lo..hi} f k   (0 when hi < lo) *)
Definition sumZ (f : Z -> Q) (lo hi : Z) : Q := sum_n f lo (Z.to_nat (hi + 1 - lo)).

(* The specification side of C08: the mass that [pmf] puts on the integers k of the
   window lo..hi that satisfy the condition c. *)
Definition mass_on (pmf : Z -> Q) (c : Z -> bool) (lo hi : Z) : Q :=
  sumZ (fun k => if c k then pmf k else 0) lo hi.

(* ------------------------------------------------------------------------- *)
(* utils.py: choose (multiplicative formula, one floor division at the end) and
   factorial. *)
Fixpoint choose_loop (M : Z) (j : nat) : Z * Z :=
  match j with
  | O => (1, 1)%Z
  | S i => let '(a, b) := choose_loop M i in
           (a * (M - Z.of_nat (S i)), b * Z.of_nat (S i))%Z
  end.
Definition choose (n k : Z) : Z :=
  if (k >? n)%Z || (n <? 0)%Z || (k <? 0)%Z then 0%Z
  else let '(a, b) := choose_loop (n + 1) (Z.to_nat (Z.min k (n - k))) in (a / b)%Z.

Fixpoint fact_loop (n : nat) : Z :=
  match n with O => 1%Z | S m => (fact_loop m * Z.of_nat (S m))%Z end.
Definition factorial (n : Z) : Z := if (n <? 2)%Z then 1%Z else fact_loop (Z.to_nat n).

(* ------------------------------------------------------------------------- *)
(* The eight distributions: constructor arguments as registered (RVS table:
   Binomial (Integral, Number), UniformInt (Integral, Integral), the rest Number;
   Poisson is registered for Integral only but the class accepts any number). *)
Inductive law :=
| Binomial (n : Z) (p : Q)
| Poisson (mu : Q)
| Geometric (p : Q)
| Bernoulli (p : Q)
| UniformInt (lo hi : Z)
| Exponential (lam : Q)
| Uniform (lo hi : Q)
| Gaussian (mu sd : Q).

Definition invalid {A} : res A := Raise InvalidParameterException.

(* __init__ of each class: the guards exactly as written. *)
Definition make_rv (l : law) : res law :=
  match l with
  | Binomial n p =>
      if (n <=? 0)%Z then invalid
      else if Qltb p 0 || Qltb 1 p then invalid else Ok l
  | Poisson mu => if Qleb mu 0 then invalid else Ok l
  | Geometric p => if Qltb p 0 || Qltb 1 p then invalid else Ok l
  | Bernoulli p => if Qltb p 0 || Qltb 1 p then invalid else Ok l
  | UniformInt lo hi => if (lo >? hi)%Z then invalid else Ok l
  | Exponential lam => if Qleb lam 0 then invalid else Ok l
  | Uniform lo hi => if Qltb hi lo then invalid else Ok l
  | Gaussian mu sd => if Qleb sd 0 then invalid else Ok l
  end.

(* math.exp(-x) and math.erf(x / sqrt 2), idealised. *)
Record flops := { expneg : Q -> Q; erfs : Q -> Q }.

(* --- Binomial *)
Definition binomial_pmf (n : Z) (p : Q) (x : Z) : Q :=
  if (x <? 0)%Z || (x >? n)%Z then 0
  else Qred (inject_Z (choose n x) * p ^ x * (1 - p) ^ (n - x)).
(* sum(self.pmf(k) for k in range(x+1)) *)
Definition binomial_cdf (n : Z) (p : Q) (x : Z) : Q := sumZ (binomial_pmf n p) 0 x.

(* --- Poisson, relative to e = exp(-mu) *)
Definition poisson_term (mu : Q) (j : Z) : Q := Qred (mu ^ j / inject_Z (factorial j)).
Definition poisson_pmf (mu e : Q) (x : Z) : Q :=
  if (x <? 0)%Z then 0 else Qred (mu ^ x * e / inject_Z (factorial x)).
Definition poisson_cdf (mu e : Q) (x : Z) : Q := e * sumZ (poisson_term mu) 0 x.

(* --- Geometric (number of trials, support 1, 2, ...) *)
Definition geometric_pmf (p : Q) (x : Z) : Q :=
  if (x <? 1)%Z then 0 else (1 - p) ^ (x - 1) * p.
Definition geometric_cdf (p : Q) (x : Z) : Q :=
  if (x <? 1)%Z then 0 else 1 - (1 - p) ^ x.

(* --- Bernoulli (cdf as repaired in 25cc76f) *)
Definition bernoulli_pmf (p : Q) (x : Z) : Q :=
  if (x =? 1)%Z then p else if (x =? 0)%Z then 1 - p else 0.
Definition bernoulli_cdf (p : Q) (x : Z) : Q :=
  if (x <? 0)%Z then 0 else if (x <? 1)%Z then 1 - p else 1.

(* --- UniformInt *)
Definition uniformint_pmf (lo hi x : Z) : Q :=
  if (x <? lo)%Z || (x >? hi)%Z then 0 else 1 / inject_Z (hi - lo + 1).
Definition uniformint_cdf (lo hi x : Z) : Q :=
  if (x <? lo)%Z then 0
  else if (x >=? hi)%Z then 1
  else inject_Z (x - lo + 1) / inject_Z (hi - lo + 1).

(* --- continuous laws *)
Definition exponential_cdf (en : Q -> Q) (lam x : Q) : Q :=
  if Qltb x 0 then 0 else 1 - en (lam * x).
Definition uniform_cdf (lo hi x : Q) : Q :=
  if Qltb x lo then 0 else if Qleb hi x then 1 else (x - lo) / (hi - lo).
(* (1/2)*(1 + erf((x-mu)/(stddev*sqrt 2))); [ef z] stands for erf(z / sqrt 2) *)
Definition gaussian_cdf (ef : Q -> Q) (mu sd x : Q) : Q :=
  (1 # 2) * (1 + ef ((x - mu) / sd)).

(* mean() of each class.  1/p and 1/lam are Python divisions: ZeroDivisionError
   when the divisor is 0 (Geometric(0) passes the constructor's guard). *)
Definition mean (l : law) : res Q :=
  match l with
  | Binomial n p => Ok (inject_Z n * p)
  | Poisson mu => Ok mu
  | Geometric p => if Qis_zero p then Raise ZeroDivisionError else Ok (1 / p)
  | Bernoulli p => Ok p
  | UniformInt lo hi => Ok (inject_Z lo + inject_Z (hi - lo) / 2)
  | Exponential lam => if Qis_zero lam then Raise ZeroDivisionError else Ok (1 / lam)
  | Uniform lo hi => Ok (lo + (hi - lo) / 2)
  | Gaussian mu _ => Ok mu
  end.
(* "mean(...)" / "E(...)" applied to a constructor call *)
Definition mean_of (l : law) : res Q := do r <- make_rv l; mean r.

(* ------------------------------------------------------------------------- *)
(* A random variable as eval_probability sees it: DiscreteRandomVariable (pmf and
   cdf on ints) or any other RandomVariable (cdf on numbers). *)
Inductive rvar :=
| Disc (pmf : Z -> Q) (cdf : Z -> Q)
| Cont (cdf : Q -> Q).

Definition rv_of (fo : flops) (l : law) : rvar :=
  match l with
  | Binomial n p => Disc (binomial_pmf n p) (binomial_cdf n p)
  | Poisson mu => Disc (poisson_pmf mu (expneg fo mu)) (poisson_cdf mu (expneg fo mu))
  | Geometric p => Disc (geometric_pmf p) (geometric_cdf p)
  | Bernoulli p => Disc (bernoulli_pmf p) (bernoulli_cdf p)
  | UniformInt lo hi => Disc (uniformint_pmf lo hi) (uniformint_cdf lo hi)
  | Exponential lam => Cont (exponential_cdf (expneg fo) lam)
  | Uniform lo hi => Cont (uniform_cdf lo hi)
  | Gaussian mu sd => Cont (gaussian_cdf (erfs fo) mu sd)
  end.

(* ComparisonOp values that ever reach an Event object: the parser rewrites > and >=
   before dispatch, so GT/GEQ never do. *)
Inductive cmpop := LEQ | LT | EQ.
Inductive operand := ONum (q : Q) | ORv (X : rvar).

(* eval_probability, branch for branch.  Operand shapes that the registered
   signatures exclude (rv op rv, number op number, "=" on a continuous variable)
   would end in a TypeError/AttributeError or in the final bare `raise Exception`;
   they are unreachable through dispatch and are rendered as [Unmodelled]. *)
Definition eval_probability (op : cmpop) (left right : operand) : res Q :=
  match op with
  | EQ =>
      match left, right with
      | ORv (Disc pmf _), ONum k => Ok (pmf (Qfloor k))          (* k is an Integral *)
      | _, _ => Raise Unmodelled
      end
  | LEQ =>
      match left, right with
      | ORv (Disc _ cdf), ONum t => Ok (cdf (Qfloor t))
      | ORv (Cont cdf), ONum t => Ok (cdf t)
      | ONum t, ORv (Disc _ cdf) => Ok (1 - cdf (Qceiling t - 1)%Z)
      | ONum t, ORv (Cont cdf) => Ok (1 - cdf t)
      | _, _ => Raise Unmodelled
      end
  | LT =>
      match left, right with
      | ORv (Disc _ cdf), ONum t => Ok (cdf (Qceiling t - 1)%Z)
      | ORv (Cont cdf), ONum t => Ok (cdf t)
      | ONum t, ORv (Disc _ cdf) => Ok (1 - cdf (Qfloor t))
      | ONum t, ORv (Cont cdf) => Ok (1 - cdf t)
      | _, _ => Raise Unmodelled
      end
  end.

Inductive event :=
| Event (op : cmpop) (x y : operand)
| DoubleEvent (op1 op2 : cmpop) (x : Q) (y : rvar) (z : Q).

(* Event.probability / DoubleEvent.probability *)
Definition probability (e : event) : res Q :=
  match e with
  | Event op x y => eval_probability op x y
  | DoubleEvent op1 op2 x y z =>
      let x_adjusted :=
        match y, op1 with
        | Disc _ _, LEQ => inject_Z (Qceiling x - 1)
        | _, _ => x
        end in
      do p1 <- eval_probability LEQ (ORv y) (ONum x_adjusted);
      do p2 <- eval_probability op2 (ORv y) (ONum z);
      Ok (Qmax (p2 - p1) 0)
  end.

(* ------------------------------------------------------------------------- *)
(* Surface syntax: a comparison chain of one or two operators over numbers and
   random variables, as written. *)
Inductive rel := Rlt | Rle | Rgt | Rge | Req.
Inductive term := TNum (q : Q) | TRv (X : rvar).
Inductive written :=
| W1 (a : term) (r : rel) (b : term)
| W2 (a : term) (r1 : rel) (m : term) (r2 : rel) (b : term).

Definition is_fwd (r : rel) : bool := match r with Rlt | Rle => true | _ => false end.
Definition is_back (r : rel) : bool := match r with Rgt | Rge => true | _ => false end.
Definition flip (r : rel) : rel := match r with Rgt => Rlt | Rge => Rle | r => r end.

(* parse.py make_comparison_node: a chain with only backward operators is flipped
   and reversed; anything else is left as written. *)
Definition make_comparison (terms : list term) (ops : list rel) : list term * list rel :=
  if existsb is_back ops && negb (existsb is_fwd ops)
  then (rev terms, rev (map flip ops))
  else (terms, ops).

Definition nomatch {A} : res A := Raise NoMatchingFunctionSignatureError.
Definition op_fwd (r : rel) : cmpop := match r with Rlt => LT | _ => LEQ end.

(* dispatch of the node label ("<", "<=", "=", "<_<", ...) on the argument classes,
   restricted to what C08 is about: the event constructors.  A comparison of two
   numbers is an ordinary comparison, not an event ([Unmodelled] here). *)
Definition dispatch_event (terms : list term) (ops : list rel) : res event :=
  match ops, terms with
  | [Req], [a; b] =>
      match a, b with
      | TRv (Disc pm cd), TNum k =>
          if is_integral (NFrac k) then Ok (Event EQ (ORv (Disc pm cd)) (ONum k)) else nomatch
      | _, _ => nomatch
      end
  | [r], [a; b] =>
      match (match r with Rlt => Some LT | Rle => Some LEQ | _ => None end) with
      | None => Raise Unmodelled          (* a lone > or >= never leaves the parser *)
      | Some op =>
          match a, b with
          | TNum x, TRv Y => Ok (Event op (ONum x) (ORv Y))
          | TRv X, TNum y => Ok (Event op (ORv X) (ONum y))
          | TNum _, TNum _ => Raise Unmodelled
          | TRv _, TRv _ => nomatch
          end
      end
  | [r1; r2], [a; m; b] =>
      if is_fwd r1 && is_fwd r2 then
        match a, m, b with
        | TNum x, TRv Y, TNum z =>
            Ok (DoubleEvent (op_fwd r1) (op_fwd r2) x Y z)
        | _, _, _ => nomatch
        end
      else Raise UnknownFunctionError       (* no function is named ">_<", "<_>=", "=_<", ... *)
  | _, _ => Raise Unmodelled
  end.

Definition P_written (w : written) : res Q :=
  let '(ts, os) :=
    match w with
    | W1 a r b => make_comparison [a; b] [r]
    | W2 a r1 m r2 b => make_comparison [a; m; b] [r1; r2]
    end in
  do e <- dispatch_event ts os; probability e.

(* The condition as written, on rationals. *)
Definition holds (r : rel) (x y : Q) : bool :=
  match r with
  | Rlt => Qltb x y | Rle => Qleb x y
  | Rgt => Qltb y x | Rge => Qleb y x
  | Req => Qeqb x y
  end.

(* single comparisons: the variable on the left or on the right of the operator *)
Inductive side := XLeft | XRight.
Definition wsingle (X : rvar) (s : side) (r : rel) (t : Q) : written :=
  match s with XLeft => W1 (TRv X) r (TNum t) | XRight => W1 (TNum t) r (TRv X) end.
Definition cond1 (s : side) (r : rel) (t : Q) (k : Z) : bool :=
  match s with XLeft => holds r (inject_Z k) t | XRight => holds r t (inject_Z k) end.
(* is the set of integers satisfying the condition bounded above? *)
Definition bounded_above (s : side) (r : rel) : bool :=
  match s with XLeft => is_fwd r | XRight => is_back r end.
Definition negate (r : rel) : rel :=
  match r with Rlt => Rge | Rle => Rgt | Rgt => Rle | Rge => Rlt | Req => Req end.
Definition wdouble (X : rvar) (a : Q) (r1 r2 : rel) (b : Q) : written :=
  W2 (TNum a) r1 (TRv X) r2 (TNum b).
Definition cond2 (a : Q) (r1 r2 : rel) (b : Q) (k : Z) : bool :=
  holds r1 a (inject_Z k) && holds r2 (inject_Z k) b.

(* ------------------------------------------------------------------------- *)
(* Kernel lane: lookup tables for the two float functions and rendering. *)
Definition lookupQ (tbl : list (Q * Q)) (x : Q) : Q :=
  match find (fun p => Qeq_bool (fst p) x) tbl with Some p => snd p | None => 0 end.
Definition flops_of (et ft : list (Q * Q)) : flops :=
  {| expneg := lookupQ et; erfs := lookupQ ft |}.

Definition show_Qr (q : Q) : string := show_Q (Qred q).
(* P(<written form over one law>) as execute() evaluates it: the constructor call
   first (InvalidParameterException), then the event. *)
Definition P_law (fo : flops) (l : law) (mk : rvar -> written) : res Q :=
  do r <- make_rv l; P_written (mk (rv_of fo r)).

(* ------------------------------------------------------------------------- *)
(* Specification vocabulary used by the theorems. *)
(* (pmf, cdf) is a discrete law supported on L, L+1, ...: masses are non-negative,
   vanish below L, and the cdf at every integer t (inside or outside the support) is
   the sum of the masses on L..t. *)
Definition discrete_law (pmf cdf : Z -> Q) (L : Z) : Prop :=
  (forall k, 0 <= pmf k) /\ (forall k, (k < L)%Z -> pmf k == 0) /\
  (forall t, cdf t == sumZ pmf L t).

(* the parameter sets the constructors are meant to accept *)
Definition valid_params (l : law) : Prop :=
  match l with
  | Binomial n p => (0 < n)%Z /\ 0 <= p /\ p <= 1
  | Poisson mu => 0 < mu
  | Geometric p => 0 <= p /\ p <= 1
  | Bernoulli p => 0 <= p /\ p <= 1
  | UniformInt lo hi => (lo <= hi)%Z
  | Exponential lam => 0 < lam
  | Uniform lo hi => lo <= hi
  | Gaussian _ sd => 0 < sd
  end.
