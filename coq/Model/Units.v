(* Units.v — unit lookup as units.py:56-80 performs it, over the regenerated registry
   Gen/GenUnits.v (PREFIXES, UNITS, NAME_TO_UNIT, SYMBOL_TO_UNIT).  Definitions only.

   Strings are Coq byte strings (UTF-8 of the Python text).  startswith / slicing by a
   prefix act on code points in Python and on bytes here; for valid UTF-8 both cut at the
   same place. *)
From Ka Require Export Model.Prelude.
From Ka Require Export Gen.GenUnits.
From Coq Require Import Arith Qabs.
Local Open Scope string_scope.

(* ---- a registry: the four tables lookup_unit reads *)
Record registry := {
  r_prefixes : list gprefix;
  r_units : list gunit;
  r_names : list (string * nat);     (* NAME_TO_UNIT: spelling -> index into r_units *)
  r_symbols : list (string * nat)    (* SYMBOL_TO_UNIT *)
}.

Definition live : registry :=
  {| r_prefixes := prefixes; r_units := units; r_names := name_to_unit; r_symbols := symbol_to_unit |}.

(* dict lookup: exact string equality, first binding (the dumped dicts have unique keys) *)
Fixpoint dict_get {A} (k : string) (l : list (string * A)) : option A :=
  match l with
  | [] => None
  | (k', v) :: r => if String.eqb k k' then Some v else dict_get k r
  end.

(* name[n:] *)
Fixpoint drop (n : nat) (s : string) : string :=
  match n, s with
  | O, _ => s
  | S n', String _ r => drop n' r
  | S _, EmptyString => EmptyString
  end.

(* ---- results of lookup_unit *)
Inductive lookup_result :=
| LNone                       (* returns None: unknown unit *)
| LInvalidPrefix              (* raises InvalidPrefixError *)
| LMalformed                  (* a table maps a spelling to an index outside r_units (never in a dumped registry) *)
| LUnit (i : nat)             (* index of the registered unit *)
        (scaled_by : option nat)  (* index of the prefix applied, None when the spelling is registered itself *)
        (mult : Q)            (* the multiple of the returned Unit, exact value *)
        (exact : bool).       (* true: int/Fraction arithmetic only; false: a float took part *)

Definition kind_exact (k : nat) : bool := Nat.leb k 1.   (* 0 int, 1 Fraction, 2 float *)
Definition q_is_zero (q : Q) : bool := Z.eqb (Qnum q) 0.

Definition plain (R : registry) (i : nat) : lookup_result :=
  match nth_error (r_units R) i with
  | Some u => LUnit i None (u_mult u) (kind_exact (u_mkind u))
  | None => LMalformed
  end.

(* apply_prefix: refuses a unit with a non-zero offset, otherwise multiplies the multiple *)
Definition apply_prefix (R : registry) (pi : nat) (p : gprefix) (i : nat) : lookup_result :=
  match nth_error (r_units R) i with
  | Some u =>
      if q_is_zero (u_offset u)
      then LUnit i (Some pi) (p_mult p * u_mult u) (kind_exact (p_kind p) && kind_exact (u_mkind u))
      else LInvalidPrefix
  | None => LMalformed
  end.

(* the two tests made for one prefix *)
Definition name_split (R : registry) (p : gprefix) (w : string) : option nat :=
  if String.prefix (p_name p) w then dict_get (drop (String.length (p_name p)) w) (r_names R) else None.
Definition symbol_split (R : registry) (p : gprefix) (w : string) : option nat :=
  if String.prefix (p_symbol p) w then dict_get (drop (String.length (p_symbol p)) w) (r_symbols R) else None.

Definition try_prefix (R : registry) (pi : nat) (p : gprefix) (w : string) : option lookup_result :=
  match name_split R p w with
  | Some i => Some (apply_prefix R pi p i)
  | None =>
      match symbol_split R p w with
      | Some i => Some (apply_prefix R pi p i)
      | None => None
      end
  end.

Fixpoint prefix_loop (R : registry) (pi : nat) (ps : list gprefix) (w : string) : lookup_result :=
  match ps with
  | [] => LNone
  | p :: r =>
      match try_prefix R pi p w with
      | Some x => x
      | None => prefix_loop R (S pi) r w
      end
  end.

Definition lookup_unit_in (R : registry) (w : string) : lookup_result :=
  match dict_get w (r_names R) with
  | Some i => plain R i
  | None =>
      match dict_get w (r_symbols R) with
      | Some i => plain R i
      | None => prefix_loop R 0 (r_prefixes R) w
      end
  end.

Definition lookup_unit (w : string) : lookup_result := lookup_unit_in live w.

(* ---- "the same reading": same unit, same size, same exactness (which of two equal
   prefixes — kilo is listed with k and with K — produced it does not matter) *)
Definition same_reading (a b : lookup_result) : bool :=
  match a, b with
  | LNone, LNone => true
  | LInvalidPrefix, LInvalidPrefix => true
  | LMalformed, LMalformed => true
  | LUnit i _ m e, LUnit j _ m' e' => Nat.eqb i j && Qeq_bool m m' && Bool.eqb e e'
  | _, _ => false
  end.

Definition is_some {A} (o : option A) : bool := match o with Some _ => true | None => false end.

Definition registered (R : registry) (w : string) : bool :=
  is_some (dict_get w (r_names R)) || is_some (dict_get w (r_symbols R)).

(* does prefix q read w differently from [want]? *)
Definition split_agrees (R : registry) (want : lookup_result) (qi : nat) (q : gprefix) (o : option nat) : bool :=
  match o with
  | None => true
  | Some j => same_reading (apply_prefix R qi q j) want
  end.

Fixpoint earlier_agree (R : registry) (want : lookup_result) (qi : nat) (qs : list gprefix) (w : string) : bool :=
  match qs with
  | [] => true
  | q :: r =>
      split_agrees R want qi q (name_split R q w)
      && split_agrees R want qi q (symbol_split R q w)
      && earlier_agree R want (S qi) r w
  end.

(* [w] read as prefix number pi (= p) applied to unit i has no other reading: w is not itself
   registered, no earlier prefix in table order splits it into a different (unit, size), and —
   for a symbol reading — the name test of p itself, which is made first, does not either. *)
Definition no_other_reading (R : registry) (by_symbol : bool) (pi : nat) (p : gprefix) (i : nat) (w : string) : bool :=
  negb (registered R w)
  && earlier_agree R (apply_prefix R pi p i) 0 (firstn pi (r_prefixes R)) w
  && (if by_symbol then split_agrees R (apply_prefix R pi p i) pi p (name_split R p w) else true).

(* the strict form: no earlier split at all *)
Fixpoint earlier_none (R : registry) (qs : list gprefix) (w : string) : bool :=
  match qs with
  | [] => true
  | q :: r => negb (is_some (name_split R q w)) && negb (is_some (symbol_split R q w)) && earlier_none R r w
  end.
Definition no_reading_before (R : registry) (by_symbol : bool) (pi : nat) (p : gprefix) (w : string) : bool :=
  negb (registered R w)
  && earlier_none R (firstn pi (r_prefixes R)) w
  && (if by_symbol then negb (is_some (name_split R p w)) else true).

(* ---- helpers over indexed tables *)
Fixpoint index_from {A} (i : nat) (l : list A) : list (nat * A) :=
  match l with [] => [] | x :: r => (i, x) :: index_from (S i) r end.
Definition iunits (R : registry) := index_from 0 (r_units R).
Definition iprefixes (R : registry) := index_from 0 (r_prefixes R).

Definition no_plural : string := "noplural".
(* the spellings of a unit: (spelling, is it a symbol) *)
Definition spellings (u : gunit) : list (string * bool) :=
  (u_symbol u, true) :: (u_singular u, false)
  :: (if String.eqb (u_plural u) no_plural then [] else [(u_plural u, false)]).

Definition is_cash (u : gunit) : bool := existsb (String.eqb "cash") (u_quantities u).
Definition unit_exact (u : gunit) : bool := kind_exact (u_mkind u).

(* ---- checkers evaluated over the regenerated registry (GenFacts/UnitFacts.v) *)

(* keys unique in each dict; a spelling that is both a name and a symbol names one unit;
   every index is inside the unit table *)
Fixpoint keys_unique {A} (l : list (string * A)) : bool :=
  match l with
  | [] => true
  | (k, _) :: r => negb (is_some (dict_get k r)) && keys_unique r
  end.
Definition dicts_consistent (R : registry) : bool :=
  forallb (fun kv => match dict_get (fst kv) (r_names R) with
                     | Some j => Nat.eqb j (snd kv)
                     | None => true end) (r_symbols R).
Definition indices_valid (R : registry) : bool :=
  forallb (fun kv => Nat.ltb (snd kv) (List.length (r_units R))) (r_names R)
  && forallb (fun kv => Nat.ltb (snd kv) (List.length (r_units R))) (r_symbols R).
Definition registry_wf (R : registry) : bool :=
  keys_unique (r_names R) && keys_unique (r_symbols R) && dicts_consistent R && indices_valid R.

(* three spellings, one meaning *)
Definition resolves_plain (R : registry) (i : nat) (u : gunit) (w : string) : bool :=
  match lookup_unit_in R w with
  | LUnit j None m e => Nat.eqb j i && Qeq_bool m (u_mult u) && Bool.eqb e (unit_exact u)
  | _ => false
  end.
Definition in_own_dict (R : registry) (i : nat) (sp : string * bool) : bool :=
  match dict_get (fst sp) (if snd sp then r_symbols R else r_names R) with
  | Some j => Nat.eqb j i
  | None => false
  end.
Definition unit_three_spellings (R : registry) (iu : nat * gunit) : bool :=
  forallb (fun sp => resolves_plain R (fst iu) (snd iu) (fst sp) && in_own_dict R (fst iu) sp) (spellings (snd iu)).
Definition three_spellings_ok (R : registry) : bool := forallb (unit_three_spellings R) (iunits R).

(* the prefix table: exact kinds, multiplier = base^exp *)
Definition prefix_ok (p : gprefix) : bool :=
  kind_exact (p_kind p) && Qeq_bool (p_mult p) (Qpower (inject_Z (p_base p)) (p_exp p))
  && (Z.eqb (p_base p) 10 || Z.eqb (p_base p) 2).
Definition prefixes_ok (R : registry) : bool := forallb prefix_ok (r_prefixes R).

(* prefix on an offset unit: refused for every prefix and every spelling *)
Definition combine (p : gprefix) (sp : string * bool) : string :=
  ((if snd sp then p_symbol p else p_name p) ++ fst sp).
Definition unit_offset_refused (R : registry) (iu : nat * gunit) : bool :=
  if q_is_zero (u_offset (snd iu)) then true
  else forallb (fun p => forallb (fun sp =>
         match lookup_unit_in R (combine p sp) with LInvalidPrefix => true | _ => false end)
         (spellings (snd iu))) (r_prefixes R).
Definition offset_refused_ok (R : registry) : bool := forallb (unit_offset_refused R) (iunits R).
Definition has_offset_unit (R : registry) : bool :=
  existsb (fun u => negb (q_is_zero (u_offset u))) (r_units R).

(* census: for one unit, the (prefix index, spelling number) pairs whose combined spelling
   resolves to something else than that prefix on that unit *)
Definition expected_prefixed (R : registry) (pi : nat) (p : gprefix) (i : nat) : lookup_result := apply_prefix R pi p i.
Definition shadowed_of_unit (R : registry) (iu : nat * gunit) : list (nat * nat) :=
  flat_map (fun ip =>
    flat_map (fun ksp => if same_reading (lookup_unit_in R (combine (snd ip) (snd ksp)))
                                         (apply_prefix R (fst ip) (snd ip) (fst iu))
                         then [] else [(fst ip, fst ksp)])
             (index_from 0 (spellings (snd iu))))
    (iprefixes R).

(* ---- dimensions, sizes, ratios against a hand-written reference table (Proofs/UnitSpec.v
   supplies the table; the checkers take it as an argument) *)
Record spec_entry := { se_symbol : string; se_dim : list Z; se_size : Q; se_offset : Q }.

Fixpoint spec_get (s : string) (l : list spec_entry) : option spec_entry :=
  match l with
  | [] => None
  | e :: r => if String.eqb s (se_symbol e) then Some e else spec_get s r
  end.

Fixpoint list_Z_eqb (a b : list Z) : bool :=
  match a, b with
  | [], [] => true
  | x :: a', y :: b' => Z.eqb x y && list_Z_eqb a' b'
  | _, _ => false
  end.

Definition si_names : list string := ["kg"; "m"; "s"; "A"; "K"; "mol"; "cd"].
Fixpoint list_string_eqb (a b : list string) : bool :=
  match a, b with
  | [], [] => true
  | x :: a', y :: b' => String.eqb x y && list_string_eqb a' b'
  | _, _ => false
  end.
(* the quantity space: the seven SI base units in this order, then at most the base currency *)
Definition base_units_ok : bool :=
  list_string_eqb (firstn 7 base_units) si_names
  && match skipn 7 base_units, base_currency with
     | [], None => true
     | [c], Some c' => String.eqb c c'
     | _, _ => false
     end.

Definition all_zero (l : list Z) : bool := forallb (Z.eqb 0) l.
Definition cash_dim_ok (d : list Z) : bool :=
  Nat.eqb (List.length d) (List.length base_units)
  && all_zero (firstn 7 d)
  && list_Z_eqb (skipn 7 d) [1%Z].

Definition unit_dim_ok (spec : list spec_entry) (u : gunit) : bool :=
  if is_cash u then cash_dim_ok (u_dim u)
  else match spec_get (u_symbol u) spec with
       | Some e => Nat.eqb (List.length (u_dim u)) (List.length base_units)
                   && list_Z_eqb (firstn 7 (u_dim u)) (se_dim e)
                   && all_zero (skipn 7 (u_dim u))
       | None => false          (* fail closed: a unit without a reference entry *)
       end.
Definition dimensions_ok (spec : list spec_entry) (R : registry) : bool := forallb (unit_dim_ok spec) (r_units R).

(* |a - b| <= tol * |b| *)
Definition q_within (tol a b : Q) : bool := Qle_bool (Qabs (a - b)) (tol * Qabs b).

Definition unit_size_ok (spec : list spec_entry) (u : gunit) : bool :=
  if is_cash u then true
  else match spec_get (u_symbol u) spec with
       | Some e => q_within (1 # 100) (u_mult u) (se_size e) && Qle_bool 0 (se_size e) && negb (q_is_zero (se_size e))
       | None => false
       end.
Definition sizes_ok (spec : list spec_entry) (R : registry) : bool := forallb (unit_size_ok spec) (r_units R).

Definition tol12 : Q := 1 # 1000000000000.
Definition unit_offset_ok (spec : list spec_entry) (u : gunit) : bool :=
  if is_cash u then q_is_zero (u_offset u)
  else match spec_get (u_symbol u) spec with
       | Some e => if q_is_zero (se_offset e) then q_is_zero (u_offset u)
                   else q_within tol12 (u_offset u) (se_offset e)
       | None => false
       end.
Definition offsets_ok (spec : list spec_entry) (R : registry) : bool := forallb (unit_offset_ok spec) (r_units R).

(* a definitional ratio: 1 a = rt_factor * (1 b)^rt_pow, spellings resolved by lookup_unit
   (so "cm", "ml", "KiB" go through the prefix loop) *)
Record ratio := { rt_a : string; rt_b : string; rt_pow : Z; rt_factor : Q }.

Definition ratio_holds (R : registry) (tol : Q) (r : ratio) : bool :=
  match lookup_unit_in R (rt_a r), lookup_unit_in R (rt_b r) with
  | LUnit _ _ ma ea, LUnit _ _ mb eb =>
      let rhs := rt_factor r * Qpower mb (rt_pow r) in
      if ea && eb then Qeq_bool ma rhs else q_within tol ma rhs
  | _, _ => false
  end.
Definition ratios_ok (R : registry) (tol : Q) (l : list ratio) : bool := forallb (ratio_holds R tol) l.
(* tolerance form for both kinds (sizes stored rounded) *)
Definition ratio_within (R : registry) (tol : Q) (r : ratio) : bool :=
  match lookup_unit_in R (rt_a r), lookup_unit_in R (rt_b r) with
  | LUnit _ _ ma _, LUnit _ _ mb _ => q_within tol ma (rt_factor r * Qpower mb (rt_pow r))
  | _, _ => false
  end.

(* the dimension of the two sides of a ratio must agree as well *)
Definition dim_of (R : registry) (w : string) : list Z :=
  match lookup_unit_in R w with
  | LUnit i _ _ _ => match nth_error (r_units R) i with Some u => u_dim u | None => [] end
  | _ => []
  end.
Definition ratio_dims_ok (R : registry) (r : ratio) : bool :=
  list_Z_eqb (dim_of R (rt_a r)) (map (Z.mul (rt_pow r)) (dim_of R (rt_b r)))
  && negb (Nat.eqb (List.length (dim_of R (rt_a r))) 0).

(* case sensitivity: ASCII case mapping *)
Definition ascii_upper (c : Ascii.ascii) : Ascii.ascii :=
  let n := Ascii.nat_of_ascii c in
  if (Nat.leb 97 n && Nat.leb n 122)%bool then Ascii.ascii_of_nat (n - 32) else c.
Definition ascii_lower (c : Ascii.ascii) : Ascii.ascii :=
  let n := Ascii.nat_of_ascii c in
  if (Nat.leb 65 n && Nat.leb n 90)%bool then Ascii.ascii_of_nat (n + 32) else c.
Fixpoint map_string (f : Ascii.ascii -> Ascii.ascii) (s : string) : string :=
  match s with EmptyString => EmptyString | String c r => String (f c) (map_string f r) end.
Definition upper := map_string ascii_upper.
Definition lower := map_string ascii_lower.

(* a case variant v of a spelling w never has the reading of w (same unit, same size) unless v
   is itself a registered spelling *)
Definition variant_ok (R : registry) (w v : string) : bool :=
  if String.eqb v w then true
  else negb (same_reading (lookup_unit_in R v) (lookup_unit_in R w)) || registered R v.
Definition unit_case_ok (R : registry) (u : gunit) : bool :=
  forallb (fun sp => variant_ok R (fst sp) (upper (fst sp)) && variant_ok R (fst sp) (lower (fst sp)))
          (spellings u).
Definition case_ok (R : registry) : bool := forallb (unit_case_ok R) (r_units R).

(* representative list: (variant, spelling): the spelling resolves and the variant reads differently *)
Definition distinct_reading (R : registry) (c : string * string) : bool :=
  match lookup_unit_in R (snd c) with
  | LUnit _ _ _ _ => negb (same_reading (lookup_unit_in R (fst c)) (lookup_unit_in R (snd c)))
  | _ => false
  end.

(* ---- text rendering for the kernel lane *)
Definition show_lookup (r : lookup_result) : string :=
  match r with
  | LNone => "N"
  | LInvalidPrefix => "P"
  | LMalformed => "M"
  | LUnit i sb m e =>
      "U:" ++ show_nat i ++ ":" ++ (match sb with Some k => show_nat k | None => "-" end)
      ++ ":" ++ show_Q (Qred m) ++ ":" ++ show_bool e
  end.

(* value of `1 <spelling> to <base units>`: multiple * 1 + offset *)
Definition show_base_value (R : registry) (w : string) : string :=
  match lookup_unit_in R w with
  | LUnit i _ m e =>
      match nth_error (r_units R) i with
      | Some u => "V:" ++ show_Q (Qred (m + u_offset u)) ++ ":" ++ show_bool (e && kind_exact (u_okind u))
      | None => "M"
      end
  | r => show_lookup r
  end.
