(* Session.v — variables, sessions and namespaces (property C14).
   src/ka/eval.py: CONSTANTS, EvalEnvironment (a dict copied from CONSTANTS), the eval modes
   LEAF / VARIABLE / FUNCALL / ASSIGNMENT / STATEMENTS / QUANTITY / ARRAY_WITH_CONDITION;
   src/ka/interpret.py: execute() evaluating one input in the caller's environment;
   src/ka/parse.py: identifier '=' at the start of a statement is an assignment, identifier
   followed by '(' is a call, an identifier after a term is a unit, otherwise a variable.
   Definitions only; proofs are in Proofs/SessionProofs.v.

   Three namespaces, three tables:
     variables  — the session's binding table (the only one evaluation can change);
     functions  — fn_apply, a fixed table keyed by name (names checked against the regenerated
                  registry Gen/GenFunctions.v; a handful of bodies are modelled);
     units      — Model/Units.lookup_unit over the regenerated Gen/GenUnits.v.
   fn_apply and unit_apply take no binding table: that is how the implementation is built
   (dispatch(name, args) and lookup_unit(name) never see the EvalEnvironment), and the
   correspondence runs of the C14 check are what ties this reading to the code. *)
From Ka Require Import Gen.GenFunctions.
From Ka Require Import Model.Units.
From Ka Require Export Model.Num.          (* after Units: its imports bring another [num] into scope *)
From Ka Require Export Gen.GenConstants.

Local Open Scope string_scope.

(* ------------------------------------------------------------------------- *)
(* Values a variable can hold here: numbers, quantities (magnitude in base units and the
   dimension vector), arrays. *)
Inductive value :=
| VNum (n : num)
| VQty (mag : num) (dim : list Z)
| VArr (l : list value).

(* EvalEnvironment._variables: a Python dict — insertion-ordered, assignment to an existing
   key keeps its position. *)
Definition table := list (string * value).

Fixpoint tget (x : string) (t : table) : option value :=
  match t with
  | [] => None
  | (y, v) :: r => if String.eqb x y then Some v else tget x r
  end.

Fixpoint tset (x : string) (v : value) (t : table) : table :=
  match t with
  | [] => [(x, v)]
  | (y, w) :: r => if String.eqb x y then (y, v) :: r else (y, w) :: tset x v r
  end.

(* CONSTANTS, from the regenerated table: kind tag 0 int, 1 Fraction, 2 float (the exact
   rational of the double) *)
Definition const_value (k : nat) (q : Q) : value :=
  match k with
  | O => VNum (NInt (Qnum q))
  | S O => VNum (NFrac q)
  | _ => VNum (NFlt q)
  end.
Definition const_table : table :=
  map (fun c => (fst c, const_value (fst (fst (snd c))) (snd (fst (snd c))))) constants.

(* ------------------------------------------------------------------------- *)
(* The function namespace: dispatch(name, args).  No binding table anywhere. *)
Definition is_function (f : string) : bool :=
  existsb (fun p => String.eqb f (fst p)) GenFunctions.registry.

Definition as_nums (args : list value) : option (list num) :=
  fold_right (fun a acc => match a, acc with VNum n, Some l => Some (n :: l) | _, _ => None end) (Some []) args.

(* Python's max/min on numbers: the first extremal argument is returned *)
Definition pick_max (a b : num) : num := if Qltb (toQ a) (toQ b) then b else a.
Definition pick_min (a b : num) : num := if Qltb (toQ b) (toQ a) then b else a.

Definition lift_v (r : res num) : res value :=
  match r with Ok n => Ok (VNum n) | Raise e => Raise e end.

Definition fn_apply (f : string) (args : list value) : res value :=
  if negb (is_function f) then Raise UnknownFunctionError
  else match as_nums args with
       | None => Raise Unmodelled
       | Some ns =>
           if String.eqb f "sin" then
             match ns with                    (* math.sin(0) = 0.0, simplified to the int 0 *)
             | [n] => if Qis_zero (toQ n) then Ok (VNum (NInt 0)) else Raise Unmodelled
             | _ => Raise Unmodelled
             end
           else if String.eqb f "abs" then
             match ns with [n] => lift_v (n_abs n) | _ => Raise Unmodelled end
           else if String.eqb f "floor" then
             match ns with [n] => lift_v (n_floor n) | _ => Raise Unmodelled end
           else if String.eqb f "max" then
             match ns with n :: r => Ok (VNum (fold_left pick_max r n)) | [] => Raise FunctionArgError end
           else if String.eqb f "min" then
             match ns with n :: r => Ok (VNum (fold_left pick_min r n)) | [] => Raise FunctionArgError end
           else Raise Unmodelled
       end.

(* The unit namespace: make_quantity(magnitude, unit) for a single unit name with exponent 1:
   is_number(magnitude) or EvalError; lookup_unit(name) (None / InvalidPrefixError -> EvalError);
   Quantity(multiple*magnitude + offset, qv).  Units with an offset or a float multiple are
   left unmodelled. *)
Definition unit_apply (u : string) (mag : num) : res value :=
  match lookup_unit u with
  | LUnit i _ mult ex =>
      match nth_error units i with
      | Some g =>
          if q_is_zero (u_offset g) && ex then
            match n_mul (norm mult) mag with
            | Ok m => Ok (VQty m (u_dim g))
            | Raise e => Raise e
            end
          else Raise Unmodelled
      | None => Raise Unmodelled
      end
  | LNone | LInvalidPrefix => Raise EvalError
  | LMalformed => Raise Unmodelled
  end.

Definition make_quantity (v : value) (u : string) : res value :=
  match v with
  | VNum n => unit_apply u n
  | _ => Raise EvalError          (* "Tried to add units on top of existing units." *)
  end.

(* ------------------------------------------------------------------------- *)
(* Expressions and statements. *)
Inductive bop := BAdd | BSub | BMul | BDiv.

Inductive expr :=
| ELit (z : Z)                               (* integer literal *)
| EVar (x : string)                          (* identifier not followed by '(' and not after a term *)
| EBin (o : bop) (a b : expr)
| ECall1 (f : string) (a : expr)             (* f(a) *)
| ECall2 (f : string) (a b : expr)           (* f(a, b) *)
| EQty (a : expr) (u : string)               (* a u  — identifier after a term *)
| EComp (body : expr) (x : string) (lo hi : Z).   (* {body : x in lo..hi} *)

Inductive stmt :=
| Assign (x : string) (e : expr)             (* x = e *)
| Expr (e : expr).

Definition arith (o : bop) (a b : value) : res value :=
  match a, b with
  | VNum x, VNum y =>
      match (match o with BAdd => n_add x y | BSub => n_sub x y | BMul => n_mul x y | BDiv => n_div x y end) with
      | Ok n => Ok (VNum n)
      | Raise e => Raise e
      end
  | _, _ => Raise Unmodelled
  end.

Definition zrange (lo hi : Z) : list Z :=
  map (fun k => (lo + Z.of_nat k)%Z) (seq 0 (Z.to_nat (hi - lo + 1))).

(* eval_comprehension: for each element, set_variable(name, element) in the SHARED
   environment, then evaluate the body; an exception leaves the bindings made so far *)
Fixpoint comp_loop (ev : table -> res value * table) (x : string) (l : list Z) (t : table)
                   (acc : list value) : res value * table :=
  match l with
  | [] => (Ok (VArr (rev acc)), t)
  | i :: r =>
      let '(rb, t2) := ev (tset x (VNum (NInt i)) t) in
      match rb with
      | Ok v => comp_loop ev x r t2 (v :: acc)
      | Raise e => (Raise e, t2)
      end
  end.

(* eval_node: children left to right, then the node; the table is threaded through and is
   returned also when an exception is raised (the mutations already made persist) *)
Fixpoint eval (e : expr) (t : table) : res value * table :=
  match e with
  | ELit z => (Ok (VNum (NInt z)), t)
  | EVar x => (match tget x t with Some v => Ok v | None => Raise EvalError end, t)
  | EBin o a b =>
      let '(ra, t1) := eval a t in
      match ra with
      | Raise x => (Raise x, t1)
      | Ok va =>
          let '(rb, t2) := eval b t1 in
          match rb with
          | Raise x => (Raise x, t2)
          | Ok vb => (arith o va vb, t2)
          end
      end
  | ECall1 f a =>
      let '(ra, t1) := eval a t in
      (match ra with Ok va => fn_apply f [va] | Raise x => Raise x end, t1)
  | ECall2 f a b =>
      let '(ra, t1) := eval a t in
      match ra with
      | Raise x => (Raise x, t1)
      | Ok va =>
          let '(rb, t2) := eval b t1 in
          (match rb with Ok vb => fn_apply f [va; vb] | Raise x => Raise x end, t2)
      end
  | EQty a u =>
      let '(ra, t1) := eval a t in
      (match ra with Ok va => make_quantity va u | Raise x => Raise x end, t1)
  | EComp body x lo hi => comp_loop (eval body) x (zrange lo hi) t []
  end.

(* ASSIGNMENT: env.set_variable(name, value of the child), the value is also the result *)
Definition exec_stmt (s : stmt) (t : table) : res value * table :=
  match s with
  | Assign x e =>
      let '(r, t1) := eval e t in
      match r with
      | Ok v => (Ok v, tset x v t1)
      | Raise ex => (Raise ex, t1)
      end
  | Expr e => eval e t
  end.

(* STATEMENTS: every statement in order, the result is the last one's value (None for no
   statement); the first exception ends the input, with the table as it is then *)
Fixpoint run_from (last : option value) (ss : list stmt) (t : table) : res (option value) * table :=
  match ss with
  | [] => (Ok last, t)
  | s :: r =>
      let '(rv, t1) := exec_stmt s t in
      match rv with
      | Ok v => run_from (Some v) r t1
      | Raise e => (Raise e, t1)
      end
  end.
(* one input s1; s2; ...; sn to execute() *)
Definition run_one (ss : list stmt) (t : table) : res (option value) * table := run_from None ss t.

(* successive inputs to the same environment, up to the first failing one; the outcome is the
   last input's *)
Fixpoint run_many (groups : list (list stmt)) (t : table) : res (option value) * table :=
  match groups with
  | [] => (Ok None, t)
  | g :: gs =>
      let '(r, t1) := run_one g t in
      match r, gs with
      | Raise e, _ => (Raise e, t1)
      | Ok v, [] => (Ok v, t1)
      | Ok _, _ :: _ => run_many gs t1
      end
  end.

(* what execute() makes of an exception: status 1 with a message, or an escape *)
Definition diagnosed (e : exn) : bool :=
  match e with
  | TypeError | ValueError | IndexError | Unmodelled | OutOfFuel => false
  | _ => true
  end.

(* ------------------------------------------------------------------------- *)
(* Sessions. *)
Record store := { consts : table; sessions : nat -> option table }.

Definition upd (i : nat) (v : option table) (f : nat -> option table) : nat -> option table :=
  fun j => if Nat.eqb j i then v else f j.

Definition init_store : store := {| consts := const_table; sessions := fun _ => None |}.

(* EvalEnvironment(): self._variables = CONSTANTS.copy() *)
Definition new_session (i : nat) (st : store) : store :=
  {| consts := consts st; sessions := upd i (Some (consts st)) (sessions st) |}.

(* execute(input, env_i) *)
Definition exec_in (i : nat) (input : list stmt) (st : store) : res (option value) * store :=
  match sessions st i with
  | None => (Raise Unmodelled, st)
  | Some t =>
      let '(r, t') := run_one input t in
      (r, {| consts := consts st; sessions := upd i (Some t') (sessions st) |})
  end.

(* execute(input) with env=None: a fresh environment that is dropped afterwards *)
Definition exec_fresh (input : list stmt) (st : store) : res (option value) * store :=
  (fst (run_one input (consts st)), st).

(* an interleaved history of inputs to several live sessions; every input is executed
   (an error in one input does not stop the calculator) *)
Fixpoint run_hist (h : list (nat * list stmt)) (st : store) : list (res (option value)) * store :=
  match h with
  | [] => ([], st)
  | (i, input) :: r =>
      let '(o, st1) := exec_in i input st in
      let '(os, st2) := run_hist r st1 in (o :: os, st2)
  end.

(* ------------------------------------------------------------------------- *)
(* which names an expression/statement can write (assignment targets, comprehension variables) *)
Fixpoint expr_writes (x : string) (e : expr) : bool :=
  match e with
  | ELit _ | EVar _ => false
  | EBin _ a b | ECall2 _ a b => expr_writes x a || expr_writes x b
  | ECall1 _ a | EQty a _ => expr_writes x a
  | EComp body y _ _ => String.eqb x y || expr_writes x body
  end.
Definition stmt_writes (x : string) (s : stmt) : bool :=
  match s with
  | Assign y e => String.eqb x y || expr_writes x e
  | Expr e => expr_writes x e
  end.

(* ------------------------------------------------------------------------- *)
(* Specification vocabulary: a history of writes and the most recent write to a name. *)
Definition apply_writes (ws : list (string * value)) (t : table) : table :=
  fold_left (fun acc w => tset (fst w) (snd w) acc) ws t.
Fixpoint last_write (x : string) (ws : list (string * value)) : option value :=
  match ws with
  | [] => None
  | (y, v) :: r =>
      match last_write x r with
      | Some w => Some w
      | None => if String.eqb x y then Some v else None
      end
  end.

(* ------------------------------------------------------------------------- *)
(* Kernel lane rendering (same text as common.enc_value for the exact kinds). *)
Fixpoint show_value (v : value) : string :=
  match v with
  | VNum n => show_num n
  | VQty m d => "Q:" ++ show_num m ++ "|" ++ String.concat "," (map show_Z d)
  | VArr l => "A:[" ++ String.concat ";" (map show_value l) ++ "]"
  end.
Definition show_table (t : table) : string :=
  String.concat "&" (map (fun b => fst b ++ "=" ++ show_value (snd b)) t).
Definition show_outcome (r : res (option value)) : string :=
  match r with
  | Ok None => "N"
  | Ok (Some v) => show_value v
  | Raise e => "E:" ++ show_exn e
  end.
Definition show_opt_table (o : option table) : string :=
  match o with Some t => show_table t | None => "-" end.

(* two live sessions 0 and 1 created from the constants, then the history; the outcomes of the
   inputs, the two final binding tables and the constants table *)
Definition vm_hist (h : list (nat * list stmt)) : string :=
  let '(os, st) := run_hist h (new_session 1 (new_session 0 init_store)) in
  String.concat "~" (map show_outcome os) ++ "#" ++ show_opt_table (sessions st 0%nat)
  ++ "#" ++ show_opt_table (sessions st 1%nat) ++ "#" ++ show_table (consts st).
