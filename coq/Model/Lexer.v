(* Lexer.v — Ka's lexer (src/ka/tokens.py) as an executable Gallina model.
   Definitions only; proofs are in Proofs/LexerProofs.v, table facts in
   GenFacts/TokenTableFacts.v, statements in Properties/C11.v.

   TEXT.  A Python str is modelled as a list of Unicode code points ([text = list N]);
   token spans are code-point indices exactly as in Python.  The generated table
   (Gen/GenTokens.v) holds Coq byte strings (UTF-8): [utf8_of_string] decodes them to code
   points, so "±" is the single character 177.

   EXTERNAL CHARACTER CLASSES.  str.isspace / str.isalpha / str.isnumeric are Unicode
   database lookups of CPython; they are Section variables here.  The proofs use exactly
   the facts collected in [class_ok] (Proofs/LexerProofs.v); the harness checks those facts
   on every code point of CPython's database and instantiates the three functions with
   tables computed by Python for the characters occurring in its cases.

   WHAT IS MODELLED (function by function, in the code's branch order):
     tokenise / skip_whitespace  -> [toks] (fuel = 1 + length, see [tokenise]), [takew]/[dropw]
     read_token                  -> [read_token]  (string, instant, number start test,
                                    constant-token scan in table order with the
                                    alphabetic-keyword boundary test, identifier regex)
     read_string / read_instant  -> [str_end] / [inst_end]
     read_num_token              -> [read_num]: BASED_INT_REGEX then NUM_REGEX with Python's
                                    leftmost / ordered-alternation / greedy semantics made
                                    explicit, the "1.." rule, and the literal values.
   The regex pattern strings this automaton implements are pinned in
   GenFacts/TokenTableFacts.v against the regenerated ones.

   NUMBERS.  [lit]: LInt (Python int), LFrac (a fractions.Fraction: always reduced, the
   denominator may be 1 — simplification to int happens at parse time, not here), LFlt q
   (a Python float, IDEALISED: q is the exact rational of the decimal spelling; the
   implementation's float is within relative 1e-15 of it in the normal range — tolerance
   comparison only, never claimed exact).

   Based literals: every digit is checked against the base before int() is called
   (tokens.py: any(int(c, 16) >= base ...)), so "0b0b1" is a BadNumberError although CPython's
   int("0b1", 2) would accept the inner prefix: [horner] rejects any digit >= base.
   Decimal literals: the whole spelling, exponent included, is converted by one float() call
   (one correctly rounded step) and an infinite result is a BadNumberError: the model is the
   exact rational of the spelling, and BadNumberError exactly when that rounds to infinity
   ([flt_overflow]).  Both are repairs made after this check reported "0b0b1" = 1,
   15.0e308 = inf, 0.0001e310 rejected and 123456789012345678901234.5e-323 off by 1.2%. *)
From Ka Require Export Model.Prelude.
From Coq Require Import NArith Ascii.
From Ka Require Import Gen.GenTokens.

Local Open Scope nat_scope.

Definition text := list N.

(* ---------------------------------------------------------------- UTF-8 decoding *)
Definition bytes_of_string (s : string) : list N := map N_of_ascii (list_ascii_of_string s).

Fixpoint utf8_decode (l : list N) : text :=
  match l with
  | [] => []
  | b0 :: t =>
      if (b0 <? 128)%N then b0 :: utf8_decode t
      else if (b0 <? 224)%N then
        match t with
        | b1 :: t1 => ((b0 - 192) * 64 + (b1 - 128))%N :: utf8_decode t1
        | [] => [b0]
        end
      else if (b0 <? 240)%N then
        match t with
        | b1 :: b2 :: t2 => ((b0 - 224) * 4096 + (b1 - 128) * 64 + (b2 - 128))%N :: utf8_decode t2
        | _ => [b0]
        end
      else
        match t with
        | b1 :: b2 :: b3 :: t3 =>
            ((b0 - 240) * 262144 + (b1 - 128) * 4096 + (b2 - 128) * 64 + (b3 - 128))%N :: utf8_decode t3
        | _ => [b0]
        end
  end.

Definition utf8_of_string (s : string) : text := utf8_decode (bytes_of_string s).

(* ---------------------------------------------------------------- characters *)
Definition ch_quote : N := 34.    (* double quote *)
Definition ch_hash : N := 35.     (* # *)
Definition ch_plus : N := 43.
Definition ch_minus : N := 45.
Definition ch_dot : N := 46.
Definition ch_bslash : N := 92.
Definition ch_e : N := 101.

Definition is_digit (c : N) : bool := ((48 <=? c) && (c <=? 57))%N.
Definition is_lower (c : N) : bool := ((97 <=? c) && (c <=? 122))%N.
Definition is_upper (c : N) : bool := ((65 <=? c) && (c <=? 90))%N.
Definition is_letter (c : N) : bool := is_lower c || is_upper c.
(* the non-ASCII-letter identifier characters: μ (U+03BC) € $ £ ¥ *)
Definition is_currency (c : N) : bool :=
  ((c =? 956) || (c =? 8364) || (c =? 36) || (c =? 163) || (c =? 165))%N.
(* VAR_REGEX  [a-zA-Zμ€$£¥][_a-zA-Z0-9μ€$£¥]*  *)
Definition ident_start (c : N) : bool := is_letter c || is_currency c.
Definition ident_char (c : N) : bool := (c =? 95)%N || is_letter c || is_digit c || is_currency c.
(* [0-9a-fA-F] *)
Definition is_hex (c : N) : bool :=
  is_digit c || ((97 <=? c) && (c <=? 102))%N || ((65 <=? c) && (c <=? 70))%N.
(* (x|o|b|d) *)
Definition is_base_char (c : N) : bool := ((c =? 120) || (c =? 111) || (c =? 98) || (c =? 100))%N.
Definition base_of (c : N) : Z :=
  if (c =? 98)%N then 2%Z else if (c =? 111)%N then 8%Z else if (c =? 120)%N then 16%Z else 10%Z.
Definition hex_val (c : N) : Z :=
  if is_digit c then Z.of_N (c - 48)
  else if ((97 <=? c) && (c <=? 102))%N then Z.of_N (c - 87)
  else Z.of_N (c - 55).

Fixpoint text_eqb (a b : text) : bool :=
  match a, b with
  | [], [] => true
  | x :: a', y :: b' => (x =? y)%N && text_eqb a' b'
  | _, _ => false
  end.
Definition mem (t : text) (l : list text) : bool := existsb (text_eqb t) l.

Fixpoint takew (p : N -> bool) (r : text) : text :=
  match r with
  | c :: t => if p c then c :: takew p t else []
  | [] => []
  end.
Fixpoint dropw (p : N -> bool) (r : text) : text :=
  match r with
  | c :: t => if p c then dropw p t else r
  | [] => []
  end.

(* s.startswith(t, i) on the suffix *)
Fixpoint starts_with (t r : text) : bool :=
  match t, r with
  | [], _ => true
  | x :: t', y :: r' => (x =? y)%N && starts_with t' r'
  | _ :: _, [] => false
  end.

(* ---------------------------------------------------------------- literal values *)
Inductive lit := LInt (z : Z) | LFrac (q : Q) | LFlt (q : Q).

(* int(digits, base): left-to-right accumulation; a digit >= base is a ValueError *)
Fixpoint horner (base : Z) (ds : text) (acc : Z) : option Z :=
  match ds with
  | [] => Some acc
  | c :: t => let v := hex_val c in
              if (v <? base)%Z then horner base t (acc * base + v)%Z else None
  end.
(* int(decimal digits) *)
Definition dec_val (ds : text) : Z :=
  fold_left (fun acc c => (acc * 10 + Z.of_N (c - 48))%Z) ds 0%Z.

(* values at or above this round to float infinity (2^1024 - 2^970, ties to even) *)
Definition flt_overflow : Q := inject_Z (2 ^ 1024 - 2 ^ 970)%Z.
Definition mk_flt (q : Q) : option lit :=
  if Qle_bool flt_overflow q then None else Some (LFlt (Qred q)).

(* ---------------------------------------------------------------- read_num_token *)
Inductive nres := NOk (n : nat) (v : lit) | NBad.

(* BASED_INT_REGEX  0(x|o|b|d)([0-9a-fA-F]+)  matches iff these three characters match;
   group 2 is then the maximal hex run. *)
Definition based_window (r : text) : bool :=
  match r with
  | c0 :: c1 :: c2 :: _ => (c0 =? 48)%N && is_base_char c1 && is_hex c2
  | _ => false
  end.

(* (e[\-+]?[0-9]+)? : Some (negative sign?, exponent digits, characters consumed).
   With a sign but no digit after it the group backtracks to "no sign", where [0-9]+ fails
   on the sign itself: no exponent. *)
Definition exp_match (r : text) : option (bool * text * nat) :=
  match r with
  | c :: r1 =>
      if (c =? ch_e)%N then
        match r1 with
        | s :: r2 =>
            if (s =? ch_minus)%N then
              match takew is_digit r2 with [] => None | ds => Some (true, ds, 2 + List.length ds) end
            else if (s =? ch_plus)%N then
              match takew is_digit r2 with [] => None | ds => Some (false, ds, 2 + List.length ds) end
            else
              match takew is_digit r1 with [] => None | ds => Some (false, ds, 1 + List.length ds) end
        | [] => None
        end
      else None
  | [] => None
  end.

Definition nres_of (n : nat) (o : option lit) : nres :=
  match o with Some v => NOk n v | None => NBad end.

Definition is_nil (t : text) : bool := match t with [] => true | _ :: _ => false end.
Definition starts_dot (r : text) : bool := match r with c :: _ => (c =? ch_dot)%N | [] => false end.

(* based literal: group 1 = the base character, group 2 = the maximal hex run *)
Definition read_based (r : text) : nres :=
  match r with
  | _ :: bc :: t =>
      let hs := takew is_hex t in
      nres_of (2 + List.length hs) (option_map LInt (horner (base_of bc) hs 0%Z))
  | _ => NBad
  end.

(* the value of a matched NUM_REGEX spelling: integer digits d1, "." present?, fraction
   digits d2, exponent (negative sign?, digits) *)
Definition mantissa (d1 d2 : text) : Q :=
  (dec_val (d1 ++ d2)%list # Z.to_pos (10 ^ Z.of_nat (List.length d2)))%Q.

Definition num_value (d1 : text) (dot : bool) (d2 : text) (ex : option (bool * text)) : option lit :=
  match ex with
  | None => if dot then mk_flt (mantissa d1 d2) else Some (LInt (dec_val d1))
  | Some (neg, es) =>
      let e := dec_val es in
      if dot then
        (* float(whole spelling): one correctly rounded conversion *)
        if neg then mk_flt (mantissa d1 d2 / inject_Z (10 ^ e))%Q
        else mk_flt (mantissa d1 d2 * inject_Z (10 ^ e))%Q
      else
        (* int * Fraction(1, 10**-exponent) when exponent < 0, else int * 10**exponent *)
        if neg && (0 <? e)%Z
        then Some (LFrac (Qred (dec_val d1 # Z.to_pos (10 ^ e))%Q))
        else Some (LInt (dec_val d1 * 10 ^ e)%Z)
  end.

(* NUM_REGEX.  Group 1 is alternative A  [0-9]+\.?[0-9]*  when the first character is a
   digit, otherwise alternative B  [0-9]*\.?[0-9]+  (which then needs ".<digit>"); all
   quantifiers are greedy and what follows is optional, so no backtracking into them occurs. *)
Definition read_dec (r : text) : nres :=
  let d1 := takew is_digit r in
  let r1 := dropw is_digit r in
  let dot := starts_dot r1 in
  let r2 := if dot then tl r1 else r1 in
  let d2 := takew is_digit r2 in
  let r3 := dropw is_digit r2 in
  if is_nil d1 && is_nil d2 then NBad                   (* NUM_REGEX does not match *)
  else
    let nm := List.length d1 + (if dot then 1 else 0) + List.length d2 in
    match exp_match r3 with
    | None =>
        (* the "1.." rule: the match ends in '.' and another '.' follows: give the dot back *)
        if dot && is_nil d2 && starts_dot r3 then NOk (List.length d1) (LInt (dec_val d1))
        else nres_of nm (num_value d1 dot d2 None)
    | Some (neg, es, k) => nres_of (nm + k) (num_value d1 dot d2 (Some (neg, es)))
    end.

Definition read_num (r : text) : nres :=
  if based_window r then read_based r else read_dec r.

(* ---------------------------------------------------------------- strings, instants *)
(* [str_end r]: r is the text after the opening quote; the relative index of the closing
   quote (backslash-quote pairs are skipped), None when the string is unclosed. *)
Fixpoint str_end (r : text) : option nat :=
  match r with
  | [] => None
  | c :: t =>
      if (c =? ch_bslash)%N then
        match t with
        | c2 :: t2 => if (c2 =? ch_quote)%N then option_map (fun k => S (S k)) (str_end t2)
                      else option_map S (str_end t)
        | [] => None
        end
      else if (c =? ch_quote)%N then Some 0
      else option_map S (str_end t)
  end.

Fixpoint inst_end (r : text) : option nat :=
  match r with
  | [] => None
  | c :: t => if (c =? ch_hash)%N then Some 0 else option_map S (inst_end t)
  end.

(* ---------------------------------------------------------------- tokens *)
Inductive tag := TNum | TStr | TInst | TVar | TConst (t : text).
Inductive tval := VNone | VLit (l : lit) | VText (t : text).
Record token := mkTok { t_tag : tag; t_begin : nat; t_end : nat; t_val : tval }.

Inductive lexerr :=
| UnknownTokenError | BadNumberError | UnclosedStringError | UnclosedInstantError | LexOutOfFuel.
Inductive lres (A : Type) := LOk (a : A) | LErr (e : lexerr) (i : nat).
Arguments LOk {A} a.
Arguments LErr {A} e i.

(* result of read_token on the suffix that starts at the token: tag, length, value *)
Inductive rtok := RTok (tg : tag) (n : nat) (v : tval) | RNone | RErr (e : lexerr).

Section Lexer.
  Variables isspace isalpha isnumeric : N -> bool.
  Variables ctoks atoks : list text.      (* CONST_TOKENS in table order; ALPHA_TOKENS *)

  Definition next_not_alpha (r : text) : bool :=
    match r with [] => true | c :: _ => negb (isalpha c) end.

  (* s.startswith(t, i) and (t not in ALPHA_TOKENS or i+len(t) >= len(s) or not s[i+len(t)].isalpha()) *)
  Definition entry_hit (t r : text) : bool :=
    starts_with t r && (negb (mem t atoks) || next_not_alpha (skipn (List.length t) r)).

  Fixpoint scan (tbl : list text) (r : text) : option text :=
    match tbl with
    | [] => None
    | t :: tl => if entry_hit t r then Some t else scan tl r
    end.

  Definition num_start (r : text) : bool :=
    match r with
    | c :: t => isnumeric c || ((c =? ch_dot)%N && match t with c1 :: _ => isnumeric c1 | [] => false end)
    | [] => false
    end.

  Definition read_token (r : text) : rtok :=
    match r with
    | [] => RNone
    | c :: t =>
        if (c =? ch_quote)%N then
          match str_end t with
          | Some k => RTok TStr (k + 2) (VText (firstn k t))
          | None => RErr UnclosedStringError
          end
        else if (c =? ch_hash)%N then
          match inst_end t with
          | Some k => RTok TInst (k + 2) (VText (firstn k t))
          | None => RErr UnclosedInstantError
          end
        else if num_start r then
          match read_num r with
          | NOk n v => RTok TNum n (VLit v)
          | NBad => RErr BadNumberError
          end
        else
          match scan ctoks r with
          | Some tk => RTok (TConst tk) (List.length tk) VNone
          | None =>
              if ident_start c
              then let cs := takew ident_char t in RTok TVar (S (List.length cs)) (VText (c :: cs))
              else RNone
          end
    end.

  (* tokenise on the suffix [r] that begins at absolute index [off] *)
  Fixpoint toks (fuel : nat) (off : nat) (r : text) : lres (list token) :=
    match fuel with
    | O => LErr LexOutOfFuel off
    | S f =>
        let w := takew isspace r in
        let r1 := dropw isspace r in
        let i := (off + List.length w)%nat in
        match r1 with
        | [] => LOk []
        | _ :: _ =>
            match read_token r1 with
            | RErr e => LErr e i
            | RNone => LErr UnknownTokenError i
            | RTok tg n v =>
                match toks f (i + n)%nat (skipn n r1) with
                | LOk ts => LOk (mkTok tg i (i + n)%nat v :: ts)
                | LErr e j => LErr e j
                end
            end
        end
    end.

  Definition tokenise (s : text) : lres (list token) := toks (S (List.length s)) 0 s.

  (* The characters the lexer gives a meaning to: delimiters, the dot, the signs, identifier
     characters (letters, digits, _, currency signs) and every character of a constant token. *)
  Definition sig_char (c : N) : bool :=
    (c =? ch_quote)%N || (c =? ch_hash)%N || (c =? ch_dot)%N || (c =? ch_plus)%N || (c =? ch_minus)%N
    || ident_char c
    || existsb (existsb (N.eqb c)) ctoks.

  (* Everything the proofs assume about str.isspace / isalpha / isnumeric, per character:
     whitespace is not significant, not alphabetic, not numeric; ASCII letters are alphabetic
     and every alphabetic significant character is an identifier character (the letters
     and μ); identifier-start characters are not numeric; ASCII digits are numeric; '.' is not. *)
  Definition class_ok_b (c : N) : bool :=
    implb (isspace c) (negb (sig_char c) && negb (isalpha c) && negb (isnumeric c))
    && implb (is_letter c) (isalpha c)
    && implb (ident_start c) (negb (isnumeric c))
    && implb (sig_char c && isalpha c) (ident_char c)
    && implb (is_digit c) (isnumeric c)
    && implb (c =? ch_dot)%N (negb (isnumeric c)).
End Lexer.

(* ---------------------------------------------------------------- decidable table conditions
   (established for the regenerated table in GenFacts/TokenTableFacts.v, hypotheses of the
   general lemmas in Proofs/LexerProofs.v) *)
Definition all_nonempty (tbl : list text) : bool :=
  forallb (fun t => match t with [] => false | _ :: _ => true end) tbl.
(* ALPHA_TOKENS = the members of CONST_TOKENS made of ASCII letters only *)
Definition alpha_consistent (ctoks atoks : list text) : bool :=
  forallb (fun t => Bool.eqb (mem t atoks) (forallb is_letter t)) ctoks.
Definition proper_prefix (a b : text) : bool :=
  starts_with a b && (List.length a <? List.length b).
(* "if token A is a prefix of token B, then it comes after B": for every A listed before B,
   A is not a proper prefix of B — unless A is an alphabetic token and B continues with a
   letter, in which case the keyword-boundary test rejects A wherever B matches. *)
Fixpoint order_ok (atoks tbl : list text) : bool :=
  match tbl with
  | [] => true
  | a :: tl =>
      forallb (fun b => negb (proper_prefix a b)
                        || (mem a atoks && is_letter (nth (List.length a) b 0%N))) tl
      && order_ok atoks tl
  end.
(* the pairs (A, B), A listed before B, A a proper prefix of B: the literal reading of the
   comment in tokens.py asks for none *)
Fixpoint order_exceptions (tbl : list text) : list (text * text) :=
  match tbl with
  | [] => []
  | a :: tl => map (fun b => (a, b)) (filter (proper_prefix a) tl) ++ order_exceptions tl
  end.

(* ---------------------------------------------------------------- the regenerated tables *)
Definition gen_ctoks : list text := map utf8_of_string const_tokens.
Definition gen_atoks : list text := map utf8_of_string alpha_tokens.

Definition ka_tokenise (isspace isalpha isnumeric : N -> bool) : text -> lres (list token) :=
  tokenise isspace isalpha isnumeric gen_ctoks gen_atoks.
Definition ka_read_token (isalpha isnumeric : N -> bool) : text -> rtok :=
  read_token isalpha isnumeric gen_ctoks gen_atoks.

(* the hypothesis of the C11 theorems on the three external character classes *)
Definition classes_ok (isspace isalpha isnumeric : N -> bool) : Prop :=
  forall c, class_ok_b isspace isalpha isnumeric gen_ctoks c = true.

(* ---------------------------------------------------------------- rendering (kernel lane) *)
Open Scope string_scope.
Definition show_lit (l : lit) : string :=
  match l with
  | LInt z => "I:" ++ show_Z z
  | LFrac q => "F:" ++ show_Q q
  | LFlt q => "X:" ++ show_Q q
  end.
Definition show_text (t : text) : string := String.concat "." (map show_N t).
Fixpoint index_of (t : text) (l : list text) (k : nat) : nat :=
  match l with
  | [] => k
  | x :: l' => if text_eqb t x then k else index_of t l' (S k)
  end.
Definition show_tag (tg : tag) : string :=
  match tg with
  | TNum => "N" | TStr => "S" | TInst => "H" | TVar => "V"
  | TConst t => "C" ++ show_nat (index_of t gen_ctoks 0)
  end.
Definition show_tval (v : tval) : string :=
  match v with VNone => "-" | VLit l => show_lit l | VText t => "T:" ++ show_text t end.
Definition show_token (t : token) : string :=
  show_tag (t_tag t) ++ "," ++ show_nat (t_begin t) ++ "," ++ show_nat (t_end t) ++ "," ++ show_tval (t_val t).
Definition show_lexerr (e : lexerr) : string :=
  match e with
  | UnknownTokenError => "UnknownTokenError" | BadNumberError => "BadNumberError"
  | UnclosedStringError => "UnclosedStringError" | UnclosedInstantError => "UnclosedInstantError"
  | LexOutOfFuel => "OutOfFuel"
  end.
Definition show_lres (r : lres (list token)) : string :=
  match r with
  | LOk ts => "K " ++ String.concat " " (map show_token ts)
  | LErr e i => "E " ++ show_lexerr e ++ " " ++ show_nat i
  end.

(* compact form for the harness (long outputs are slow to print): E<U|B|S|H|F> index *)
Definition show_lres_short (r : lres (list token)) : string :=
  match r with
  | LOk ts => "K " ++ String.concat " " (map show_token ts)
  | LErr e i => "E " ++ match e with
                        | UnknownTokenError => "U" | BadNumberError => "B"
                        | UnclosedStringError => "S" | UnclosedInstantError => "H"
                        | LexOutOfFuel => "F"
                        end ++ " " ++ show_nat i
  end.

(* class tables supplied by the harness: membership in an explicit list of code points *)
Definition in_table (l : list N) (c : N) : bool := existsb (N.eqb c) l.

(* a concrete triple of character classes (Latin-1 whitespace; letters, μ, é alphabetic;
   digits and ² numeric), used as a witness that [classes_ok] is satisfiable and to run the
   examples of Properties/C11.v *)
Definition w_space : N -> bool := in_table [9; 10; 11; 12; 13; 28; 29; 30; 31; 32; 133; 160]%N.
Definition w_alpha (c : N) : bool := is_letter c || (c =? 956)%N || (c =? 233)%N.
Definition w_numeric (c : N) : bool := is_digit c || (c =? 178)%N.
Definition ex_lex (s : string) : string :=
  show_lres (ka_tokenise w_space w_alpha w_numeric (utf8_of_string s)).

(* bijective base-k numeration of all strings over an alphabet (exhaustive slices):
   0 -> "", 1..k -> the one-letter strings, ... *)
Fixpoint nth_string (fuel : nat) (alphabet : list N) (k : N) (n : N) : text :=
  match fuel with
  | O => []
  | S f => if (n =? 0)%N then []
           else let m := (n - 1)%N in
                nth (N.to_nat (m mod k)) alphabet 0%N :: nth_string f alphabet k (m / k)%N
  end.
