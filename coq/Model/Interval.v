(* Interval.v — Ka's interval arithmetic as functions.py:723-875 computes it (with
   types.py:302-325 Interval and parse.py:260-266 parse_interval).  Definitions only;
   proofs are in Proofs/IntervalProofs.v, registry facts in GenFacts/IntervalFacts.v.

   Numbers are exact rationals Q: Ka's int/Fraction arithmetic is exact (C01), floats are
   idealised as the rational they denote.  sqrt, log and non-integer powers are irrational;
   they enter through the Section variables sqrtK / logK / powK (the scalar functions
   math.sqrt, math.log(x, base), x ** y of the implementation), about which the proofs
   assume monotonicity only.

   Which operand orders exist is decided by the registry: [resolve] states, per function
   name and kind tuple, which registered body dispatch() selects, and
   GenFacts/IntervalFacts.v re-proves on every run that the regenerated registry
   (Gen/GenFunctions.v) selects exactly that body — in particular
   make_num_with_interval_op is defined but never registered, so  2 - [1,2]  and
   2 / [1,2]  are NoMatchingFunctionSignatureError, and ">" / ">=" run the swap closures. *)
From Ka Require Export Model.Prelude.
From Coq Require Export Qpower Qabs Qreduction.
Open Scope Q_scope.

(* ------------------------------------------------------------------ numbers *)
Definition qleb (a b : Q) : bool := Qle_bool a b.
Definition qltb (a b : Q) : bool := negb (Qle_bool b a).
Definition qeqb (a b : Q) : bool := Qeq_bool a b.
Definition b2q (b : bool) : Q := if b then 1 else 0.
(* Python's min(x, y) / max(x, y): the first of the smallest / largest *)
Definition qmin (a b : Q) : Q := if qltb b a then b else a.
Definition qmax (a b : Q) : Q := if qltb a b then b else a.
Definition qmin3 (a b c : Q) : Q := qmin (qmin a b) c.
Definition qmax3 (a b c : Q) : Q := qmax (qmax a b) c.
(* is_true(v): v != 0 *)
Definition truthy (q : Q) : bool := negb (qeqb q 0).

(* math.e as the float it is (Gen/GenConstants.v "e"; tied in IntervalFacts.v) *)
Definition e_float : Q := 6121026514868073 # 2251799813685248.

(* is_fractional(x) = not (int(x) == x) *)
Definition is_fractional (e : Q) : bool := negb (Qden (Qred e) =? 1)%positive.
(* the integer an integral rational denotes *)
Definition int_of (e : Q) : Z := Qnum (Qred e).

(* ------------------------------------------------------------------ values *)
Record ival := mkI { lo : Q; hi : Q }.
Inductive val := VN (q : Q) | VI (i : ival).
Inductive kind := KN | KI.
Definition kind_of (v : val) : kind := match v with VN _ => KN | VI _ => KI end.

Definition wf (I : ival) : Prop := lo I <= hi I.
Definition inI (p : Q) (I : ival) : Prop := lo I <= p /\ p <= hi I.
Definition wfv (v : val) : Prop := match v with VN _ => True | VI iv => wf iv end.

(* function names of the registry that take part in C07 *)
Inductive fname :=
| FAdd | FSub | FMul | FDiv | FMod | FPow
| FLt | FLe | FEq | FNe | FGt | FGe
| FSqrt | FLn | FLog10 | FLog2 | FAbs | FLog
| FMax | FMin | FSize | FIn | FInterval | FContains | FLower | FUpper | FPm | FTol.

Open Scope string_scope.
Definition fname_str (f : fname) : string :=
  match f with
  | FAdd => "+" | FSub => "-" | FMul => "*" | FDiv => "/" | FMod => "%" | FPow => "^"
  | FLt => "<" | FLe => "<=" | FEq => "==" | FNe => "!=" | FGt => ">" | FGe => ">="
  | FSqrt => "sqrt" | FLn => "ln" | FLog10 => "log10" | FLog2 => "log2" | FAbs => "abs"
  | FLog => "log" | FMax => "max" | FMin => "min" | FSize => "size" | FIn => "in"
  | FInterval => "interval" | FContains => "contains" | FLower => "lower"
  | FUpper => "upper" | FPm => "±" | FTol => "tol"
  end.
Close Scope string_scope.

Definition all_fnames : list fname :=
  [FAdd; FSub; FMul; FDiv; FMod; FPow; FLt; FLe; FEq; FNe; FGt; FGe;
   FSqrt; FLn; FLog10; FLog2; FAbs; FLog; FMax; FMin; FSize; FIn; FInterval;
   FContains; FLower; FUpper; FPm; FTol].

(* the registered bodies dispatch() can select for these names *)
Inductive body :=
| BNum (f : fname)        (* a number-only registration of f (scalar semantics) *)
| BIvNum (f : fname)      (* make_interval_with_num_op(f)            on (Interval, Number) *)
| BIvNumRev (f : fname)   (* reverse_f of it (register_commutative_op) on (Number, Interval) *)
| BPos | BFlip | BPow
| BCmpIN (f : fname) | BCmpNI (f : fname) | BCmpII (f : fname)      (* f = "<" or "<=" *)
| BSwapNI (f : fname)     (* swap(num_interval[f])      registered for the reverse name on (Interval, Number) *)
| BSwapIN (f : fname)     (* swap(interval_num[f])      registered for the reverse name on (Number, Interval) *)
| BSwapII (f : fname)     (* swap(interval_interval[f]) registered for the reverse name on (Interval, Interval) *)
| BEq | BNeq | BAnyEq | BAnyNeq
| BSqrt | BLn | BLog10 | BLog2 | BAbs | BLog
| BMax | BMaxRev | BMin | BMinRev | BSize | BIn | BMakeInterval | BContains
| BLower | BUpper | BPlusMinus.

Definition all_KN (ks : list kind) : bool :=
  forallb (fun k => match k with KN => true | KI => false end) ks.

(* number-only registrations: arity 2, arity 1, or vararg *)
Definition num_arity_ok (f : fname) (n : nat) : bool :=
  match f with
  | FAdd | FSub => Nat.eqb n 1 || Nat.eqb n 2
  | FMul | FDiv | FMod | FPow | FLt | FLe | FEq | FNe | FGt | FGe | FLog
  | FInterval | FPm | FTol => Nat.eqb n 2
  | FSqrt | FLn | FLog10 | FLog2 | FAbs => Nat.eqb n 1
  | FMax | FMin => true                      (* vararg Number *)
  | FSize | FIn | FContains | FLower | FUpper => false
  end.

(* lookup_function + get_closest_match on kind tuples over {Number, Interval} *)
Definition resolve (f : fname) (ks : list kind) : option body :=
  if all_KN ks then
    (if num_arity_ok f (List.length ks) then
       Some (match f with FInterval => BMakeInterval | FPm | FTol => BPlusMinus | _ => BNum f end)
     else None)
  else
  match f, ks with
  | FAdd, [KI; KN] | FMul, [KI; KN] | FSub, [KI; KN] | FDiv, [KI; KN] => Some (BIvNum f)
  | FAdd, [KN; KI] | FMul, [KN; KI] => Some (BIvNumRev f)
  | FAdd, [KI] => Some BPos
  | FSub, [KI] => Some BFlip
  | FPow, [KI; KN] => Some BPow
  | FLt, [KI; KN] | FLe, [KI; KN] => Some (BCmpIN f)
  | FLt, [KN; KI] | FLe, [KN; KI] => Some (BCmpNI f)
  | FLt, [KI; KI] | FLe, [KI; KI] => Some (BCmpII f)
  | FGt, [KI; KN] => Some (BSwapNI FLt) | FGe, [KI; KN] => Some (BSwapNI FLe)
  | FGt, [KN; KI] => Some (BSwapIN FLt) | FGe, [KN; KI] => Some (BSwapIN FLe)
  | FGt, [KI; KI] => Some (BSwapII FLt) | FGe, [KI; KI] => Some (BSwapII FLe)
  | FEq, [KI; KI] => Some BEq
  | FNe, [KI; KI] => Some BNeq
  | FEq, [KI; KN] | FEq, [KN; KI] => Some BAnyEq      (* the (Any, Any) catch-all *)
  | FNe, [KI; KN] | FNe, [KN; KI] => Some BAnyNeq
  | FSqrt, [KI] => Some BSqrt
  | FLn, [KI] => Some BLn
  | FLog10, [KI] => Some BLog10
  | FLog2, [KI] => Some BLog2
  | FAbs, [KI] => Some BAbs
  | FLog, [KI; KN] => Some BLog
  | FMax, [KI; KN] => Some BMax
  | FMax, [KN; KI] => Some BMaxRev
  | FMin, [KI; KN] => Some BMin
  | FMin, [KN; KI] => Some BMinRev
  | FSize, [KI] => Some BSize
  | FIn, [KN; KI] => Some BIn
  | FContains, [KI; KN] => Some BContains
  | FLower, [KI] => Some BLower
  | FUpper, [KI] => Some BUpper
  | _, _ => None
  end.

(* the g_impl text translate.py records for each body (BNum: not claimed) *)
Open Scope string_scope.
Definition cmp_closure (which : string) (f : fname) : string :=
  "ka.functions.register_interval_cmp.<locals>." ++ which ++ "[name='" ++ fname_str f ++ "']".
Definition swap_closure (which : string) (f : fname) : string :=
  "ka.functions.register_interval_cmp.<locals>.swap.<locals>.swapped_f[f=" ++ cmp_closure which f ++ "]".
Definition ivnum_closure (f : fname) : string :=
  "ka.functions.make_interval_with_num_op.<locals>.op[opname='" ++ fname_str f ++ "']".
Definition reverse_closure (inner : string) : string :=
  "ka.functions.register_commutative_op.<locals>.reverse_f[f=" ++ inner ++ "]".

Definition body_impl (b : body) : option string :=
  match b with
  | BNum _ => None
  | BIvNum f => Some (ivnum_closure f)
  | BIvNumRev f => Some (reverse_closure (ivnum_closure f))
  | BPos => Some "ka.functions.<lambda>{register_function(lambda x: x, ""+"", (Interval,))}"
  | BFlip => Some "ka.functions.interval_flip"
  | BPow => Some "ka.functions.interval_to_power"
  | BCmpIN f => Some (cmp_closure "interval_num" f)
  | BCmpNI f => Some (cmp_closure "num_interval" f)
  | BCmpII f => Some (cmp_closure "interval_interval" f)
  | BSwapNI f => Some (swap_closure "num_interval" f)
  | BSwapIN f => Some (swap_closure "interval_num" f)
  | BSwapII f => Some (swap_closure "interval_interval" f)
  | BEq => Some "ka.functions.interval_eq"
  | BNeq => Some "ka.functions.interval_neq"
  | BAnyEq => Some "ka.functions.<lambda>{register_function(lambda x, y: 0, ""=="", (Any, Any))}"
  | BAnyNeq => Some "ka.functions.<lambda>{register_function(lambda x, y: 1, ""!="", (Any, Any))}"
  | BSqrt => Some "ka.functions.interval_sqrt"
  | BLn => Some "ka.functions.interval_ln"
  | BLog10 => Some "ka.functions.interval_log10"
  | BLog2 => Some "ka.functions.interval_log2"
  | BAbs => Some "ka.functions.interval_abs"
  | BLog => Some "ka.functions.interval_log"
  | BMax => Some "ka.functions.interval_max"
  | BMaxRev => Some (reverse_closure "ka.functions.interval_max")
  | BMin => Some "ka.functions.interval_min"
  | BMinRev => Some (reverse_closure "ka.functions.interval_min")
  | BSize => Some "ka.functions.interval_size"
  | BIn => Some "ka.functions.in_interval"
  | BMakeInterval => Some "ka.functions.make_interval"
  | BContains => Some "ka.functions.interval_contains"
  | BLower => Some "ka.types.interval_get_lower"
  | BUpper => Some "ka.types.interval_get_upper"
  | BPlusMinus => Some "ka.functions.interval_plusminus"
  end.
Close Scope string_scope.

(* ------------------------------------------------------------------ the bodies *)
Section Irrational.
Variable sqrtK : Q -> Q.          (* math.sqrt x          for 0 <= x *)
Variable logK : Q -> Q -> Q.      (* math.log(x, base) = logK base x, for 0 < x, 0 < base <> 1 *)
Variable powK : Q -> Q -> Q.      (* x ** r = powK x r    for 0 <= x and non-integer r *)

(* --- scalar operations, as dispatch() on numbers performs them *)
Definition s_div (x y : Q) : res Q :=
  if qeqb y 0 then Raise ZeroDivisionError else Ok (x / y).

(* strict_pow, then Python's ** *)
Definition s_pow (x e : Q) : res Q :=
  if is_fractional e then
    if qltb x 0 then Raise KaRuntimeError
    else if qeqb x 0 && qltb e 0 then Raise ZeroDivisionError
    else Ok (powK x e)
  else
    if qeqb x 0 && (int_of e <? 0)%Z then Raise ZeroDivisionError
    else Ok (x ^ int_of e).

Definition s_sqrt (x : Q) : res Q :=
  if qltb x 0 then Raise KaRuntimeError else Ok (sqrtK x).

(* ka_log(x, base) *)
Definition s_log (x base : Q) : res Q :=
  if qleb x 0 then Raise KaRuntimeError
  else if qleb base 0 || qeqb base 1 then Raise KaRuntimeError
  else Ok (logK base x).

(* the four operators make_interval_with_num_op is instantiated with *)
Definition s_arith (f : fname) (x y : Q) : res Q :=
  match f with
  | FAdd => Ok (x + y) | FSub => Ok (x - y) | FMul => Ok (x * y) | FDiv => s_div x y
  | _ => Raise Unmodelled
  end.

Definition cmpq (f : fname) (x y : Q) : Q :=
  match f with
  | FLt => b2q (qltb x y) | FLe => b2q (qleb x y)
  | FGt => b2q (qltb y x) | FGe => b2q (qleb y x)
  | FEq => b2q (qeqb x y) | FNe => b2q (negb (qeqb x y))
  | _ => 0
  end.

Definition num_fold (g : Q -> Q -> Q) (l : list Q) : res val :=
  match l with
  | [] => Raise FunctionArgError
  | x :: r => Ok (VN (fold_left g r x))
  end.

(* --- interval bodies *)
(* make_interval_from_bounds *)
Definition from_bounds (x y : Q) : ival := mkI (qmin x y) (qmax x y).

(* make_interval: a > b collapses to [0, 0] *)
Definition make_interval (a b : Q) : ival := if qleb a b then mkI a b else mkI 0 0.

(* make_interval_with_num_op(f)(intr, n) *)
Definition iv_num_op (f : fname) (I : ival) (n : Q) : res val :=
  do a <- s_arith f (lo I) n;
  do b <- s_arith f (hi I) n;
  Ok (VI (from_bounds a b)).

Definition contains_q (I : ival) (x : Q) : Q := b2q (qleb (lo I) x) * b2q (qleb x (hi I)).
Definition has_negative (I : ival) : bool := qltb (lo I) 0.

Definition iv_pow (I : ival) (e : Q) : res val :=
  if has_negative I && is_fractional e then Raise KaRuntimeError
  else if truthy (contains_q I 0) then
    if qltb e 0 then Raise KaRuntimeError
    else
      do pa <- s_pow (lo I) e;
      do pb <- s_pow (hi I) e;
      do p0 <- s_pow 0 e;
      Ok (VI (mkI (qmin3 pa pb p0) (qmax3 pa pb p0)))
  else
    do pa <- s_pow (lo I) e;
    do pb <- s_pow (hi I) e;
    Ok (VI (mkI (qmin pa pb) (qmax pa pb))).

Definition iv_flip (I : ival) : ival := mkI (- hi I) (- lo I).

Definition iv_sqrt (I : ival) : res val :=
  if has_negative I then Raise KaRuntimeError
  else
    do a <- s_sqrt (lo I);
    do b <- s_sqrt (hi I);
    Ok (VI (mkI a b)).

Definition iv_log (I : ival) (base : Q) : res val :=
  if qleb base 0 then Raise KaRuntimeError
  else if qleb (lo I) 0 then Raise KaRuntimeError
  else
    do a <- s_log (lo I) base;
    do b <- s_log (hi I) base;
    Ok (VI (from_bounds a b)).

Definition iv_abs (I : ival) : ival :=
  let va := Qabs (lo I) in
  let vb := Qabs (hi I) in
  mkI (if truthy (contains_q I 0) then 0 else qmin va vb) (qmax va vb).

Definition iv_min (I : ival) (x : Q) : ival :=
  if qleb (hi I) x then I
  else if qleb x (lo I) then mkI x x
  else mkI (lo I) x.

Definition iv_max (I : ival) (x : Q) : ival :=
  if qleb (hi I) x then mkI x x
  else if qleb x (lo I) then I
  else mkI x (hi I).

Definition iv_size (I : ival) : Q := Qabs (hi I - lo I).

Definition iv_plusminus (x y : Q) : ival := from_bounds (x - y) (x + y).

Definition iv_eq (I J : ival) : Q := b2q (qeqb (lo I) (lo J)) * b2q (qeqb (hi I) (hi J)).

(* --- number-only registrations (what the point operations  op(p, x)  are) *)
Definition run_num (f : fname) (xs : list Q) : res val :=
  match f, xs with
  | FAdd, [x; y] => Ok (VN (x + y))
  | FSub, [x; y] => Ok (VN (x - y))
  | FMul, [x; y] => Ok (VN (x * y))
  | FDiv, [x; y] => do q <- s_div x y; Ok (VN q)
  | FPow, [x; y] => do q <- s_pow x y; Ok (VN q)
  | FLt, [x; y] | FLe, [x; y] | FEq, [x; y] | FNe, [x; y] | FGt, [x; y] | FGe, [x; y] =>
      Ok (VN (cmpq f x y))
  | FLog, [x; b] => do q <- s_log x b; Ok (VN q)
  | FAdd, [x] => Ok (VN x)
  | FSub, [x] => Ok (VN (- x))
  | FSqrt, [x] => do q <- s_sqrt x; Ok (VN q)
  | FLn, [x] => do q <- s_log x e_float; Ok (VN q)
  | FLog10, [x] => do q <- s_log x 10; Ok (VN q)
  | FLog2, [x] => do q <- s_log x 2; Ok (VN q)
  | FAbs, [x] => Ok (VN (Qabs x))
  | FMax, _ => num_fold qmax xs
  | FMin, _ => num_fold qmin xs
  | _, _ => Raise Unmodelled             (* "%" and shapes resolve never produces *)
  end.

Definition numbers (vs : list val) : list Q :=
  flat_map (fun v => match v with VN q => [q] | VI _ => [] end) vs.

Definition run_body (b : body) (args : list val) : res val :=
  match b, args with
  | BNum f, _ => run_num f (numbers args)
  | BIvNum f, [VI iv; VN n] => iv_num_op f iv n
  | BIvNumRev f, [VN n; VI iv] => iv_num_op f iv n
  | BPos, [VI iv] => Ok (VI iv)
  | BFlip, [VI iv] => Ok (VI (iv_flip iv))
  | BPow, [VI iv; VN e] => iv_pow iv e
  (* interval_num(intr, x) = name(intr.b, x); num_interval(x, intr) = name(x, intr.a);
     interval_interval(I1, I2) = name(I1.b, I2.a) *)
  | BCmpIN f, [VI iv; VN x] => Ok (VN (cmpq f (hi iv) x))
  | BCmpNI f, [VN x; VI iv] => Ok (VN (cmpq f x (lo iv)))
  | BCmpII f, [VI I1; VI I2] => Ok (VN (cmpq f (hi I1) (lo I2)))
  (* swapped_f(y, x) = f(x, y) *)
  | BSwapNI f, [VI iv; VN x] => Ok (VN (cmpq f x (lo iv)))
  | BSwapIN f, [VN x; VI iv] => Ok (VN (cmpq f (hi iv) x))
  | BSwapII f, [VI I1; VI I2] => Ok (VN (cmpq f (hi I2) (lo I1)))
  | BEq, [VI iv; VI J] => Ok (VN (iv_eq iv J))
  | BNeq, [VI iv; VI J] => Ok (VN (1 - iv_eq iv J))
  | BAnyEq, [_; _] => Ok (VN 0)
  | BAnyNeq, [_; _] => Ok (VN 1)
  | BSqrt, [VI iv] => iv_sqrt iv
  | BLn, [VI iv] => iv_log iv e_float
  | BLog10, [VI iv] => iv_log iv 10
  | BLog2, [VI iv] => iv_log iv 2
  | BAbs, [VI iv] => Ok (VI (iv_abs iv))
  | BLog, [VI iv; VN base] => iv_log iv base
  | BMax, [VI iv; VN x] | BMaxRev, [VN x; VI iv] => Ok (VI (iv_max iv x))
  | BMin, [VI iv; VN x] | BMinRev, [VN x; VI iv] => Ok (VI (iv_min iv x))
  | BSize, [VI iv] => Ok (VN (iv_size iv))
  | BIn, [VN x; VI iv] => Ok (VN (contains_q iv x))
  | BMakeInterval, [VN a; VN b] => Ok (VI (make_interval a b))
  | BContains, [VI iv; VN x] => Ok (VN (contains_q iv x))
  | BLower, [VI iv] => Ok (VN (lo iv))
  | BUpper, [VI iv] => Ok (VN (hi iv))
  | BPlusMinus, [VN x; VN y] => Ok (VI (iv_plusminus x y))
  | _, _ => Raise Unmodelled             (* shapes resolve never produces *)
  end.

(* dispatch(name, args) for number and interval arguments *)
Definition ka_apply (f : fname) (args : list val) : res val :=
  match resolve f (map kind_of args) with
  | Some b => run_body b args
  | None => Raise NoMatchingFunctionSignatureError
  end.

(* ------------------------------------------------------------------ expressions *)
(* Ka text over numbers, interval literals and the functions above; eval_node evaluates
   the children left to right and then dispatches.  `[a, b]` is  E2 FInterval a b. *)
Inductive iexpr :=
| ENum (q : Q)
| E1 (f : fname) (a : iexpr)
| E2 (f : fname) (a b : iexpr).

Fixpoint eval (e : iexpr) : res val :=
  match e with
  | ENum q => Ok (VN q)
  | E1 f a => do va <- eval a; ka_apply f [va]
  | E2 f a b => do va <- eval a; do vb <- eval b; ka_apply f [va; vb]
  end.

End Irrational.

(* parse.py:50-67 make_comparison_node: a lone backward comparison is flipped, so the text
   `a > b` evaluates  "<"(b, a)  and never reaches the ">" registrations (those are reached
   by dispatch(">", …) only). *)
Definition surface_cmp (f : fname) (a b : iexpr) : iexpr :=
  match f with
  | FGt => E2 FLt b a
  | FGe => E2 FLe b a
  | _ => E2 f a b
  end.

(* the relation a comparison name denotes on numbers *)
Definition cmp_rel (f : fname) (x y : Q) : Prop :=
  match f with
  | FLt => x < y | FLe => x <= y | FGt => y < x | FGe => y <= x
  | _ => False
  end.
Definition cmp_names : list fname := [FLt; FLe; FGt; FGe].

(* monotonicity of the scalar irrational functions: the only facts assumed about them *)
Definition sqrt_monotone (sqrtK : Q -> Q) : Prop :=
  forall x y, 0 <= x -> x <= y -> sqrtK x <= sqrtK y.
Definition log_monotone (logK : Q -> Q -> Q) : Prop :=
  (forall b x y, 1 < b -> 0 < x -> x <= y -> logK b x <= logK b y) /\
  (forall b x y, 0 < b -> b < 1 -> 0 < x -> x <= y -> logK b y <= logK b x).
Definition pow_monotone (powK : Q -> Q -> Q) : Prop :=
  (forall r x y, 0 < r -> 0 <= x -> x <= y -> powK x r <= powK y r) /\
  (forall r x y, r < 0 -> 0 < x -> x <= y -> powK y r <= powK x r).

(* ------------------------------------------------------------------ rendering *)
Open Scope string_scope.
Definition show_val (v : val) : string :=
  match v with
  | VN q => "N:" ++ show_Q (Qred q)
  | VI iv => "V:" ++ show_Q (Qred (lo iv)) ++ ";" ++ show_Q (Qred (hi iv))
  end.

(* table-driven stand-ins for the scalar irrational functions in kernel-lane runs: the
   harness supplies the values the implementation's own scalar functions returned *)
Fixpoint tab1 (t : list (Q * Q)) (x : Q) : Q :=
  match t with
  | [] => 0
  | (k, v) :: r => if Qeq_bool k x then v else tab1 r x
  end.
Fixpoint tab2 (t : list (Q * Q * Q)) (x y : Q) : Q :=
  match t with
  | [] => 0
  | (k1, k2, v) :: r => if Qeq_bool k1 x && Qeq_bool k2 y then v else tab2 r x y
  end.
Definition eval_tab (ts : list (Q * Q)) (tl tp : list (Q * Q * Q)) (e : iexpr) : string :=
  show_res show_val (eval (tab1 ts) (tab2 tl) (tab2 tp) e).
