(* Sampling.v — the eight sample() bodies of src/ka/probability.py, sample_multiple,
   rand and seed (src/ka/functions.py "Randomness"/"Probability" registrations), as
   functions of the uniform draws they consume.  Definitions only; proofs are in
   Proofs/SamplingProofs.v.

   The laws, their constructor guards (make_rv, valid_params) and the cdf/pmf that
   P() evaluates are those of Model/Prob.v: the inverse-transform theorems of C18
   are stated against the very cdf functions that C08 proves P() to compute.

   Arithmetic is exact over Q.  A draw u is the exact rational value of the double
   random.random() returned.  Results of the continuous samplers are floats in the
   implementation; here they are the ideal values (tagged NFlt: tolerance
   comparisons only).  math.log, utils.erfinv, math.sqrt(2), math.exp(-mu) and the
   Mersenne Twister itself are external: they enter as variables of the section
   below (and as explicit arguments once the section is closed). *)
From Ka Require Export Model.Prob.

Open Scope Q_scope.

(* ------------------------------------------------------------------------- *)
(* The uniform source: Python's global generator seen as the sequence of doubles it
   is going to return and the number already consumed.  unit() = random.random(). *)
Record rstate := { src : nat -> Q; pos : nat }.

Definition unit_draw (s : rstate) : Q * rstate :=
  (src s (pos s), {| src := src s; pos := S (pos s) |}).

Fixpoint draws (n : nat) (s : rstate) : list Q * rstate :=
  match n with
  | O => ([], s)
  | S k => let '(u, s1) := unit_draw s in
           let '(r, s2) := draws k s1 in (u :: r, s2)
  end.

(* The contract of random.random(): every value lies in [0, 1). *)
Definition unit_interval (u : Q) : Prop := 0 <= u /\ u < 1.
Definition good_src (f : nat -> Q) : Prop := forall i, unit_interval (f i).

(* ------------------------------------------------------------------------- *)
(* The samplers as functions of the draw(s). *)

(* Bernoulli.sample: 1 if unit() < self.p else 0 *)
Definition bernoulli_u (p u : Q) : Z := if Qltb u p then 1%Z else 0%Z.

(* UniformInt.sample: math.floor(self.lo + unit()*(self.hi-self.lo+1)).  Over Q the
   integer lo can be taken out of the floor; in the implementation the sum is a
   double, which is NOT exact once |lo| or the width exceed 2^53 (genuine defect
   reported by the C18 check: the model is the exact, i.e. repaired, arithmetic). *)
Definition uniformint_u (lo hi : Z) (u : Q) : Z :=
  Qfloor (inject_Z lo + u * inject_Z (hi - lo + 1)).

(* Uniform.sample: self.lo + unit()*(self.hi - self.lo) *)
Definition uniform_u (lo hi u : Q) : Q := lo + u * (hi - lo).

(* Binomial.sample: n Bernoulli trials `unit() < p`, counted *)
Fixpoint binomial_us (p : Q) (us : list Q) : Z :=
  match us with
  | [] => 0%Z
  | u :: r => (bernoulli_u p u + binomial_us p r)%Z
  end.

(* Poisson.sample: u = unit(); k = 0; p = 0; loop { p += pmf(k); if p > u: break; k += 1 }.
   Generic over the pmf; the `while True` is an explicit-fuel loop.  The accumulator is
   reduced at each step (identity up to ==) to keep VM evaluation small. *)
Fixpoint poisson_loop (pmf : nat -> Q) (u : Q) (fuel k : nat) (p : Q) : res nat :=
  match fuel with
  | O => Raise OutOfFuel
  | S f => let p' := Qred (p + pmf k) in
           if Qltb u p' then Ok k else poisson_loop pmf u f (S k) p'
  end.
Definition poisson_gen (pmf : nat -> Q) (fuel : nat) (u : Q) : res nat :=
  poisson_loop pmf u fuel 0 0.

(* the cumulative sums the loop compares u with *)
Fixpoint psum (pmf : nat -> Q) (k : nat) : Q :=            (* Σ_{j<=k} pmf j *)
  match k with O => pmf O | S j => psum pmf j + pmf (S j) end.
Definition pbefore (pmf : nat -> Q) (k : nat) : Q :=       (* Σ_{j<k} pmf j *)
  match k with O => 0 | S j => psum pmf j end.

Section External.
(* math.log, utils.erfinv, math.sqrt(2), mu |-> math.exp(-mu), the loop bound *)
Variables (logK erfinvK : Q -> Q) (sqrt2 : Q) (expnegK : Q -> Q) (fuel : nat).

(* Exponential.sample: -math.log(1-unit())/self.lam *)
Definition exponential_u (lam u : Q) : Q := - logK (1 - u) / lam.

(* Geometric.sample (as repaired in 65d67d6):
     if self.p == 1: return 1
     return max(1, math.ceil(math.log(1-unit())/math.log(1-self.p)))
   The p == 1 branch is taken before any draw.  math.log(1-p) is 0.0 when p = 0 (and, in
   doubles, when p < 2^-53): ZeroDivisionError. *)
Definition geometric_u (p u : Q) : res Z :=
  let d := logK (1 - p) in
  if Qis_zero d then Raise ZeroDivisionError
  else Ok (Z.max 1 (Qceiling (logK (1 - u) / d))).

(* Gaussian.sample: self.stddev*math.sqrt(2)*erfinv(2*unit()-1) + self.mu.
   erfinv(-1) = -inf (u = 0): simplify_number(-inf) raises OverflowError in dispatch. *)
Definition gaussian_u (mu sd u : Q) : res Q :=
  if Qis_zero u then Raise OverflowError
  else Ok (sd * sqrt2 * erfinvK (2 * u - 1) + mu).

Definition poisson_pmf_nat (mu : Q) (k : nat) : Q := poisson_pmf mu (expnegK mu) (Z.of_nat k).

Definition lift_res {A B} (f : A -> B) (r : res A) : res B :=
  match r with Ok a => Ok (f a) | Raise e => Raise e end.

(* rv.sample() on a constructed variable: the value (or exception) and the generator
   state afterwards — the draws made before an exception stay consumed. *)
Definition sample (X : law) (s : rstate) : res num * rstate :=
  match X with
  | Bernoulli p => let '(u, s1) := unit_draw s in (Ok (NInt (bernoulli_u p u)), s1)
  | UniformInt lo hi => let '(u, s1) := unit_draw s in (Ok (NInt (uniformint_u lo hi u)), s1)
  | Uniform lo hi => let '(u, s1) := unit_draw s in (Ok (NFlt (uniform_u lo hi u)), s1)
  | Binomial n p => let '(us, s1) := draws (Z.to_nat n) s in (Ok (NInt (binomial_us p us)), s1)
  | Poisson mu =>
      let '(u, s1) := unit_draw s in
      (lift_res (fun k => NInt (Z.of_nat k)) (poisson_gen (poisson_pmf_nat mu) fuel u), s1)
  | Exponential lam => let '(u, s1) := unit_draw s in (Ok (NFlt (exponential_u lam u)), s1)
  | Geometric p =>
      if Qeqb p 1 then (Ok (NInt 1), s)
      else let '(u, s1) := unit_draw s in (lift_res NInt (geometric_u p u), s1)
  | Gaussian mu sd => let '(u, s1) := unit_draw s in (lift_res NFlt (gaussian_u mu sd u), s1)
  end.

(* sample_multiple: Array([rv.sample() for _ in range(n)]); range(n) is empty for n <= 0 *)
Fixpoint sample_n (X : law) (n : nat) (s : rstate) : res (list num) * rstate :=
  match n with
  | O => (Ok [], s)
  | S k =>
      match sample X s with
      | (Ok v, s1) =>
          match sample_n X k s1 with
          | (Ok l, s2) => (Ok (v :: l), s2)
          | (Raise e, s2) => (Raise e, s2)
          end
      | (Raise e, s1) => (Raise e, s1)
      end
  end.
Definition sample_multiple (X : law) (n : Z) (s : rstate) : res (list num) * rstate :=
  sample_n X (Z.to_nat n) s.

(* ------------------------------------------------------------------------- *)
(* Calculator-level operations on the shared generator. *)
Variable init : Z -> nat -> Q.        (* random.seed(k): the sequence that follows *)

Inductive op :=
| ORand                               (* rand() *)
| OSample (X : law)                   (* sample(X(args)) *)
| OSampleN (X : law) (n : Z)          (* sample(X(args), n) *)
| OSeed (k : Z).                      (* seed(k) *)

Inductive outv := VNone | VNum (v : num) | VArr (l : list num) | VErr (e : exn).

Definition run_op (o : op) (s : rstate) : outv * rstate :=
  match o with
  | ORand => let '(u, s1) := unit_draw s in (VNum (NFlt u), s1)
  | OSample X =>
      match make_rv X with
      | Raise e => (VErr e, s)
      | Ok X' => match sample X' s with
                 | (Ok v, s1) => (VNum v, s1)
                 | (Raise e, s1) => (VErr e, s1)
                 end
      end
  | OSampleN X n =>
      match make_rv X with
      | Raise e => (VErr e, s)
      | Ok X' => match sample_multiple X' n s with
                 | (Ok l, s1) => (VArr l, s1)
                 | (Raise e, s1) => (VErr e, s1)
                 end
      end
  | OSeed k => (VNone, {| src := init k; pos := O |})
  end.

Fixpoint run_ops (ops : list op) (s : rstate) : list outv * rstate :=
  match ops with
  | [] => ([], s)
  | o :: r => let '(v, s1) := run_op o s in
              let '(vs, s2) := run_ops r s1 in (v :: vs, s2)
  end.

End External.

(* ------------------------------------------------------------------------- *)
(* The support each law promises (probability.py docstrings / property C18). *)
Definition in_support (X : law) (v : num) : Prop :=
  match X with
  | Bernoulli _ => v = NInt 0 \/ v = NInt 1
  | UniformInt lo hi => exists z, v = NInt z /\ (lo <= z <= hi)%Z
  | Uniform lo hi => exists q, v = NFlt q /\ lo <= q /\ q <= hi /\ (lo < hi -> q < hi)
  | Binomial n _ => exists z, v = NInt z /\ (0 <= z <= n)%Z
  | Poisson _ => exists z, v = NInt z /\ (0 <= z)%Z
  | Exponential _ => exists q, v = NFlt q /\ 0 <= q
  | Geometric _ => exists z, v = NInt z /\ (1 <= z)%Z
  | Gaussian _ _ => exists q, v = NFlt q
  end.

Definition out_ok (o : op) (v : outv) : Prop :=
  match o, v with
  | ORand, VNum (NFlt u) => unit_interval u
  | OSample X, VNum x => in_support X x
  | OSampleN X n, VArr l => List.length l = Z.to_nat (Z.max n 0) /\ Forall (in_support X) l
  | OSeed _, VNone => True
  | (OSample _ | OSampleN _ _), VErr _ => True      (* a raised exception delivers no sample *)
  | _, _ => False
  end.

(* ------------------------------------------------------------------------- *)
(* Kernel lane: a finite list of prescribed draws as the source, rendering. *)
Definition src_of (l : list Q) : nat -> Q := fun i => nth i l 0.
Definition start (l : list Q) : rstate := {| src := src_of l; pos := O |}.

Local Open Scope string_scope.
Definition show_outv (v : outv) : string :=
  match v with
  | VNone => "N"
  | VNum x => show_num x
  | VArr l => "A:[" ++ String.concat ";" (map show_num l) ++ "]"
  | VErr e => "E:" ++ show_exn e
  end.

(* externals of a kernel-lane run: log/erfinv are not available — log is the constant 1 so that
   the Geometric/Exponential samplers consume their draw without raising (their values are
   not compared), erfinv and sqrt 2 are 0; exp(-mu) comes from a table of the doubles the
   implementation computed; seeds are not used (the feeder prescribes the draws).
   Output: per operation "<value>@<draws consumed so far>". *)
Definition vm_expneg (tbl : list (Q * Q)) : Q -> Q := lookupQ tbl.
Fixpoint vm_trace (tbl : list (Q * Q)) (fuel : nat) (ops : list op) (s : rstate) : list string :=
  match ops with
  | [] => []
  | o :: r =>
      let '(v, s1) := run_op (fun _ => 1) (fun _ => 0) 0 (vm_expneg tbl) fuel (fun _ _ => 0) o s in
      (show_outv v ++ "@" ++ show_nat (pos s1)) :: vm_trace tbl fuel r s1
  end.
Definition vm_run (tbl : list (Q * Q)) (fuel : nat) (ops : list op) (l : list Q) : string :=
  String.concat "|" (vm_trace tbl fuel ops (start l)).
