(* Currency.v — the currency table of Ka: text format (currency.py: scrape_and_store_rates_to =
   the export writer, parse_currency_data), base-currency selection (units.py:227-243),
   registration of the currency units with their clash rules (units.py:361-410), and
   conversion `x A to B` (eval.py make_quantity / convert_quantity) over exact rationals.
   Definitions only.

   Python exceptions are class names (strings), so that which handler catches what can be
   decided against the regenerated except lists (Model/Config.v).

   REPAIRED BEHAVIOUR modelled here (see the C19/C20 reports):
   R1  parse_currency_data rejects (returns None for) a table with a rate that is not > 0
       — the code as it stands lets `0` through and units.py divides by it at import;
   R2  the registration loop skips a currency whose final symbol / name / plural is already
       taken instead of running into register_unit's assertions. *)
From Ka Require Export Model.Prelude.
From Ka Require Export Gen.GenCurrency.
From Ka Require Gen.GenUnits.
From Coq Require Import Ascii.
Local Open Scope string_scope.

(* ------------------------------------------------------------------ Python outcomes *)
Definition pyexn := string.
Inductive pres (A : Type) := POk (a : A) | PRaise (e : pyexn).
Arguments POk {A} a.
Arguments PRaise {A} e.
Definition pbind {A B} (r : pres A) (f : A -> pres B) : pres B :=
  match r with POk a => f a | PRaise e => PRaise e end.

Definition mem (s : string) (l : list string) : bool := existsb (String.eqb s) l.
Fixpoint assoc {A} (k : string) (l : list (string * A)) : option A :=
  match l with
  | [] => None
  | (k', v) :: r => if String.eqb k k' then Some v else assoc k r
  end.

Fixpoint nodupb (l : list string) : bool :=
  match l with [] => true | x :: r => negb (mem x r) && nodupb r end.

(* ------------------------------------------------------------------ text primitives *)
Definition ch_nl : ascii := ascii_of_nat 10.
Definition ch_cr : ascii := ascii_of_nat 13.
Definition ch_comma : ascii := ascii_of_nat 44.
Definition ch_eq : ascii := ascii_of_nat 61.
Definition ch_nul : ascii := ascii_of_nat 0.

(* str.isspace() on the ASCII range: \t \n \v \f \r, FS GS RS US, space *)
Definition is_space (c : ascii) : bool :=
  let n := N_of_ascii c in
  ((9 <=? n)%N && (n <=? 13)%N) || ((28 <=? n)%N && (n <=? 32)%N).

Fixpoint lstrip (s : string) : string :=
  match s with
  | EmptyString => EmptyString
  | String c r => if is_space c then lstrip r else s
  end.
Fixpoint rstrip (s : string) : string :=
  match s with
  | EmptyString => EmptyString
  | String c r =>
      match rstrip r with
      | EmptyString => if is_space c then EmptyString else String c EmptyString
      | r' => String c r'
      end
  end.
(* str.strip() *)
Definition strip (s : string) : string := rstrip (lstrip s).
Definition is_blank (s : string) : bool :=
  match strip s with EmptyString => true | _ => false end.

(* s.split(sep) for a one-character separator: always at least one piece *)
Fixpoint split_on (sep : ascii) (s : string) : list string :=
  match s with
  | EmptyString => [EmptyString]
  | String c r =>
      if Ascii.eqb c sep then EmptyString :: split_on sep r
      else match split_on sep r with
           | h :: t => String c h :: t
           | [] => [String c EmptyString]
           end
  end.
(* s.split(sep, 1): None when the separator does not occur (one piece) *)
Fixpoint split1 (sep : ascii) (s : string) : option (string * string) :=
  match s with
  | EmptyString => None
  | String c r =>
      if Ascii.eqb c sep then Some (EmptyString, r)
      else match split1 sep r with
           | Some (a, b) => Some (String c a, b)
           | None => None
           end
  end.
Fixpoint contains (ch : ascii) (s : string) : bool :=
  match s with
  | EmptyString => false
  | String c r => Ascii.eqb c ch || contains ch r
  end.
Fixpoint count_char (ch : ascii) (s : string) : nat :=
  match s with
  | EmptyString => O
  | String c r => ((if Ascii.eqb c ch then 1 else 0) + count_char ch r)%nat
  end.

(* text mode with newline=None: "\r\n" and "\r" are read as "\n" *)
Fixpoint universal_newlines (s : string) : string :=
  match s with
  | EmptyString => EmptyString
  | String c r =>
      if Ascii.eqb c ch_cr then
        match r with
        | String c2 r2 => if Ascii.eqb c2 ch_nl then String ch_nl (universal_newlines r2)
                          else String ch_nl (universal_newlines r)
        | EmptyString => String ch_nl EmptyString
        end
      else String c (universal_newlines r)
  end.

(* f.readlines(): lines keep their terminator; no empty last line *)
Fixpoint readlines (s : string) : list string :=
  match s with
  | EmptyString => []
  | String c r =>
      if Ascii.eqb c ch_nl then String c EmptyString :: readlines r
      else match readlines r with
           | h :: t => String c h :: t
           | [] => [String c EmptyString]
           end
  end.

(* ------------------------------------------------------------------ the table and its text *)
(* symbol, name, dollar rate — the shape of Gen.GenCurrency.currency_data *)
Definition cur := (string * string * Q)%type.
Definition c_sym (c : cur) : string := fst (fst c).
Definition c_name (c : cur) : string := snd (fst c).
Definition c_rate (c : cur) : Q := snd c.

(* float(text): None = ValueError.  Python's float grammar and rounding are external; the
   harness supplies the function as a table text -> exact value of the float (finite values
   only: 'nan'/'inf' texts are outside the modelled class). *)
Definition pyfloat_t := string -> option Q.

Inductive parsed := PTable (t : list cur) | PNone | PValueError.

(* parse_currency_data's loop over the non-blank lines, in order: a line with fewer than three
   fields returns None at once; float() failing raises ValueError at once. *)
Fixpoint parse_rows (pf : pyfloat_t) (ls : list string) : parsed :=
  match ls with
  | [] => PTable []
  | l :: rest =>
      if is_blank l then parse_rows pf rest
      else match split_on ch_comma l with
           | f0 :: f1 :: f2 :: _ =>
               match pf f2 with
               | None => PValueError
               | Some q =>
                   if Qle_bool q 0 then PNone                      (* R1 *)
                   else match parse_rows pf rest with
                        | PTable t => PTable ((f0, f1, q) :: t)
                        | o => o
                        end
               end
           | _ => PNone
           end
  end.
Definition parse_currency_data (pf : pyfloat_t) (s : string) : parsed :=
  parse_rows pf (split_on ch_nl s).

(* scrape_and_store_rates_to: ",".join([symbol, name, str(rate)]) + "\n" per currency.
   [repr] stands for str() of a float. *)
Definition export_line (repr : Q -> string) (c : cur) : string :=
  c_sym c ++ "," ++ c_name c ++ "," ++ repr (c_rate c) ++ String ch_nl EmptyString.
Definition export_text (repr : Q -> string) (t : list cur) : string :=
  fold_right (fun c acc => export_line repr c ++ acc) EmptyString t.

(* ------------------------------------------------------------------ base currency *)
Definition has_currency (sym : string) (t : list cur) : bool :=
  existsb (fun c => String.eqb (c_sym c) sym) t.
(* units.py:229-236 *)
Definition select_base (configured : string) (t : list cur) : option string :=
  if has_currency configured t then Some configured
  else if has_currency default_base_currency t then Some default_base_currency
  else None.

(* ------------------------------------------------------------------ registration *)
Record cunit := { cu_sym : string; cu_name : string; cu_plural : string; cu_mult : Q; cu_row : cur }.
(* NAME_TO_UNIT keys, SYMBOL_TO_UNIT keys, and the cash units registered so far (in order) *)
Record regstate := { rs_names : list string; rs_syms : list string; rs_cash : list cunit }.

(* register_unit with its three assertions (units.py:207-214) *)
Definition register_unit (st : regstate) (sym name : string) (mult : Q) (row : cur) : pres regstate :=
  let plural := name ++ "s" in
  if mem name (rs_names st) then PRaise "AssertionError"
  else if mem sym (rs_syms st) then PRaise "AssertionError"
  else if mem plural (name :: rs_names st) then PRaise "AssertionError"
  else POk {| rs_names := plural :: name :: rs_names st;
              rs_syms := sym :: rs_syms st;
              rs_cash := rs_cash st ++ [{| cu_sym := sym; cu_name := name; cu_plural := plural;
                                            cu_mult := mult; cu_row := row |}] |}.

Definition taken (st : regstate) (sym name : string) : bool :=
  mem sym (rs_syms st) || mem name (rs_names st) || mem (name ++ "s") (name :: rs_names st).

(* `cname`: the currency's name reduced to an identifier — NFKD-normalised, ASCII letters and
   digits only (units.py:399).  unicodedata is external: the reduction is a parameter of the
   model; on ASCII names it is [ascii_alnum_only], for other names the harness (and
   GenFacts/ConfigFacts.v for the built-in table) supply Python's answer as a table. *)
Definition namenorm_t := string -> string.
Definition is_ascii_alnum (c : ascii) : bool :=
  let n := N_of_ascii c in
  ((48 <=? n)%N && (n <=? 57)%N) || ((65 <=? n)%N && (n <=? 90)%N) || ((97 <=? n)%N && (n <=? 122)%N).
Fixpoint ascii_alnum_only (s : string) : string :=
  match s with
  | EmptyString => EmptyString
  | String c r => if is_ascii_alnum c then String c (ascii_alnum_only r) else ascii_alnum_only r
  end.
Definition name_norm (tbl : list (string * string)) : namenorm_t :=
  fun s => match assoc s tbl with Some r => r | None => ascii_alnum_only s end.

(* one iteration of the loop units.py:394-417 *)
Definition register_currency (nn : namenorm_t) (base_rate : Q) (st : regstate) (c : cur) : pres regstate :=
  if Qeq_bool (c_rate c) 0 then PRaise "ZeroDivisionError"
  else
  let mul := base_rate / c_rate c in
  let cname := nn (c_name c) in
  if mem cname (rs_names st) && mem (c_sym c) (rs_syms st) then POk st
  else
  let name := if mem cname (rs_names st) then c_sym c else cname in
  let sym := if mem (c_sym c) (rs_syms st) then cname else c_sym c in
  let name := match assoc sym special_names with Some n => n | None => name end in
  if taken st sym name then POk st                                      (* R2 *)
  else
  pbind (register_unit st sym name mul c) (fun st1 =>
  match assoc sym special_currency_symbols with
  | Some ss => if taken st1 ss ss then POk st1                           (* R2 *)
               else register_unit st1 ss ss mul c
  | None => POk st1
  end).

Fixpoint register_loop (nn : namenorm_t) (base_rate : Q) (st : regstate) (t : list cur) : pres regstate :=
  match t with
  | [] => POk st
  | c :: r => pbind (register_currency nn base_rate st c) (fun st' => register_loop nn base_rate st' r)
  end.

(* `base = next(c for c in CURRENCY_DATA if c.symbol == BASE_CURRENCY)` then the loop *)
Definition register_currencies (nn : namenorm_t) (pre_names pre_syms : list string) (t : list cur)
  (base : string) : pres regstate :=
  match find (fun c => String.eqb (c_sym c) base) t with
  | None => PRaise "StopIteration"
  | Some b => register_loop nn (c_rate b) {| rs_names := pre_names; rs_syms := pre_syms; rs_cash := [] |} t
  end.

(* the unit names and symbols that exist when the currency loop starts: everything in the live
   registry that is not a cash unit (regenerated, Gen/GenUnits.v) *)
Definition is_cash (u : GenUnits.gunit) : bool := mem "cash" (GenUnits.u_quantities u).
Definition unit_at (i : nat) : option GenUnits.gunit := nth_error GenUnits.units i.
Definition non_cash_key (p : string * nat) : bool :=
  match unit_at (snd p) with Some u => negb (is_cash u) | None => false end.
Definition pre_names : list string := map fst (filter non_cash_key GenUnits.name_to_unit).
Definition pre_syms : list string := map fst (filter non_cash_key GenUnits.symbol_to_unit).

(* ------------------------------------------------------------------ lookup and conversion *)
Inductive resolved := RCash (u : cunit) | RNonCash | RUnknown.

(* lookup_unit without the prefix search: NAME_TO_UNIT first, then SYMBOL_TO_UNIT.  An identifier
   found in neither may still resolve through a prefix (`kiloeuro`); that is outside C20. *)
Definition lookup_unit (st : regstate) (ident : string) : resolved :=
  match find (fun u => String.eqb (cu_name u) ident || String.eqb (cu_plural u) ident) (rs_cash st) with
  | Some u => RCash u
  | None =>
      if mem ident (rs_names st) then RNonCash
      else match find (fun u => String.eqb (cu_sym u) ident) (rs_cash st) with
           | Some u => RCash u
           | None => if mem ident (rs_syms st) then RNonCash else RUnknown
           end
  end.

(* make_quantity: multiple*magnitude + offset (offset 0); convert_quantity: (mag - offset)/multiple *)
Definition make_quantity (mult x : Q) : Q := mult * x + 0.
Definition convert_quantity (mag mult : Q) : Q := (mag - 0) / mult.

(* `x A to B` when both resolve to cash units *)
Definition convert (st : regstate) (x : Q) (a b : string) : option Q :=
  match lookup_unit st a, lookup_unit st b with
  | RCash ua, RCash ub => Some (convert_quantity (make_quantity (cu_mult ua) x) (cu_mult ub))
  | _, _ => None
  end.

(* the whole path from a table and a configured base *)
Definition registry_for (nn : namenorm_t) (t : list cur) (configured_base : string)
  : pres (option regstate) :=
  match select_base configured_base t with
  | None => POk None
  | Some b => pbind (register_currencies nn pre_names pre_syms t b) (fun st => POk (Some st))
  end.

Definition rates_positive (t : list cur) : Prop := Forall (fun c => 0 < c_rate c) t.
Definition rates_positiveb (t : list cur) : bool := forallb (fun c => negb (Qle_bool (c_rate c) 0)) t.

(* ------------------------------------------------------------------ rendering for the kernel lane *)
Definition show_cunit (u : cunit) : string :=
  cu_sym u ++ "," ++ cu_name u ++ "," ++ cu_plural u ++ "," ++ c_sym (cu_row u) ++ "," ++ show_Q (cu_mult u).
Definition show_optQ (o : option Q) : string := match o with Some q => show_Q q | None => "-" end.
Definition show_parsed (p : parsed) : string :=
  match p with
  | PNone => "None"
  | PValueError => "E:ValueError"
  | PTable t => "T:" ++ String.concat ";" (map (fun c => c_sym c ++ "," ++ c_name c ++ "," ++ show_Q (c_rate c)) t)
  end.
Definition float_table (tbl : list (string * Q)) : pyfloat_t := fun s => assoc s tbl.
