(* Exec.v — the outer shell of evaluation: which exceptions execute() and eval_parse_tree
   catch (from the REGENERATED except lists, Gen/GenInterp.v), the status it returns, the
   error() context window and caret, the `%` command dispatcher, the CLI exit code.
   Definitions only. *)
From Ka Require Export Model.Prelude.
From Ka Require Export Gen.GenInterp.
From Coq Require Import Arith Lia.
Local Open Scope nat_scope.
Local Open Scope string_scope.

(* ---- Python's exception hierarchy, as far as the handlers need it *)
Fixpoint mem_str (s : string) (l : list string) : bool :=
  match l with [] => false | x :: r => String.eqb s x || mem_str s r end.

Definition parents (c : string) : list string :=
  if mem_str c ["ZeroDivisionError"; "OverflowError"; "FloatingPointError"] then ["ArithmeticError"; "Exception"; "BaseException"]
  else if mem_str c ["UnicodeDecodeError"; "UnicodeError"] then ["ValueError"; "Exception"; "BaseException"]
  else if mem_str c ["IsADirectoryError"; "FileNotFoundError"; "PermissionError"; "NotADirectoryError"] then ["OSError"; "Exception"; "BaseException"]
  else if mem_str c ["IndexError"; "KeyError"] then ["LookupError"; "Exception"; "BaseException"]
  else if mem_str c ["KeyboardInterrupt"; "SystemExit"; "GeneratorExit"] then ["BaseException"]
  else ["Exception"; "BaseException"].   (* every Ka error class derives from Exception *)

(* does `except <classes>` catch an exception of class c ? *)
Definition catches (classes : list string) (c : string) : bool :=
  mem_str "<bare>" classes || mem_str c classes || existsb (fun p => mem_str p classes) (parents c).

Fixpoint assoc_tries (k : string) (l : list (string * list (list handler))) : option (list (list handler)) :=
  match l with
  | [] => None
  | (k', v) :: r => if String.eqb k k' then Some v else assoc_tries k r
  end.

(* the handlers of the k-th try statement (source order) of function f *)
Definition handlers_of (f : string) (k : nat) : list handler :=
  match assoc_tries f except_lists with
  | Some tries => nth k tries []
  | None => []
  end.

(* the first handler of a try statement that catches c *)
Fixpoint first_handler (hs : list handler) (c : string) : option handler :=
  match hs with
  | [] => None
  | h :: r => if catches (fst (fst h)) c then Some h else first_handler r c
  end.

Inductive outcome :=
| Value                        (* status 0, result on out, nothing on errout *)
| Diagnosed (status : string)  (* handler returned this status after printing a diagnostic *)
| Reraised                     (* ExitKaSignal / KeyboardInterrupt with reraise_signals *)
| Escaped (cls : string).      (* no handler: the host exception leaves execute() *)

(* an exception of class c raised in stage k (0 tokenise, 1 parse, 2 evaluate+display) of execute() *)
Definition classify_stage (k : nat) (c : string) : outcome :=
  match first_handler (handlers_of "interpret.execute" k) c with
  | None => Escaped c
  | Some h => match snd (fst h) with
              | st :: _ => Diagnosed st
              | [] => Escaped c
              end
  end.

(* eval_parse_tree wraps evaluation: ZeroDivisionError / OverflowError become EvalError *)
Definition through_eval_parse_tree (c : string) : string :=
  match first_handler (handlers_of "eval.eval_parse_tree" 0) c with
  | Some h => match snd h with
              | r :: _ => if String.prefix "EvalError" r then "EvalError" else c
              | [] => c
              end
  | None => c
  end.

(* the whole pipeline for an exception raised while evaluating the parse tree; display and
   reduce_result run inside the same try statement but outside eval_parse_tree *)
Definition classify_eval (c : string) : outcome := classify_stage 2 (through_eval_parse_tree c).
Definition classify_display (c : string) : outcome := classify_stage 2 c.

(* classes each stage of the MODELLED code can raise *)
Definition lex_classes : list string :=
  ["UnknownTokenError"; "BadNumberError"; "UnclosedStringError"; "UnclosedInstantError"].
Definition parse_classes : list string := ["ParsingError"; "KaRuntimeError"].
Definition ka_eval_classes : list exn :=
  [ZeroDivisionError; OverflowError; KaRuntimeError; EvalError; UnknownFunctionError;
   NoMatchingFunctionSignatureError; UnknownKeywordError; BadTypeKeywordError;
   IncompatibleQuantitiesError; FunctionArgError; InvalidParameterException].
Definition host_classes : list exn := [TypeError; ValueError; IndexError].

Definition all_diagnosed_1 (cl : list string) (f : string -> outcome) : bool :=
  forallb (fun c => match f c with Diagnosed s => String.eqb s "1" | _ => false end) cl.

Definition lex_ok : bool := all_diagnosed_1 lex_classes (classify_stage 0).
Definition parse_ok : bool := all_diagnosed_1 parse_classes (classify_stage 1).
Definition eval_ok : bool := all_diagnosed_1 (map show_exn ka_eval_classes) classify_eval.
(* ZeroDivisionError/OverflowError raised AFTER eval_parse_tree (in reduce_result/display) would
   escape: the modelled display code raises neither (see C05: resolve never divides by zero) *)
Definition host_escape : bool :=
  forallb (fun x => match classify_eval (show_exn x) with Escaped _ => true | _ => false end) host_classes.

(* outcome of a modelled evaluation result *)
Definition outcome_of {A} (r : res A) : outcome :=
  match r with Ok _ => Value | Raise x => classify_eval (show_exn x) end.
Definition acceptable (o : outcome) : Prop := o = Value \/ o = Diagnosed "1".

(* ---- error(): context window and caret (interpret.py:373-385) *)
Section ErrorText.
Variable ctx : nat.      (* ERROR_CONTEXT_SIZE *)
Variable ind : nat.      (* INDENT *)

Record error_layout := { e_low : nat; e_high : nat; e_left_fade : nat; e_right_fade : nat;
                         e_line_len : nat; e_caret_col : nat }.

(* len = length of the input (> 0), index = reported position *)
Definition layout (len index : nat) : error_layout :=
  let low := index - ctx in                       (* max(0, index-ctx): nat subtraction truncates *)
  let high := Nat.min len (index + ctx + 1) in
  let lf := if Nat.eqb low 0 then 0 else 3 in
  let rf := if Nat.eqb high len then 0 else 3 in
  {| e_low := low; e_high := high; e_left_fade := lf; e_right_fade := rf;
     e_line_len := ind + lf + (high - low) + rf;
     e_caret_col := ind + lf + index - low |}.
End ErrorText.

(* token index of a ParsingError -> character index (execute, the three cases) *)
Definition parse_error_char_index (ntokens : nat) (begin_of end_of : nat -> nat) (token_index : nat) : nat :=
  if Nat.eqb ntokens 0 then 0
  else if Nat.leb ntokens token_index then end_of (ntokens - 1)
  else begin_of token_index.

(* ---- `%` commands (interpret.py:194-206 as repaired) over the generated command table *)
Inductive cmd_result :=
| CmdRun (impl : string) (args : list string)
| CmdArity (expected got : nat)
| CmdUnknown.

Fixpoint find_cmd (name : string) (tbl : list (list string * nat * string)) : option (nat * string) :=
  match tbl with
  | [] => None
  | (names, nargs, impl) :: r => if mem_str name names then Some (nargs, impl) else find_cmd name r
  end.

(* words = s[1:].split() *)
Definition run_cmd (words : list string) : cmd_result :=
  let name := match words with [] => "" | w :: _ => w end in
  let args := match words with [] => [] | _ :: a => a end in
  match find_cmd name commands with
  | None => CmdUnknown
  | Some (nargs, impl) =>
      if Nat.eqb nargs (List.length args) then CmdRun impl args else CmdArity nargs (List.length args)
  end.

Definition show_outcome (o : outcome) : string :=
  match o with
  | Value => "V" | Diagnosed s => "D" ++ s | Reraised => "R" | Escaped c => "X:" ++ c
  end.
