(* Instant.v — Ka's instants (types.py Instant .. validate_time; functions.py "Dates & times";
   tokens.py read_instant / parse.py parse_instant) on top of Calendar.v.
   Definitions only; proofs are in Proofs/CalendarProofs.v.

   A naive datetime is a microsecond count since 0001-01-01T00:00:00, valid in
   [0, MAX_US) (years 1..9999).  A timedelta is a microsecond count whose day part lies in
   [-999999999, 999999999].  Python exceptions are [Raise]: OverflowError (which Ka's
   eval_parse_tree turns into the diagnosed "Overflow, numerical result out of range!"),
   KaRuntimeError (validate_time, bad ISO text), ValueError (datetime constructor).
   Time-zone aware instants and the other ISO-8601 spellings accepted by
   datetime.fromisoformat are outside the modelled forms ([Raise Unmodelled]). *)
From Ka Require Export Model.Calendar Model.Num.
From Ka Require Import Gen.GenUnits.
From Coq Require Import Ascii.
Local Open Scope string_scope.
Local Open Scope Z_scope.

Definition US_PER_SEC : Z := 1000000.
Definition US_PER_DAY : Z := 86400000000.
Definition MAX_US : Z := MAX_DAYS * US_PER_DAY.

Definition in_range (i : Z) : bool := (0 <=? i) && (i <? MAX_US).

Definition valid_time (h mi s us : Z) : bool :=
  (0 <=? h) && (h <? 24) && (0 <=? mi) && (mi <? 60) && (0 <=? s) && (s <? 60)
  && (0 <=? us) && (us <? 1000000).

Definition time_us (h mi s us : Z) : Z := ((h * 60 + mi) * 60 + s) * US_PER_SEC + us.

Definition mk_instant (y m d h mi s us : Z) : Z :=
  days_from_civil y m d * US_PER_DAY + time_us h mi s us.

(* datetime(y, m, d, h, mi, s, us) *)
Definition datetime_new (y m d h mi s us : Z) : res Z :=
  if valid_year y && valid_date y m d && valid_time h mi s us
  then Ok (mk_instant y m d h mi s us) else Raise ValueError.

(* --- fields ------------------------------------------------------------------------------ *)
Definition day_of (i : Z) : Z := i / US_PER_DAY.
Definition tod_of (i : Z) : Z := i mod US_PER_DAY.
Definition date_of (i : Z) : Z * Z * Z := civil_from_days (day_of i).
Definition get_year (i : Z) : Z := fst (fst (date_of i)).
Definition get_month (i : Z) : Z := snd (fst (date_of i)).
Definition get_day (i : Z) : Z := snd (date_of i).
Definition get_hour (i : Z) : Z := tod_of i / 3600000000.
Definition get_minute (i : Z) : Z := (tod_of i / 60000000) mod 60.
Definition get_second (i : Z) : Z := (tod_of i / 1000000) mod 60.
Definition get_micro (i : Z) : Z := tod_of i mod 1000000.

(* --- timedelta ----------------------------------------------------------------------------- *)
Definition TD_MAX_DAYS : Z := 999999999.
Definition td_check (us : Z) : res Z :=
  let days := us / US_PER_DAY in
  if (- TD_MAX_DAYS <=? days) && (days <=? TD_MAX_DAYS) then Ok us else Raise OverflowError.

(* a number of seconds to the nearest microsecond, ties to even *)
Definition round_us (q : Q) : Z := Qround_half_even (q * inject_Z US_PER_SEC).

(* seconds_to_timedelta (types.py):
     int      -> timedelta(seconds=n)                       exact
     Fraction -> timedelta(seconds=numerator) / denominator (timedelta / int rounds half-even)
     float    -> timedelta(seconds=x): the float's value rounded half-even to the microsecond
                 (idealised: the float is taken as the exact rational it denotes; CPython
                 multiplies the fractional part by 1e6 in double arithmetic, which can move a
                 value lying within 2e-10 us of a tie) *)
Definition td_of_seconds (n : num) : res Z :=
  match n with
  | NInt z => td_check (z * US_PER_SEC)
  | NFrac q => do t <- td_check (Qnum q * US_PER_SEC); Ok (Qround_half_even (t # Qden q))
  | NFlt q => td_check (round_us q)
  end.

Definition td_of_days (n : Z) : res Z := td_check (n * US_PER_DAY).

(* datetime + timedelta *)
Definition add_td (i t : Z) : res Z :=
  let r := i + t in if in_range r then Ok r else Raise OverflowError.

(* --- quantities ---------------------------------------------------------------------------- *)
Record quantity := { q_mag : num; q_dims : list Q }.

(* units.S = QSPACE.get_basis_vector("s"), over the live base-unit list *)
Definition seconds_dims : list Q :=
  map (fun b => if String.eqb b "s" then 1%Q else 0%Q) base_units.

(* tuple equality of exponent vectors (Python compares 1 == Fraction(1) == 1.0 as equal) *)
Fixpoint dims_eqb (a b : list Q) : bool :=
  match a, b with
  | [], [] => true
  | x :: a', y :: b' => Qeq_bool x y && dims_eqb a' b'
  | _, _ => false
  end.

Definition validate_time (q : quantity) : res unit :=
  if dims_eqb seconds_dims (q_dims q) then Ok tt else Raise KaRuntimeError.

(* --- the registered operations ------------------------------------------------------------- *)
Definition instant_plus_quantity (i : Z) (q : quantity) : res Z :=
  do _ <- validate_time q; do t <- td_of_seconds (q_mag q); add_td i t.
Definition instant_minus_quantity (i : Z) (q : quantity) : res Z :=
  do _ <- validate_time q; do t <- td_of_seconds (q_mag q); add_td i (- t).
Definition instant_plus_int (i n : Z) : res Z := do t <- td_of_days n; add_td i t.
Definition instant_minus_int (i n : Z) : res Z := do t <- td_of_days n; add_td i (- t).

(* I1 - I2: the elapsed time as a whole number of microseconds.  Ka returns
   Quantity(timedelta.total_seconds(), seconds): the double nearest to span/10^6. *)
Definition instant_minus_instant (i j : Z) : Z := i - j.
Definition total_seconds (span : Z) : Q := span # 1000000.

Definition floor_instant (i : Z) : res Z :=
  let '(y, m, d) := date_of i in datetime_new y m d 0 0 0 0.
Definition ceil_instant (i : Z) : res Z :=
  do f <- floor_instant i; do t <- td_of_days 1; add_td f t.

Inductive cmpop := CEq | CNe | CLt | CLe | CGt | CGe.
Definition intify (b : bool) : Z := if b then 1 else 0.
Definition instant_cmp (op : cmpop) (i j : Z) : Z :=
  intify (match op with
          | CEq => i =? j | CNe => negb (i =? j)
          | CLt => i <? j | CLe => i <=? j | CGt => i >? j | CGe => i >=? j
          end).

(* --- ISO text ------------------------------------------------------------------------------ *)
Definition digit_char (d : Z) : ascii :=
  match d with
  | 0 => "0" | 1 => "1" | 2 => "2" | 3 => "3" | 4 => "4"
  | 5 => "5" | 6 => "6" | 7 => "7" | 8 => "8" | 9 => "9" | _ => "?"
  end%char.
Fixpoint pad (k : nat) (z : Z) : string :=
  match k with
  | O => EmptyString
  | S k' => pad k' (z / 10) ++ String (digit_char (z mod 10)) EmptyString
  end.

(* datetime.isoformat() of a naive datetime *)
Definition iso_text (y m d h mi s us : Z) : string :=
  pad 4 y ++ "-" ++ pad 2 m ++ "-" ++ pad 2 d ++ "T" ++ pad 2 h ++ ":" ++ pad 2 mi ++ ":" ++ pad 2 s
  ++ (if us =? 0 then "" else "." ++ pad 6 us).
(* (the time of day is split once: the kernel lane evaluates this for every result) *)
Definition show_instant (i : Z) : string :=
  let '(y, m, d) := date_of i in
  let t := tod_of i in
  iso_text y m d (t / 3600000000) ((t / 60000000) mod 60) ((t / 1000000) mod 60) (t mod 1000000).

Definition digit_val (c : ascii) : option Z :=
  let n := nat_of_ascii c in
  if (48 <=? n)%nat && (n <=? 57)%nat then Some (Z.of_nat (n - 48)) else None.

(* exactly k ASCII digits *)
Fixpoint take_digits (k : nat) (acc : Z) (s : string) : option (Z * string) :=
  match k with
  | O => Some (acc, s)
  | S k' => match s with
            | String c r => match digit_val c with
                            | Some d => take_digits k' (acc * 10 + d) r
                            | None => None
                            end
            | EmptyString => None
            end
  end.

(* 1..6 fraction digits up to the end of the text, scaled to microseconds *)
Fixpoint take_fraction (k : nat) (acc : Z) (s : string) : option Z :=
  match s with
  | EmptyString => Some (acc * 10 ^ Z.of_nat k)
  | String c r => match k, digit_val c with
                  | S k', Some d => take_fraction k' (acc * 10 + d) r
                  | _, _ => None
                  end
  end.

Definition obind {A B} (o : option A) (f : A -> option B) : option B :=
  match o with Some a => f a | None => None end.
Definition expect (c : ascii) (s : string) : option string :=
  match s with String c' r => if Ascii.eqb c c' then Some r else None | EmptyString => None end.

(* the time part after "T": HH:MM, HH:MM:SS, HH:MM:SS.f{1,6} *)
Definition parse_time (s : string) : option (Z * Z * Z * Z) :=
  obind (take_digits 2 0 s) (fun '(h, s) =>
  obind (expect ":" s) (fun s =>
  obind (take_digits 2 0 s) (fun '(mi, s) =>
  match s with
  | EmptyString => Some (h, mi, 0, 0)
  | _ =>
    obind (expect ":" s) (fun s =>
    obind (take_digits 2 0 s) (fun '(sec, s) =>
    match s with
    | EmptyString => Some (h, mi, sec, 0)
    | String c r =>
      if Ascii.eqb c "." then
        match r with
        | EmptyString => None
        | _ => obind (take_fraction 6 0 r) (fun us => Some (h, mi, sec, us))
        end
      else None
    end))
  end))).

(* datetime.fromisoformat on the modelled spellings YYYY-MM-DD[THH:MM[:SS[.f]]];
   everything else is declined *)
Definition fromisoformat (s : string) : res Z :=
  match obind (take_digits 4 0 s) (fun '(y, s) =>
        obind (expect "-" s) (fun s =>
        obind (take_digits 2 0 s) (fun '(m, s) =>
        obind (expect "-" s) (fun s =>
        obind (take_digits 2 0 s) (fun '(d, s) =>
        match s with
        | EmptyString => Some (y, m, d, (0, 0, 0, 0))
        | String c r => if Ascii.eqb c "T" then obind (parse_time r) (fun t => Some (y, m, d, t))
                        else None
        end))))) with
  | Some (y, m, d, (h, mi, sec, us)) => datetime_new y m d h mi sec us
  | None => Raise Unmodelled
  end.

Definition is_digit (c : ascii) : bool :=
  match digit_val c with Some _ => true | None => false end.
Definition newline : ascii := ascii_of_nat 10.
(* Python's "$" also matches before one final newline *)
Definition at_end (s : string) : bool :=
  match s with
  | EmptyString => true
  | String c EmptyString => Ascii.eqb c newline
  | _ => false
  end.
(* JUST_YEAR = \d{4}$  and  JUST_YEAR_AND_MONTH = \d{4}-\d{2}$  (re.match; ASCII digits) *)
Definition just_year (s : string) : bool :=
  match s with
  | String a (String b (String c (String d r))) =>
      is_digit a && is_digit b && is_digit c && is_digit d && at_end r
  | _ => false
  end.
Definition just_year_month (s : string) : bool :=
  match s with
  | String a (String b (String c (String d (String e (String f (String g r)))))) =>
      is_digit a && is_digit b && is_digit c && is_digit d && Ascii.eqb e "-"
      && is_digit f && is_digit g && at_end r
  | _ => false
  end.

(* types.py instant_from_iso *)
Definition instant_from_iso (s : string) : res Z :=
  let s1 := if just_year s then s ++ "-01-01" else s in
  let s2 := if just_year_month s1 then s1 ++ "-01" else s1 in
  match fromisoformat s2 with
  | Raise ValueError => Raise KaRuntimeError
  | r => r
  end.

(* --- kernel-lane driver: one instant, many operations --------------------------------------- *)
Inductive op :=
| OFloor | OCeil | OYear | OMonth | ODay | OHour | OMinute | OSecond
| OAddQ (q : quantity) | OSubQ (q : quantity) | OAddInt (n : Z) | OSubInt (n : Z)
| ODiff (j : string) | OCmp (c : cmpop) (j : string) | OShow.

Definition show_T (r : res Z) : string := show_res (fun i => "T:" ++ show_instant i) r.
Definition show_I (z : Z) : string := "I:" ++ show_Z z.

Definition run_op (i : Z) (o : op) : string :=
  match o with
  | OFloor => show_T (floor_instant i)
  | OCeil => show_T (ceil_instant i)
  | OYear => show_I (get_year i) | OMonth => show_I (get_month i) | ODay => show_I (get_day i)
  | OHour => show_I (get_hour i) | OMinute => show_I (get_minute i)
  | OSecond => show_I (get_second i)
  | OAddQ q => show_T (instant_plus_quantity i q)
  | OSubQ q => show_T (instant_minus_quantity i q)
  | OAddInt n => show_T (instant_plus_int i n)
  | OSubInt n => show_T (instant_minus_int i n)
  | ODiff j => show_res (fun j => "U:" ++ show_Z (instant_minus_instant i j)) (instant_from_iso j)
  | OCmp c j => show_res (fun j => show_I (instant_cmp c i j)) (instant_from_iso j)
  | OShow => show_T (Ok i)
  end.

Definition run_case (c : string * list op) : string :=
  match instant_from_iso (fst c) with
  | Ok i => String.concat "|" (map (run_op i) (snd c))
  | Raise e => "E:" ++ show_exn e
  end.

(* shorthands used by the non-vacuity examples of Properties/C17.v *)
Definition secs (n : num) : quantity := {| q_mag := n; q_dims := seconds_dims |}.
Definition on (s : string) (f : Z -> res Z) : string := show_T (bind (instant_from_iso s) f).
