(* Cmp.v — the comparison operators as registered for numbers (functions.py:255-260, intify),
   quantities (q_cmp in Qty.v), lazy values (coerced, Comb.v) and instants (intify'd datetime
   comparisons on the microsecond count; see Calendar.v / C17).  Definitions only. *)
From Ka Require Export Model.Num Model.Qty Model.Comb.
Local Open Scope Z_scope.

(* instants: datetime comparison is comparison of the (naive) microsecond count *)
Definition i_cmp (c : qcmp) (a b : Z) : num :=
  b2n (match c with
       | QLt => a <? b | QLe => a <=? b | QEq => a =? b
       | QNe => negb (a =? b) | QGt => b <? a | QGe => b <=? a
       end).

(* lazy values: coerce_to resolves when a plain Number is expected *)
Definition l_cmp (c : qcmp) (a b : cval) : res num :=
  match coerce a with
  | Raise e => Raise e
  | Ok x => match coerce b with Raise e => Raise e | Ok y => qcmp_num c x y end
  end.

(* `x in {…}`: 1 if x == e for some element (functions.py in_array, after the repair) *)
Fixpoint in_array (x : num) (l : list num) : num :=
  match l with
  | [] => NInt 0
  | e :: r => if Qeqb (toQ x) (toQ e) then NInt 1 else in_array x r
  end.
