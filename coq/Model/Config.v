(* Config.v — the optional per-user files of Ka and how start-up treats them:
   config.py (read_config / read_config_file / get), currency.py (load_currency_data),
   units.py:227-243,380-410 (base currency, registration), interpret.py (load_history,
   readline_load_history, save_history, precisionify_float), cli.py main (order of events).
   Definitions only.

   Which exception classes a handler catches is read from the REGENERATED except lists
   (Gen/GenInterp.v), so narrowing or removing a handler in /repo changes [caught_by].

   REPAIRED BEHAVIOUR modelled here (the code as it stands differs, see the C19 report):
   R1, R2 in Model/Currency.v;
   R3  load_history drops lines that contain a NUL character (readline.add_history raises
       ValueError on them, outside any handler);
   R4  a numeric option above 2^31-1 is rejected like a negative one (`precision` that large
       makes every float result raise ValueError in str.format). *)
From Ka Require Export Model.Currency.
From Ka Require Export Gen.GenConfig.
From Ka Require Gen.GenInterp.
From Coq Require Import Ascii.
Local Open Scope string_scope.

(* ------------------------------------------------------------------ exception classes *)
(* what open / read / write / makedirs can raise on the per-user files *)
Inductive ioerr := EOSError | EFileNotFound | EIsADirectory | ENotADirectory | EPermission
                 | EFileExists.
Definition ioerr_name (e : ioerr) : pyexn :=
  match e with
  | EOSError => "OSError" | EFileNotFound => "FileNotFoundError"
  | EIsADirectory => "IsADirectoryError" | ENotADirectory => "NotADirectoryError"
  | EPermission => "PermissionError" | EFileExists => "FileExistsError"
  end.
(* writing the history lines can also fail to encode them *)
Inductive wexn := WIo (e : ioerr) | WUnicodeEncode.
Definition wexn_name (e : wexn) : pyexn :=
  match e with WIo e => ioerr_name e | WUnicodeEncode => "UnicodeEncodeError" end.

(* hand-written: the proper ancestors (below BaseException) of the Python classes involved *)
Definition ancestors : list (string * list string) := [
  ("Exception", []);
  ("OSError", ["Exception"]);
  ("FileNotFoundError", ["OSError"; "Exception"]);
  ("IsADirectoryError", ["OSError"; "Exception"]);
  ("NotADirectoryError", ["OSError"; "Exception"]);
  ("PermissionError", ["OSError"; "Exception"]);
  ("FileExistsError", ["OSError"; "Exception"]);
  ("ValueError", ["Exception"]);
  ("UnicodeError", ["ValueError"; "Exception"]);
  ("UnicodeDecodeError", ["UnicodeError"; "ValueError"; "Exception"]);
  ("UnicodeEncodeError", ["UnicodeError"; "ValueError"; "Exception"]);
  ("ArithmeticError", ["Exception"]);
  ("ZeroDivisionError", ["ArithmeticError"; "Exception"]);
  ("AssertionError", ["Exception"]);
  ("StopIteration", ["Exception"]);
  ("TypeError", ["Exception"]);
  ("KeyboardInterrupt", []);
  ("SystemExit", [])
].
(* does `except d` catch an exception of class c *)
Definition is_subclass (c d : string) : bool :=
  String.eqb d "<bare>" || String.eqb d "BaseException" || String.eqb c d
  || match assoc c ancestors with Some l => mem d l | None => false end.

(* classes named by the handlers of the (first) try statement of a function, from the AST *)
Definition handler_classes (fn : string) : list string :=
  match assoc fn GenInterp.except_lists with
  | Some (t :: _) => flat_map (fun h => fst (fst h)) t
  | _ => []
  end.
Definition caught_by (fn : string) (e : pyexn) : bool := existsb (is_subclass e) (handler_classes fn).
Definition try_ {A} (fn : string) (body : pres A) (handler : pyexn -> pres A) : pres A :=
  match body with
  | POk a => POk a
  | PRaise e => if caught_by fn e then handler e else PRaise e
  end.

(* ------------------------------------------------------------------ files *)
(* Unreadable: exists, os.path.isfile is true, open or read raises.  Bytes: a readable regular
   file; [decodable = false] means the bytes are not valid UTF-8 (the text is then irrelevant). *)
Inductive fstate := Missing | Directory | Unreadable (e : ioerr) | Bytes (decodable : bool) (text : string).
(* the configuration file; the default location of an option's file; a path given in the
   configuration *)
Inductive pathkey := PConfig | PDefault (prop : string) | PUser (path : string).
Definition filesys := pathkey -> fstate.

Definition path_exists (s : fstate) : bool := match s with Missing => false | _ => true end.
Definition path_isfile (s : fstate) : bool := match s with Missing | Directory => false | _ => true end.
(* open(path) + read()/readlines() in text mode *)
Definition open_read (s : fstate) : pres string :=
  match s with
  | Missing => PRaise "FileNotFoundError"
  | Directory => PRaise "IsADirectoryError"
  | Unreadable e => PRaise (ioerr_name e)
  | Bytes false _ => PRaise "UnicodeDecodeError"
  | Bytes true t => POk (universal_newlines t)
  end.

(* ------------------------------------------------------------------ configuration *)
Inductive cval := VInt (z : Z) | VBool (b : bool) | VStr (s : string).
(* the CONFIG dict: the most recent binding is in front *)
Definition config := list (string * cval).
Definition cprop := (string * string * bool * bool)%type.
Definition cp_name (p : cprop) : string := fst (fst (fst p)).
Definition cp_default (p : cprop) : string := snd (fst (fst p)).
Definition cp_num (p : cprop) : bool := snd (fst p).
Definition cp_bool (p : cprop) : bool := snd p.
Definition prop_of (name : string) : option cprop :=
  find (fun p => String.eqb (cp_name p) name) config_props.

(* int(text) in base 10 on ASCII text: optional sign, digits, single underscores between digits *)
Definition digit_of (c : ascii) : option Z :=
  let n := N_of_ascii c in
  if ((48 <=? n)%N && (n <=? 57)%N)%bool then Some (Z.of_N (n - 48)) else None.
Inductive istate := IStart | IDigit | IUnder.
Fixpoint int_digits (acc : Z) (stt : istate) (s : string) : option Z :=
  match s with
  | EmptyString => match stt with IDigit => Some acc | _ => None end
  | String c r =>
      match digit_of c with
      | Some d => int_digits (10 * acc + d)%Z IDigit r
      | None => if Ascii.eqb c "_"%char
                then match stt with IDigit => int_digits acc IUnder r | _ => None end
                else None
      end
  end.
Definition parse_int (s : string) : option Z :=
  match s with
  | EmptyString => None
  | String c r =>
      if Ascii.eqb c "+"%char then int_digits 0%Z IStart r
      else if Ascii.eqb c "-"%char then option_map Z.opp (int_digits 0%Z IStart r)
      else int_digits 0%Z IStart s
  end.

Definition default_of (p : cprop) : cval :=
  if cp_num p then match parse_int (cp_default p) with Some z => VInt z | None => VStr (cp_default p) end
  else if cp_bool p then VBool (String.eqb (cp_default p) "True")
  else VStr (cp_default p).

(* ka.config.get: CONFIG.get(prop.name, prop.default) *)
Definition cfg_get (c : config) (name : string) : option cval :=
  match assoc name c with
  | Some v => Some v
  | None => option_map default_of (prop_of name)
  end.
Definition cfg_str (c : config) (name : string) : string :=
  match cfg_get c name with Some (VStr s) => s | _ => "" end.
Definition cfg_int (c : config) (name : string) : Z :=
  match cfg_get c name with Some (VInt z) => z | _ => 0%Z end.
(* which file an option designates *)
Definition path_of (c : config) (prop : string) : pathkey :=
  match assoc prop c with Some (VStr s) => PUser s | _ => PDefault prop end.

Inductive warning :=
| WInt (name : string) | WNeg (name : string) | WRange (name : string) | WBool (name : string)
| WUnknown (name : string) | WConfigUnreadable
| WCurrencyFallback | WHistoryLoad | WHistorySave.

Definition max_num : Z := (2 ^ 31)%Z.

(* one line of the configuration file (config.py:71-99) *)
Inductive effect := ESet (k : string) (v : cval) | EWarn (w : warning) | ESkip.
Definition line_effect (line : string) : effect :=
  match split1 ch_eq line with
  | None => ESkip                                        (* len(items) < 2 *)
  | Some (k0, v0) =>
      let name := strip k0 in
      let val := strip v0 in
      match prop_of name with
      | None => EWarn (WUnknown name)
      | Some p =>
          if cp_num p then
            match parse_int val with
            | None => EWarn (WInt name)
            | Some z =>
                if (z <? 0)%Z then EWarn (WNeg name)
                else if (max_num <=? z)%Z then EWarn (WRange name)       (* R4 *)
                else if cp_bool p then EWarn (WBool name)
                else ESet name (VInt z)
            end
          else if cp_bool p then
            if String.eqb val "true" then ESet name (VBool true)
            else if String.eqb val "false" then ESet name (VBool false)
            else EWarn (WBool name)
          else ESet name (VStr val)
      end
  end.
Definition apply_line (st : config * list warning) (line : string) : config * list warning :=
  match line_effect line with
  | ESet k v => ((k, v) :: fst st, snd st)
  | EWarn w => (fst st, (snd st ++ [w])%list)
  | ESkip => st
  end.
Definition apply_lines (st : config * list warning) (ls : list string) : config * list warning :=
  fold_left apply_line ls st.

Definition read_config_file (s : fstate) (c : config) : pres (config * list warning) :=
  if negb (path_exists s && path_isfile s) then POk (c, [])
  else pbind (open_read s) (fun text => POk (apply_lines (c, []) (readlines text))).
Definition read_config (s : fstate) (c : config) : pres (config * list warning) :=
  try_ "config.read_config" (read_config_file s c) (fun _ => POk (c, [WConfigUnreadable])).

(* ------------------------------------------------------------------ currency table *)
(* currency.py:243-256.  Result: the table, whether it came from the file, what was printed. *)
Definition load_currency_data (pf : pyfloat_t) (c : config) (fs : filesys)
  : pres (list cur * bool * list warning) :=
  let s := fs (path_of c "currency-path") in
  let attempt : pres (option (list cur) * list warning) :=
    if path_exists s then
      try_ "currency.load_currency_data"
        (pbind (open_read s) (fun text =>
           match parse_currency_data pf text with
           | PTable t => POk (Some t, [])
           | PNone => POk (None, [])
           | PValueError => PRaise "ValueError"
           end))
        (fun _ => POk (None, [WCurrencyFallback]))
    else POk (None, []) in
  pbind attempt (fun r =>
    match fst r with
    | Some (x :: t) => POk (x :: t, true, snd r)
    | _ => POk (currency_data, false, snd r)              (* `if not data`: None or empty *)
    end).

(* states in which the file gives nothing: anything but a readable, decodable regular file — and,
   for the currency table, also a file whose text does not parse to a non-empty table *)
Definition config_unusable (s : fstate) : Prop :=
  match s with Bytes true _ => False | _ => True end.
Definition currency_unusable (pf : pyfloat_t) (s : fstate) : Prop :=
  match s with
  | Bytes true text => match parse_currency_data pf (universal_newlines text) with
                       | PTable (_ :: _) => False
                       | _ => True
                       end
  | _ => True
  end.

(* ------------------------------------------------------------------ start-up *)
Record started := {
  st_cfg : config;                 (* CONFIG when evaluation begins *)
  st_table : list cur;             (* CURRENCY_DATA *)
  st_from_file : bool;
  st_base : option string;         (* BASE_CURRENCY *)
  st_reg : option regstate;        (* the unit registry's cash part *)
  st_cfg_warn : list warning;      (* what read_config reports to an error_out (cli passes none) *)
  st_printed : list warning        (* what reaches stderr *)
}.
Inductive outcome := Started (s : started) | Crashed (e : pyexn).

(* `python -m ka.cli …`: importing ka.cli imports ka.units, whose load_currency_data() makes the
   first ka.config.get (-> read_config); registration follows; then main() calls read_config
   again; then the expression is evaluated. *)
Definition startup (pf : pyfloat_t) (nn : namenorm_t) (fs : filesys) : outcome :=
  match read_config (fs PConfig) [] with
  | PRaise e => Crashed e
  | POk (c1, w1) =>
    match load_currency_data pf c1 fs with
    | PRaise e => Crashed e
    | POk (t, from_file, w2) =>
      match registry_for nn t (cfg_str c1 "base-currency") with
      | PRaise e => Crashed e
      | POk reg =>
        match read_config (fs PConfig) c1 with
        | PRaise e => Crashed e
        | POk (c2, w3) =>
            Started {| st_cfg := c2; st_table := t; st_from_file := from_file;
                       st_base := select_base (cfg_str c1 "base-currency") t;
                       st_reg := reg; st_cfg_warn := w3; st_printed := w2 |}
        end
      end
    end
  end.

(* precisionify_float: ("{:." + str(precision) + "g}").format(f) raises ValueError when the
   precision does not fit a C int *)
Definition format_float (c : config) : pres unit :=
  if (cfg_int c "precision" <? max_num)%Z then POk tt else PRaise "ValueError".

(* ------------------------------------------------------------------ history *)
Definition truthy (v : cval) : bool :=
  match v with
  | VBool b => b
  | VInt z => negb (z =? 0)%Z
  | VStr s => negb (String.eqb s "")
  end.
Definition history_enabled (c : config) : bool :=
  match cfg_get c "save-history" with Some v => truthy v | None => false end.

(* interpret.py:163-176 *)
Definition load_history (c : config) (fs : filesys) : pres (list string * list warning) :=
  let s := fs (path_of c "history-path") in
  if history_enabled c then
    try_ "interpret.load_history"
      (if path_exists s then
         pbind (open_read s) (fun text =>
           POk (filter (fun l => negb (contains ch_nul l))                       (* R3 *)
                  (filter (fun l => negb (String.eqb l "")) (map strip (readlines text))), []))
       else POk ([], []))
      (fun _ => POk ([], [WHistoryLoad]))
  else POk ([], []).

(* readline.add_history: ValueError("embedded null character") *)
Definition add_history (l : string) : pres unit :=
  if contains ch_nul l then PRaise "ValueError" else POk tt.
Fixpoint add_all (ls : list string) : pres unit :=
  match ls with
  | [] => POk tt
  | l :: r => pbind (add_history (strip l)) (fun _ => add_all r)
  end.
(* readline_load_history: not inside any handler *)
Definition readline_load_history (c : config) (fs : filesys) : pres (list warning) :=
  pbind (load_history c fs) (fun r => pbind (add_all (fst r)) (fun _ => POk (snd r))).

(* what the operating system answers when the history file is written; arbitrary *)
Record write_env := {
  we_parent_exists : bool;
  we_makedirs : option ioerr;
  we_open : option ioerr;
  we_write : option wexn
}.
Inductive written := WNothing | WAppended (text : string) | WCreated (text : string).

Definition os_step (r : option ioerr) : pres unit :=
  match r with Some e => PRaise (ioerr_name e) | None => POk tt end.
Definition write_step (r : option wexn) : pres unit :=
  match r with Some e => PRaise (wexn_name e) | None => POk tt end.
Definition open_for_write (s : fstate) (w : write_env) : pres unit :=
  match s with
  | Directory => PRaise "IsADirectoryError"
  | Unreadable e => PRaise (ioerr_name e)
  | _ => os_step (we_open w)
  end.

(* interpret.py:181-196 *)
Definition save_history (c : config) (fs : filesys) (w : write_env) (history : list string)
  : pres (written * list warning) :=
  try_ "interpret.save_history"
    (let s := fs (path_of c "history-path") in
     if history_enabled c then
       if path_exists s then
         pbind (open_for_write s w) (fun _ =>
         pbind (write_step (we_write w)) (fun _ =>
         POk (WAppended (String ch_nl EmptyString ++ String.concat (String ch_nl EmptyString) history), [])))
       else
         pbind (if we_parent_exists w then POk tt else os_step (we_makedirs w)) (fun _ =>
         pbind (open_for_write s w) (fun _ =>
         pbind (write_step (we_write w)) (fun _ =>
         POk (WCreated (String.concat (String ch_nl EmptyString) history), []))))
     else POk (WNothing, []))
    (fun _ => POk (WNothing, [WHistorySave])).

(* run_interpreter around the read-eval loop: history is loaded before the first prompt and saved
   when the loop ends; the process then exits with status 0 *)
Definition interpreter_session (c : config) (fs : filesys) (w : write_env) (history : list string)
  : pres (Z * list warning) :=
  pbind (readline_load_history c fs) (fun w1 =>
  pbind (save_history c fs w history) (fun r => POk (0%Z, (w1 ++ snd r)%list))).

(* ------------------------------------------------------------------ facts about the regenerated tables
   (stated here, proved by computation in GenFacts/ConfigFacts.v on every run) *)
(* every exception the modelled bodies can raise is caught by the handler around them *)
Definition handlers_catch : Prop :=
  (forall e, caught_by "config.read_config" (ioerr_name e) = true) /\
  caught_by "config.read_config" "UnicodeDecodeError" = true /\
  (forall e, caught_by "currency.load_currency_data" (ioerr_name e) = true) /\
  caught_by "currency.load_currency_data" "UnicodeDecodeError" = true /\
  caught_by "currency.load_currency_data" "ValueError" = true /\
  (forall e, caught_by "interpret.load_history" (ioerr_name e) = true) /\
  caught_by "interpret.load_history" "UnicodeDecodeError" = true /\
  (forall e, caught_by "interpret.save_history" (wexn_name e) = true).
(* the built-in table is usable: positive rates, not empty *)
Definition builtin_table_ok : Prop := rates_positiveb currency_data = true /\ currency_data <> [].
(* the option kinds the model relies on *)
Definition is_textual (name : string) : bool :=
  match prop_of name with Some p => negb (cp_num p) && negb (cp_bool p) | None => false end.
Definition props_okb : bool :=
  match prop_of "precision" with
  | Some p => cp_num p && negb (cp_bool p)
              && match default_of p with VInt z => (0 <=? z)%Z && (z <? max_num)%Z | _ => false end
  | None => false
  end
  && match prop_of "save-history" with Some p => negb (cp_num p) && cp_bool p | None => false end
  && is_textual "currency-path" && is_textual "history-path" && is_textual "base-currency"
  && is_textual "prompt".

(* ------------------------------------------------------------------ rendering for the kernel lane *)
Definition show_cval (v : cval) : string :=
  match v with
  | VInt z => show_Z z
  | VBool true => "True" | VBool false => "False"
  | VStr s => s
  end.
Definition show_warning (w : warning) : string :=
  match w with
  | WInt n => "int:" ++ n | WNeg n => "neg:" ++ n | WRange n => "range:" ++ n
  | WBool n => "bool:" ++ n | WUnknown n => "unknown:" ++ n
  | WConfigUnreadable => "config-unreadable" | WCurrencyFallback => "currency-fallback"
  | WHistoryLoad => "history-load" | WHistorySave => "history-save"
  end.
Definition show_warnings (ws : list warning) : string := String.concat ";" (map show_warning ws).
(* effective value of every option, in the order of the regenerated table *)
Definition show_cfg (c : config) : string :=
  String.concat ";" (map (fun p => cp_name p ++ "=" ++
                                   match cfg_get c (cp_name p) with Some v => show_cval v | None => "?" end)
                         config_props).
Definition show_outcome (o : outcome) : string :=
  match o with
  | Crashed e => "C:" ++ e
  | Started s =>
      "S|" ++ show_cfg (st_cfg s)
      ++ "|base=" ++ match st_base s with Some b => b | None => "-" end
      ++ "|table=" ++ (if st_from_file s then "file" else "default") ++ ":" ++ show_nat (List.length (st_table s))
      ++ "|cash=" ++ match st_reg s with Some r => show_nat (List.length (rs_cash r)) | None => "-" end
      ++ "|cfgwarn=" ++ show_warnings (st_cfg_warn s)
      ++ "|printed=" ++ show_warnings (st_printed s)
  end.
Definition show_pres {A} (sh : A -> string) (r : pres A) : string :=
  match r with POk a => sh a | PRaise e => "C:" ++ e end.

(* a file system given by the three per-user files and one state for every other path *)
Definition fs_of (cfg cur hist other : fstate) (cur_path hist_path : string) : filesys :=
  fun k => match k with
           | PConfig => cfg
           | PDefault p => if String.eqb p "currency-path" then cur
                           else if String.eqb p "history-path" then hist else other
           | PUser s => if String.eqb s cur_path then cur
                        else if String.eqb s hist_path then hist else other
           end.
