(* Dispatch.v — overload resolution as functions.py:30-48,142-192 performs it, over the
   regenerated registry Gen/GenFunctions.v.  Definitions only. *)
From Ka Require Export Model.Prelude.
From Ka Require Export Gen.GenFunctions.
From Coq Require Import Arith.
Local Open Scope nat_scope.
Local Open Scope string_scope.

Definition tbl_get (tbl : list (list bool)) (i j : nat) : bool := nth j (nth i tbl []) false.

(* is_type(value of kind k, type t) and type_below(a, b) from the regenerated lattice *)
Definition isinst (k t : nat) : bool := tbl_get isinstance_tbl k t.
Definition subcls (a b : nat) : bool := tbl_get subclass_tbl a b.

(* FunctionSignature.matches: the positional loop, then  i == len(args)  or the vararg test
   over ALL arguments. *)
Fixpoint match_pos (sargs : list nat) (ks : list nat) : option (list nat) :=
  match sargs, ks with
  | [], rest => Some rest
  | _ :: _, [] => None
  | t :: sargs', k :: ks' => if isinst k t then match_pos sargs' ks' else None
  end.

Definition sig_matches (s : gsig) (ks : list nat) : bool :=
  match match_pos (g_args s) ks with
  | None => false
  | Some [] => true
  | Some (_ :: _) =>
      match g_vararg s with
      | Some vt => forallb (fun k => isinst k vt) ks
      | None => false
      end
  end.

(* types_below: all(type_below(tA, tB) for tA, tB in zip(A.args, B.args)) — zip truncates *)
Fixpoint zip_all (f : nat -> nat -> bool) (a b : list nat) : bool :=
  match a, b with
  | x :: a', y :: b' => f x y && zip_all f a' b'
  | _, _ => true
  end.
Definition types_below (A B : gsig) : bool := zip_all subcls (g_args A) (g_args B).

(* signatures carry their registration index so that "the same signature" means the same
   registry entry *)
Definition isig := (nat * gsig)%type.

Fixpoint index_from {A} (i : nat) (l : list A) : list (nat * A) :=
  match l with [] => [] | x :: r => (i, x) :: index_from (S i) r end.

(* lookup_function: the registered order filtered by sig_matches *)
Definition lookup (sigs : list isig) (ks : list nat) : list isig :=
  filter (fun s => sig_matches (snd s) ks) sigs.

(* get_closest_match: left-to-right scan *)
Fixpoint scan (closest : isig) (rest : list isig) : isig :=
  match rest with
  | [] => closest
  | h :: r => if types_below (snd h) (snd closest) then scan h r else scan closest r
  end.
Definition closest_match (ms : list isig) : option isig :=
  match ms with [] => None | h :: r => Some (scan h r) end.

Fixpoint assoc {A} (k : string) (l : list (string * A)) : option A :=
  match l with
  | [] => None
  | (k', v) :: r => if String.eqb k k' then Some v else assoc k r
  end.

Definition sigs_of (name : string) : option (list isig) :=
  match assoc name registry with Some l => Some (index_from 0 l) | None => None end.

(* dispatch(), up to the point where the body would run.  kws: keyword name and the kind
   of its value.  The error order is the code's. *)
Inductive decision :=
| Run (impl : string) (index : nat)
| Reject (e : exn).

Fixpoint check_kws (s : gsig) (kws : list (string * nat)) : option exn :=
  match kws with
  | [] => None
  | (k, vk) :: r =>
      match assoc k (g_kws s) with
      | None => Some UnknownKeywordError
      | Some t => if isinst vk t then check_kws s r else Some BadTypeKeywordError
      end
  end.

Definition dispatch_decision (name : string) (ks : list nat) (kws : list (string * nat)) : decision :=
  match sigs_of name with
  | None => Reject UnknownFunctionError
  | Some sigs =>
      match closest_match (lookup sigs ks) with
      | None => Reject NoMatchingFunctionSignatureError
      | Some (i, s) =>
          match check_kws s kws with
          | Some e => Reject e
          | None => Run (g_impl s) i
          end
      end
  end.

(* ---- "unique most specific": a least element, unique as such *)
Definition below (a b : isig) : bool := types_below (snd a) (snd b).
Definition isig_eqb (a b : isig) : bool := Nat.eqb (fst a) (fst b).

Definition is_least (ms : list isig) (L : isig) : bool :=
  forallb (fun m => below L m) ms
  && forallb (fun m => implb (below m L) (isig_eqb m L)) ms.

Definition has_unique_least (ms : list isig) : bool :=
  match ms with
  | [] => true
  | _ => existsb (is_least ms) ms
  end.

(* ---- enumeration of kind tuples *)
Definition nkinds : nat := List.length kind_names.
Fixpoint tuples (n : nat) : list (list nat) :=
  match n with
  | O => [[]]
  | S n' => flat_map (fun k => map (cons k) (tuples n')) (seq 0 nkinds)
  end.
Fixpoint tuples_upto (n : nat) : list (list nat) :=
  match n with
  | O => tuples 0
  | S n' => tuples (S n') ++ tuples_upto n'
  end.

Definition max_arity (sigs : list isig) : nat :=
  fold_right (fun s m => Nat.max (List.length (g_args (snd s))) m) 0 sigs.

Definition name_ok (sigs : list isig) : bool :=
  forallb (fun ks => has_unique_least (lookup sigs ks)) (tuples_upto (S (max_arity sigs))).

Definition registry_ok : bool :=
  forallb (fun e => name_ok (index_from 0 (snd e))) registry.

(* beyond the largest fixed arity only vararg signatures can match; with at most one of
   them per name the choice is trivially unique *)
Definition vararg_count (sigs : list isig) : nat :=
  List.length (filter (fun s => match g_vararg (snd s) with Some _ => true | None => false end) sigs).
Definition varargs_ok : bool :=
  forallb (fun e => Nat.leb (vararg_count (index_from 0 (snd e))) 1) registry.

(* ---- numeric widening facts, by name *)
Fixpoint index_of (s : string) (l : list string) (i : nat) : option nat :=
  match l with
  | [] => None
  | x :: r => if String.eqb s x then Some i else index_of s r (S i)
  end.
Definition kind_ix (s : string) : nat := match index_of s kind_names 0 with Some i => i | None => 999 end.
Definition type_ix (s : string) : nat := match index_of s type_names 0 with Some i => i | None => 999 end.
Definition accepts (kind ty : string) : bool := isinst (kind_ix kind) (type_ix ty).


Definition widening_ok : bool :=
  accepts "int" "Integral" && accepts "int" "Rational" && accepts "int" "Number"
  && accepts "Fraction" "Rational" && accepts "Fraction" "Number"
  && accepts "float" "Number" && accepts "Combinatoric" "Number".
Definition no_narrowing_ok : bool :=
  negb (accepts "Fraction" "Integral") && negb (accepts "float" "Integral")
  && negb (accepts "float" "Rational") && negb (accepts "Combinatoric" "Integral")
  && negb (accepts "Combinatoric" "Rational")
  && negb (accepts "Quantity" "Number") && negb (accepts "str" "Number")
  && negb (accepts "Array" "Number") && negb (accepts "Interval" "Number").

Definition show_decision (d : decision) : string :=
  match d with
  | Run impl i => "R:" ++ show_nat i
  | Reject e => "E:" ++ show_exn e
  end.
