(* Parser.v — ka/parse.py as an executable Gallina model, function by function.
   Definitions only.

   The token pointer of BagOfTokens is the remaining token list; an error carries the number
   of tokens remaining at the reported position (see [PErr]).  Every level of the recursive
   descent is a definition over [pe], the parser used for a nested expression (behind
   "(" "{" "[" "," ":" "in", a call's argument list); [parse_expression] closes the knot on
   explicit fuel.  Loops (operator chains, unit lists, argument lists, array elements,
   clauses, statements) run on their own fuel, 1 + the number of remaining tokens: every
   iteration consumes a token.

   Quirks kept (all observed on the implementation):
   * parse_comparison reads at most two operators, and "=" and "in" are among them;
   * make_comparison_node flips only all-backward chains ([mk_cmp]);
   * an identifier followed by "=" at the start of a statement is an assignment;
   * an identifier followed by ":" in an argument list starts the keyword arguments, and
     after that only keyword arguments are accepted;
   * an identifier followed by "in" at the start of a clause is a generator;
   * after a unit name "^" starts an integer exponent (optional sign, int literal);
   * a unary sign applies to parse_unsigned_term (an atom with at most one "!");
   * string, instant, array and interval atoms are returned by parse_term directly: no sign,
     "!", unit or ".." can be attached to them;
   * "a..b" takes parse_maybe_quantity on both sides and is not repeated. *)
From Ka Require Export Model.Syntax.
Local Open Scope string_scope.
Local Open Scope nat_scope.

Definition parser (A : Type) := list tok -> pres (A * list tok).

Definition err {A} (ts : list tok) : pres A := PErr (List.length ts).

(* ------------------------------------------------------------------ unit signatures *)
(* parse_integer *)
Definition p_integer : parser Z := fun ts =>
  let '(sgn, ts1) := match ts with
                     | KPlus :: r => (1%Z, r)
                     | KMinus :: r => ((-1)%Z, r)
                     | _ => (1%Z, ts)
                     end in
  match ts1 with
  | KNum (ZLit z) :: ts2 => POk ((sgn * z)%Z, ts2)
  | _ => err ts1     (* not a number / end: read(); a non-int number: t.ptr-1 *)
  end.

(* the while loop of parse_units *)
Fixpoint units_loop (fuel : nat) (ts : list tok) : pres (units * list tok) :=
  match fuel with
  | O => PFuel
  | S f =>
      match ts with
      | KVar u :: ts1 =>
          dop (e, ts2) <- (match ts1 with
                           | KExp :: ts1' => p_integer ts1'
                           | _ => POk (1%Z, ts1)
                           end);
          dop (l, ts3) <- units_loop f ts2;
          POk ((u, e) :: l, ts3)
      | _ => POk ([], ts)
      end
  end.

Definition p_units : parser units := fun ts =>
  dop (l, ts1) <- units_loop (S (List.length ts)) ts;
  match l with [] => err ts1 | _ => POk (l, ts1) end.

(* parse_unit_signature *)
Definition p_usig : parser usig := fun ts =>
  dop (us, ts1) <- p_units ts;
  match ts1 with
  | KBar :: ts2 => dop (inv, ts3) <- p_units ts2; POk ((us, inv), ts3)
  | _ => POk ((us, []), ts1)
  end.

(* ------------------------------------------------------------------ operator tables *)
Definition pow_op (t : tok) : option string := match t with KExp => Some (tag_of t) | _ => None end.
Definition mul_op (t : tok) : option string :=
  match t with KMul | KDiv | KMod => Some (tag_of t) | _ => None end.
Definition add_op (t : tok) : option string :=
  match t with KPlus | KMinus | KPm => Some (tag_of t) | _ => None end.

(* parse_binary_op: the while loop, folding to the left *)
Fixpoint binloop (operand : parser ptree) (isop : tok -> option string) (fuel : nat)
         (left : ptree) (ts : list tok) : pres (ptree * list tok) :=
  match fuel with
  | O => PFuel
  | S f =>
      match ts with
      | t :: ts1 =>
          match isop t with
          | Some name =>
              dop (r, ts2) <- operand ts1;
              binloop operand isop f (PCall name [left; r] []) ts2
          | None => POk (left, ts)
          end
      | [] => POk (left, ts)
      end
  end.

Definition binlevel (operand : parser ptree) (isop : tok -> option string) : parser ptree := fun ts =>
  dop (l, ts1) <- operand ts;
  binloop operand isop (S (List.length ts1)) l ts1.

(* make_array_with_condition_node: generators first (in order), then conditions (in order) *)
Definition mk_compr (body : ptree) (cl : list (option string * ptree)) : ptree :=
  PCompr body
    (flat_map (fun c => match fst c with Some x => [(x, snd c)] | None => [] end) cl)
    (flat_map (fun c => match fst c with Some _ => [] | None => [snd c] end) cl).

(* token tests (kept as small functions so that the level definitions stay small terms) *)
Definition starts_rp (ts : list tok) : bool := match ts with KRP :: _ => true | _ => false end.
Definition starts_rbrace (ts : list tok) : bool := match ts with KRBrace :: _ => true | _ => false end.
Definition starts_colon (ts : list tok) : bool := match ts with KColon :: _ => true | _ => false end.
Definition starts_var_colon (ts : list tok) : bool :=
  match ts with KVar _ :: KColon :: _ => true | _ => false end.
(* t.read(",") *)
Definition read_comma (ts : list tok) : pres (list tok) :=
  match ts with KComma :: r => POk r | _ => err ts end.

Section Levels.
  Variable pe : parser ptree.     (* parse_expression for nested expressions *)

  (* parse_positional_args: [first] = "args is empty" *)
  Fixpoint pos_args (fuel : nat) (first : bool) (ts : list tok) : pres (list ptree * list tok) :=
    match fuel with
    | O => PFuel
    | S f =>
        if starts_rp ts then POk ([], ts)
        else
          dop ts1 <- (if first then POk ts else read_comma ts);
          if starts_var_colon ts1 then POk ([], ts1)        (* keyword argument: stop *)
          else
            dop (e, ts2) <- pe ts1;
            dop (l, ts3) <- pos_args f false ts2;
            POk (e :: l, ts3)
    end.

  (* parse_keyword_args: [first] = "kw_args is empty" *)
  Fixpoint kw_args (fuel : nat) (first : bool) (ts : list tok) : pres (list (string * ptree) * list tok) :=
    match fuel with
    | O => PFuel
    | S f =>
        if starts_rp ts then POk ([], ts)
        else
          dop ts1 <- (if first then POk ts else read_comma ts);
          match ts1 with
          | KVar k :: ts2 =>
              match ts2 with
              | KColon :: ts3 =>
                  dop (e, ts4) <- pe ts3;
                  dop (l, ts5) <- kw_args f false ts4;
                  POk ((k, e) :: l, ts5)
              | _ => err ts2
              end
          | _ => err ts1
          end
    end.

  (* parse_function, after the identifier and "(" *)
  Definition p_call (name : string) : parser ptree := fun ts =>
    dop (args, ts1) <- pos_args (S (List.length ts)) true ts;
    dop (kws, ts2) <- kw_args (S (List.length ts1)) true ts1;
    match ts2 with
    | KRP :: ts3 => POk (PCall name args kws, ts3)
    | _ => err ts2
    end.

  (* parse_unsigned_term_without_factorial *)
  Definition p_atom : parser ptree := fun ts =>
    match ts with
    | KLP :: ts1 =>
        dop (e, ts2) <- pe ts1;
        match ts2 with KRP :: ts3 => POk (e, ts3) | _ => err ts2 end
    | KNum n :: ts1 => POk (PNum n, ts1)
    | KVar f :: KLP :: ts1 => p_call f ts1
    | KVar x :: ts1 => POk (PVar x, ts1)
    | _ => err ts
    end.

  (* parse_unsigned_term *)
  Definition p_unsigned : parser ptree := fun ts =>
    dop (t, ts1) <- p_atom ts;
    match ts1 with
    | KBang :: ts2 => POk (PCall "!" [t] [], ts2)
    | _ => POk (t, ts1)
    end.

  (* parse_unitless_term *)
  Definition p_unitless : parser ptree := fun ts =>
    match ts with
    | KPlus :: ts1 => dop (t, ts2) <- p_unsigned ts1; POk (PCall "+" [t] [], ts2)
    | KMinus :: ts1 => dop (t, ts2) <- p_unsigned ts1; POk (PCall "-" [t] [], ts2)
    | _ => p_unsigned ts
    end.

  (* parse_maybe_quantity *)
  Definition p_mq : parser ptree := fun ts =>
    dop (t, ts1) <- p_unitless ts;
    match ts1 with
    | KVar _ :: _ => dop (u, ts2) <- p_usig ts1; POk (PQty t u, ts2)
    | _ => POk (t, ts1)
    end.

  (* parse_maybe_range *)
  Definition p_mr : parser ptree := fun ts =>
    dop (lo, ts1) <- p_mq ts;
    match ts1 with
    | KDots :: ts2 => dop (hi, ts3) <- p_mq ts2; POk (PCall "range" [lo; hi] [], ts3)
    | _ => POk (lo, ts1)
    end.

  (* parse_clause *)
  Definition p_clause : parser (option string * ptree) := fun ts =>
    match ts with
    | KVar x :: KIn :: ts1 => dop (e, ts2) <- pe ts1; POk ((Some x, e), ts2)
    | _ => dop (e, ts1) <- pe ts; POk ((None, e), ts1)
    end.

  (* while next is ",": read it and parse one more [item] *)
  Fixpoint comma_loop {A} (item : parser A) (fuel : nat) (ts : list tok) : pres (list A * list tok) :=
    match fuel with
    | O => PFuel
    | S f =>
        match ts with
        | KComma :: ts1 =>
            dop (c, ts2) <- item ts1;
            dop (l, ts3) <- comma_loop item f ts2;
            POk (c :: l, ts3)
        | _ => POk ([], ts)
        end
    end.

  (* parse_array, after "{" *)
  Definition p_array : parser ptree := fun ts =>
    if starts_rbrace ts then POk (PArr [], tl ts)
    else
      dop (x, ts1) <- pe ts;
      if starts_colon ts1 then
        dop (c, ts3) <- p_clause (tl ts1);
        dop (cl, ts4) <- comma_loop p_clause (S (List.length ts3)) ts3;
        match ts4 with
        | KRBrace :: ts5 => POk (mk_compr x (c :: cl), ts5)
        | _ => err ts4
        end
      else
        dop (xs, ts2) <- comma_loop pe (S (List.length ts1)) ts1;
        match ts2 with
        | KRBrace :: ts3 => POk (PArr (x :: xs), ts3)
        | _ => err ts2
        end.

  (* parse_interval, after "[" *)
  Definition p_interval : parser ptree := fun ts =>
    dop (lo, ts1) <- pe ts;
    match ts1 with
    | KComma :: ts2 =>
        dop (hi, ts3) <- pe ts2;
        match ts3 with
        | KRBrack :: ts4 => POk (PCall "interval" [lo; hi] [], ts4)
        | _ => err ts3
        end
    | _ => err ts1
    end.

  (* parse_term *)
  Definition p_term : parser ptree := fun ts =>
    match ts with
    | KStr s :: ts1 => POk (PStr s, ts1)
    | KInst s :: ts1 => POk (PInst s, ts1)
    | KLBrace :: ts1 => p_array ts1
    | KLBrack :: ts1 => p_interval ts1
    | _ => p_mr ts
    end.

  Definition p_factor : parser ptree := binlevel p_term pow_op.
  Definition p_product : parser ptree := binlevel p_factor mul_op.
  Definition p_sum : parser ptree := binlevel p_product add_op.

  (* parse_comparison: for _ in range(2) *)
  Definition p_cmp : parser ptree := fun ts =>
    dop (a, ts1) <- p_sum ts;
    match ts1 with
    | t1 :: ts2 =>
        match cmp_of_tok t1 with
        | Some o1 =>
            dop (b, ts3) <- p_sum ts2;
            match ts3 with
            | t2 :: ts4 =>
                match cmp_of_tok t2 with
                | Some o2 =>
                    dop (c, ts5) <- p_sum ts4;
                    POk (mk_cmp [a; b; c] [o1; o2], ts5)
                | None => POk (mk_cmp [a; b] [o1], ts3)
                end
            | [] => POk (mk_cmp [a; b] [o1], ts3)
            end
        | None => POk (a, ts1)
        end
    | [] => POk (a, ts1)
    end.

  (* parse_expression / parse_unit_convert *)
  Definition p_expr : parser ptree := fun ts =>
    dop (c, ts1) <- p_cmp ts;
    match ts1 with
    | KTo :: ts2 => dop (u, ts3) <- p_usig ts2; POk (PConv c u, ts3)
    | _ => POk (c, ts1)
    end.

  (* the levels by number, tightest first (used by the proofs and the printer's rule table) *)
  Definition p_level (L : nat) : parser ptree :=
    match L with
    | 0 => p_atom | 1 => p_unsigned | 2 => p_unitless | 3 => p_mq | 4 => p_mr | 5 => p_term
    | 6 => p_factor | 7 => p_product | 8 => p_sum | 9 => p_cmp | _ => p_expr
    end.

  (* parse_statement / parse_assignment *)
  Definition p_statement : parser ptree := fun ts =>
    match ts with
    | KVar x :: KAssign :: ts1 => dop (e, ts2) <- p_expr ts1; POk (PAssign x e, ts2)
    | _ => p_expr ts
    end.
End Levels.

Fixpoint parse_expression (fuel : nat) (ts : list tok) : pres (ptree * list tok) :=
  match fuel with
  | O => PFuel
  | S f => p_expr (parse_expression f) ts
  end.

(* parse_statements: the while loop *)
Fixpoint stmts_loop (efuel : nat) (fuel : nat) (ts : list tok) : pres (list ptree) :=
  match fuel with
  | O => PFuel
  | S f =>
      match ts with
      | [] => POk []
      | _ =>
          dop (s, ts1) <- p_statement (parse_expression efuel) ts;
          match ts1 with
          | [] => POk [s]
          | KSemi :: ts2 => dop l <- stmts_loop efuel f ts2; POk (s :: l)
          | _ => err ts1
          end
      end
  end.

(* parse_tokens with explicit fuels *)
Definition parse_with (efuel : nat) (ts : list tok) : pres ptree :=
  match stmts_loop efuel (S (List.length ts)) ts with
  | POk l => POk (PStmts l)
  | PErr k => PErr k
  | PFuel => PFuel
  end.

(* parse_tokens; the outcome with the error's token index *)
Definition parse_idx (ts : list tok) : pres ptree := parse_with (List.length ts) ts.

Definition parse (ts : list tok) : res ptree :=
  match parse_idx ts with
  | POk t => Ok t
  | PErr _ => Raise ParsingError
  | PFuel => Raise OutOfFuel
  end.

(* text of an outcome: the tree, or "E<token index>" *)
Definition show_parse (ts : list tok) : string :=
  match parse_idx ts with
  | POk t => show_ptree t
  | PErr k => "E" ++ show_nat (List.length ts - k)
  | PFuel => "OutOfFuel"
  end.
