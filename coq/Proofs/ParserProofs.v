(* ParserProofs.v — C02, part 1: follow sets, passing a result up through the levels, the
   left-folding operator loop ([loop_correct]), unit signatures. *)
From Coq Require Import Lia List Arith.
From Ka Require Import Model.Parser Model.Printer.
Local Open Scope nat_scope.

(* ------------------------------------------------------------------ follow sets
   [tok_level t]: the level whose parser consumes t when t follows a complete operand
   ("!" 1, identifier 3 (unit attachment), ".." 4, "^" 6, "* / %" 7, "+ - ±" 8, the eight
   comparison tags 9, "to" 10).  "(" and "|" get 0: they never follow an operand in printed
   text ("(" after an identifier would make it a call, "|" belongs to a unit signature).
   Everything else (closing brackets, separators, literals) is consumed by no level: 11. *)
Definition tok_level (t : tok) : nat :=
  match t with
  | KLP | KBar => 0
  | KBang => 1
  | KVar _ => 3
  | KDots => 4
  | KExp => 6
  | KMul | KDiv | KMod => 7
  | KPlus | KMinus | KPm => 8
  | KEq | KNeq | KLt | KGt | KLeq | KGeq | KAssign | KIn => 9
  | KTo => 10
  | _ => 11
  end.

(* the continuation [rest] does not start with a token that level L or a tighter one consumes *)
Definition follow (L : nat) (rest : list tok) : Prop :=
  match rest with [] => True | t :: _ => L < tok_level t end.

(* ... and does not start with "^" (needed after a unit signature) *)
Definition nexp (rest : list tok) : Prop :=
  match rest with KExp :: _ => False | _ => True end.

Lemma follow_mono L L' rest : L <= L' -> follow L' rest -> follow L rest.
Proof. destruct rest; simpl; intros; [exact I | lia]. Qed.

Lemma follow_nexp L rest : 6 <= L -> follow L rest -> nexp rest.
Proof. destruct rest as [|t r]; simpl; [tauto|]. destruct t; simpl; intros; try exact I; lia. Qed.

Lemma follow_nil L : follow L []. Proof. exact I. Qed.

(* how a token list starts *)
Definition nosign (ts : list tok) : Prop :=
  match ts with KPlus :: _ | KMinus :: _ => False | _ => True end.
Definition notermatom (ts : list tok) : Prop :=
  match ts with KStr _ :: _ | KInst _ :: _ | KLBrace :: _ | KLBrack :: _ => False | _ => True end.

Lemma pbind_ok {A B} (r : pres A) (f : A -> pres B) a : r = POk a -> pbind r f = f a.
Proof. intros ->. reflexivity. Qed.

(* ------------------------------------------------------------------ the operator loop *)
Definition noop (isop : tok -> option string) (rest : list tok) : Prop :=
  match rest with [] => True | t :: _ => isop t = None end.

Lemma binloop_stop operand isop f acc rest :
  noop isop rest -> binloop operand isop (S f) acc rest = POk (acc, rest).
Proof. destruct rest as [|t r]; simpl; [reflexivity|]. intros ->. reflexivity. Qed.

(* LEFT FOLDING.  The loop, started with the tree [acc] on the printed items
   op1 x1 op2 x2 ... opn xn followed by [rest], returns ((acc op1 x1) op2 x2) ... opn xn:
   every binary operator is left-associative.  [items]: (operator token, printed operand,
   tree of the operand); [items_ok]: every operand parses to its tree in front of what
   actually follows it (the remaining items, then [rest]). *)
Definition item := (tok * list tok * ptree)%type.

Definition flat_items (items : list item) : list tok :=
  flat_map (fun it => fst (fst it) :: snd (fst it)) items.

Definition fold_items (isop : tok -> option string) (items : list item) (acc : ptree) : ptree :=
  fold_left (fun a it => match isop (fst (fst it)) with
                         | Some name => PCall name [a; snd it] []
                         | None => a
                         end) items acc.

Fixpoint items_ok (operand : parser ptree) (isop : tok -> option string) (rest : list tok)
         (items : list item) : Prop :=
  match items with
  | [] => True
  | it :: more =>
      isop (fst (fst it)) <> None /\
      operand (snd (fst it) ++ flat_items more ++ rest) = POk (snd it, flat_items more ++ rest) /\
      items_ok operand isop rest more
  end.

Lemma loop_correct (operand : parser ptree) isop rest :
  noop isop rest ->
  forall items, items_ok operand isop rest items ->
  forall acc fuel,
  List.length (flat_items items ++ rest) < fuel ->
  binloop operand isop fuel acc (flat_items items ++ rest) = POk (fold_items isop items acc, rest).
Proof.
  intros Hrest items. induction items as [|[[t ts] tr] items IH]; intros Hok acc fuel Hf.
  - simpl in *. destruct fuel as [|f]; [lia|]. apply binloop_stop; assumption.
  - destruct Hok as (Hop & Hx & Hok). simpl in Hop, Hx. destruct fuel as [|f]; [simpl in Hf; lia|].
    change (flat_items ((t, ts, tr) :: items) ++ rest) with ((t :: ts ++ flat_items items) ++ rest).
    simpl. destruct (isop t) as [name|] eqn:E; [|congruence].
    rewrite <- app_assoc. rewrite Hx. cbn [pbind].
    unfold fold_items at 1. simpl. apply IH; [exact Hok|].
    simpl in Hf. rewrite !app_length in Hf. rewrite app_length. lia.
Qed.

Lemma binlevel_correct (operand : parser ptree) isop rest hd_ts hd_tr items :
  noop isop rest ->
  operand (hd_ts ++ flat_items items ++ rest) = POk (hd_tr, flat_items items ++ rest) ->
  items_ok operand isop rest items ->
  binlevel operand isop (hd_ts ++ flat_items items ++ rest) = POk (fold_items isop items hd_tr, rest).
Proof.
  intros Hrest Hhd Hok. unfold binlevel. rewrite Hhd. cbn [pbind].
  apply loop_correct; try assumption. lia.
Qed.

(* what follows an item list: an operator of the level, or [rest] *)
Lemma items_head operand isop rest items :
  items_ok operand isop rest items -> items <> [] ->
  exists t k, flat_items items ++ rest = t :: k /\ isop t <> None.
Proof.
  destruct items as [|[[t ts] tr] more]; [congruence|]. intros (Hop & _) _.
  exists t, (ts ++ flat_items more ++ rest). split; [|exact Hop].
  simpl. rewrite <- app_assoc. reflexivity.
Qed.

(* ------------------------------------------------------------------ passing a result upwards *)
Section Lift.
  Variable pe : parser ptree.

  Lemma lift_0_1 ts t rest :
    p_atom pe ts = POk (t, rest) -> follow 1 rest -> p_unsigned pe ts = POk (t, rest).
  Proof.
    intros H F. unfold p_unsigned. rewrite H. simpl.
    destruct rest as [|k r]; [reflexivity|]. destruct k; simpl in F; try lia; reflexivity.
  Qed.

  Lemma lift_1_2 ts t rest :
    p_unsigned pe ts = POk (t, rest) -> nosign ts -> p_unitless pe ts = POk (t, rest).
  Proof.
    intros H S. unfold p_unitless.
    destruct ts as [|k r]; [exact H|]. destruct k; simpl in S; try contradiction; exact H.
  Qed.

  Lemma lift_2_3 ts t rest :
    p_unitless pe ts = POk (t, rest) -> follow 3 rest -> p_mq pe ts = POk (t, rest).
  Proof.
    intros H F. unfold p_mq. rewrite H. simpl.
    destruct rest as [|k r]; [reflexivity|]. destruct k; simpl in F; try lia; reflexivity.
  Qed.

  Lemma lift_3_4 ts t rest :
    p_mq pe ts = POk (t, rest) -> follow 4 rest -> p_mr pe ts = POk (t, rest).
  Proof.
    intros H F. unfold p_mr. rewrite H. simpl.
    destruct rest as [|k r]; [reflexivity|]. destruct k; simpl in F; try lia; reflexivity.
  Qed.

  Lemma lift_4_5 ts t rest :
    p_mr pe ts = POk (t, rest) -> notermatom ts -> p_term pe ts = POk (t, rest).
  Proof.
    intros H S. unfold p_term.
    destruct ts as [|k r]; [exact H|]. destruct k; simpl in S; try contradiction; exact H.
  Qed.

  Lemma lift_bin operand isop ts t rest :
    operand ts = POk (t, rest) -> noop isop rest -> binlevel operand isop ts = POk (t, rest).
  Proof. intros H N. unfold binlevel. rewrite H. simpl. apply binloop_stop. exact N. Qed.

  Lemma noop_pow rest : follow 6 rest -> noop pow_op rest.
  Proof. destruct rest as [|k r]; simpl; [tauto|]. destruct k; simpl; intros; try reflexivity; lia. Qed.
  Lemma noop_mul rest : follow 7 rest -> noop mul_op rest.
  Proof. destruct rest as [|k r]; simpl; [tauto|]. destruct k; simpl; intros; try reflexivity; lia. Qed.
  Lemma noop_add rest : follow 8 rest -> noop add_op rest.
  Proof. destruct rest as [|k r]; simpl; [tauto|]. destruct k; simpl; intros; try reflexivity; lia. Qed.

  Lemma lift_8_9 ts t rest :
    p_sum pe ts = POk (t, rest) -> follow 9 rest -> p_cmp pe ts = POk (t, rest).
  Proof.
    intros H F. unfold p_cmp. rewrite H. simpl.
    destruct rest as [|k r]; [reflexivity|]. destruct k; simpl in F; try lia; reflexivity.
  Qed.

  Lemma lift_9_10 ts t rest :
    p_cmp pe ts = POk (t, rest) -> follow 10 rest -> p_expr pe ts = POk (t, rest).
  Proof.
    intros H F. unfold p_expr. rewrite H. simpl.
    destruct rest as [|k r]; [reflexivity|]. destruct k; simpl in F; try lia; reflexivity.
  Qed.

  (* one step *)
  Lemma lift_step L ts t rest :
    p_level pe L ts = POk (t, rest) ->
    (L = 1 -> nosign ts) -> (L = 4 -> notermatom ts) -> follow (S L) rest ->
    p_level pe (S L) ts = POk (t, rest).
  Proof.
    intros H S1 S4 F.
    destruct L as [|[|[|[|[|[|[|[|[|[|L]]]]]]]]]]; simpl in *.
    - apply lift_0_1; assumption.
    - apply lift_1_2; auto.
    - apply lift_2_3; assumption.
    - apply lift_3_4; assumption.
    - apply lift_4_5; auto.
    - apply lift_bin; [assumption | apply noop_pow; assumption].
    - apply lift_bin; [assumption | apply noop_mul; assumption].
    - apply lift_bin; [assumption | apply noop_add; assumption].
    - apply lift_8_9; assumption.
    - apply lift_9_10; assumption.
    - exact H.
  Qed.

  (* any number of steps *)
  Lemma lift_up L L' ts t rest :
    L <= L' ->
    p_level pe L ts = POk (t, rest) ->
    (L <= 1 -> 2 <= L' -> nosign ts) -> (L <= 4 -> 5 <= L' -> notermatom ts) -> follow L' rest ->
    p_level pe L' ts = POk (t, rest).
  Proof.
    intros HL H S1 S4 F. induction HL as [|L' HL IH].
    - exact H.
    - apply lift_step.
      + apply IH; [intros; apply S1; lia | intros; apply S4; lia | apply (follow_mono _ (S L')); [lia | exact F]].
      + intros ->. apply S1; lia.
      + intros ->. apply S4; lia.
      + exact F.
  Qed.
End Lift.

(* ------------------------------------------------------------------ unit signatures *)
Definition usig_follow (k : list tok) : Prop :=
  match k with KVar _ :: _ | KExp :: _ | KBar :: _ => False | _ => True end.
Definition nounit (k : list tok) : Prop :=
  match k with KVar _ :: _ | KExp :: _ => False | _ => True end.

Lemma usig_follow_of L k : 3 <= L -> follow L k -> nexp k -> usig_follow k.
Proof. destruct k as [|t r]; simpl; [tauto|]. destruct t; simpl; intros; try exact I; try lia; try contradiction. Qed.

Lemma p_integer_neg z k : p_integer (KMinus :: KNum (ZLit z) :: k) = POk ((-1 * z)%Z, k).
Proof. reflexivity. Qed.
Lemma p_integer_pos z k : p_integer (KNum (ZLit z) :: k) = POk ((1 * z)%Z, k).
Proof. reflexivity. Qed.

Lemma unit_step f u z k :
  (match k with KExp :: _ => False | _ => True end) ->
  units_loop (S f) (KVar u :: pr_exp z ++ k) = dop (l, ts3) <- units_loop f k; POk ((u, z) :: l, ts3).
Proof.
  intros Hk. unfold pr_exp. destruct (Z.eqb_spec z 1) as [->|Hz].
  - simpl. destruct k as [|t r]; [reflexivity|]. destruct t; try reflexivity. contradiction.
  - destruct (Z.ltb_spec z 0) as [Hneg|Hpos].
    + change (units_loop (S f) (KVar u :: [KExp; KMinus; KNum (ZLit (- z))] ++ k))
        with (dop (e, ts2) <- p_integer (KMinus :: KNum (ZLit (- z)) :: k);
              dop (l, ts3) <- units_loop f ts2; POk ((u, e) :: l, ts3)).
      rewrite p_integer_neg. cbn [pbind]. replace (- 1 * - z)%Z with z by lia. reflexivity.
    + change (units_loop (S f) (KVar u :: [KExp; KNum (ZLit z)] ++ k))
        with (dop (e, ts2) <- p_integer (KNum (ZLit z) :: k);
              dop (l, ts3) <- units_loop f ts2; POk ((u, e) :: l, ts3)).
      rewrite p_integer_pos. cbn [pbind]. replace (1 * z)%Z with z by lia. reflexivity.
Qed.

Lemma pr_units_head us k : nounit k -> (match pr_units us ++ k with KExp :: _ => False | _ => True end).
Proof.
  destruct us as [|[u z] us]; simpl.
  - destruct k as [|t r]; [tauto|]. destruct t; simpl; tauto.
  - tauto.
Qed.

Lemma units_loop_ok : forall us k fuel,
  List.length (pr_units us ++ k) < fuel -> nounit k ->
  units_loop fuel (pr_units us ++ k) = POk (us, k).
Proof.
  induction us as [|[u z] us IH]; intros k fuel Hf Hk.
  - simpl in *. destruct fuel as [|f]; [lia|]. simpl.
    destruct k as [|t r]; [reflexivity|]. destruct t; try reflexivity. contradiction.
  - destruct fuel as [|f]; [simpl in Hf; lia|].
    change (pr_units ((u, z) :: us) ++ k) with ((KVar u :: pr_exp z ++ pr_units us) ++ k) in *.
    simpl app in *. rewrite <- app_assoc in *.
    rewrite unit_step; [|apply pr_units_head; exact Hk].
    rewrite IH; [reflexivity| |exact Hk].
    simpl in Hf. rewrite app_length in Hf. lia.
Qed.

Lemma p_units_ok us k : us <> [] -> nounit k -> p_units (pr_units us ++ k) = POk (us, k).
Proof.
  intros NE Hk. unfold p_units. rewrite units_loop_ok; [|lia|exact Hk].
  cbn [pbind]. destruct us; [congruence|reflexivity].
Qed.

Lemma p_usig_ok u k : usig_ok u = true -> usig_follow k -> p_usig (pr_usig u ++ k) = POk (u, k).
Proof.
  destruct u as [us inv]. unfold usig_ok, pr_usig. simpl fst. simpl snd. intros OK Hk.
  assert (NE : us <> []) by (destruct us; [discriminate|congruence]).
  assert (Hn : nounit k) by (destruct k as [|t r]; [exact I|]; destruct t; simpl in *; tauto).
  unfold p_usig. rewrite <- app_assoc.
  destruct inv as [|i inv'].
  - simpl app. rewrite (p_units_ok us k NE Hn). cbn [pbind].
    destruct k as [|t r]; [reflexivity|]. destruct t; try reflexivity. contradiction.
  - cbn [app]. rewrite (p_units_ok us _ NE); [|exact I]. cbn [pbind].
    rewrite (p_units_ok (i :: inv') k); [reflexivity|congruence|exact Hn].
Qed.

(* ------------------------------------------------------------------ comma-separated lists
   [entries]: (printed item, its result); [cflat]: ", item , item ..." *)
Definition cflat {A} (xs : list (list tok * A)) : list tok := flat_map (fun x => KComma :: fst x) xs.

Fixpoint centries_ok {A} (item : parser A) (k : list tok) (xs : list (list tok * A)) : Prop :=
  match xs with
  | [] => True
  | x :: more =>
      item (fst x ++ cflat more ++ k) = POk (snd x, cflat more ++ k) /\ centries_ok item k more
  end.

Definition nocomma (k : list tok) : Prop := match k with KComma :: _ => False | _ => True end.

Lemma comma_loop_ok {A} (item : parser A) k : nocomma k ->
  forall xs, centries_ok item k xs ->
  forall fuel, List.length (cflat xs ++ k) < fuel ->
  comma_loop item fuel (cflat xs ++ k) = POk (map snd xs, k).
Proof.
  intros Hk. induction xs as [|[ts a] more IH]; intros Hok fuel Hf.
  - simpl in *. destruct fuel as [|f]; [lia|]. simpl.
    destruct k as [|t r]; [reflexivity|]. destruct t; try reflexivity. contradiction.
  - destruct Hok as [Hx Hok]. simpl in Hx. destruct fuel as [|f]; [simpl in Hf; lia|].
    change (cflat ((ts, a) :: more) ++ k) with ((KComma :: ts ++ cflat more) ++ k) in *.
    simpl app in *. rewrite <- app_assoc in *. simpl comma_loop. rewrite Hx. cbn [pbind].
    rewrite IH; [reflexivity|exact Hok|]. simpl in Hf. rewrite app_length in Hf. lia.
Qed.

Lemma cflat_follow {A} (xs : list (list tok * A)) k : follow 10 k -> follow 10 (cflat xs ++ k).
Proof. destruct xs as [|x more]; simpl; [tauto|]. intros _. lia. Qed.

Lemma join_cons sep x l : join sep (x :: l) = x ++ flat_map (fun y => sep :: y) l.
Proof.
  revert x. induction l as [|y l IH]; intros x.
  - simpl. rewrite app_nil_r. reflexivity.
  - change (join sep (x :: y :: l)) with (x ++ sep :: join sep (y :: l)). rewrite IH. reflexivity.
Qed.

Lemma cflat_map {A B} (f : B -> list tok) (g : B -> A) (l : list B) :
  flat_map (fun y => KComma :: y) (map f l) = cflat (map (fun b => (f b, g b)) l).
Proof. induction l as [|b l IH]; simpl; [reflexivity|]. rewrite IH. reflexivity. Qed.

(* ------------------------------------------------------------------ argument lists *)
Section Args.
  Variable pe : parser ptree.

  (* positional arguments after the first: ", a , a ..." in front of ")" or of ", k : ..." *)
  Fixpoint pentries_ok (k : list tok) (xs : list (list tok * ptree)) : Prop :=
    match xs with
    | [] => True
    | x :: more =>
        pe (fst x ++ cflat more ++ k) = POk (snd x, cflat more ++ k) /\
        starts_var_colon (fst x ++ cflat more ++ k) = false /\
        pentries_ok k more
    end.

  Lemma pos_tail_rp xs r : pentries_ok (KRP :: r) xs ->
    forall fuel, List.length (cflat xs ++ KRP :: r) < fuel ->
    pos_args pe fuel false (cflat xs ++ KRP :: r) = POk (map snd xs, KRP :: r).
  Proof.
    induction xs as [|[ts a] more IH]; intros Hok fuel Hf.
    - destruct fuel as [|f]; [simpl in Hf; lia|]. reflexivity.
    - destruct Hok as (Hx & Hvc & Hok). simpl in Hx, Hvc. destruct fuel as [|f]; [simpl in Hf; lia|].
      change (cflat ((ts, a) :: more) ++ KRP :: r) with ((KComma :: ts ++ cflat more) ++ KRP :: r) in *.
      simpl app in *. rewrite <- app_assoc in *.
      simpl pos_args. rewrite Hvc, Hx. cbn [pbind].
      rewrite IH; [reflexivity|exact Hok|]. simpl in Hf. rewrite app_length in Hf. lia.
  Qed.

  Lemma pos_tail_kw xs kn y : pentries_ok (KComma :: KVar kn :: KColon :: y) xs ->
    forall fuel, List.length (cflat xs ++ KComma :: KVar kn :: KColon :: y) < fuel ->
    pos_args pe fuel false (cflat xs ++ KComma :: KVar kn :: KColon :: y)
    = POk (map snd xs, KVar kn :: KColon :: y).
  Proof.
    induction xs as [|[ts a] more IH]; intros Hok fuel Hf.
    - destruct fuel as [|f]; [simpl in Hf; lia|]. reflexivity.
    - destruct Hok as (Hx & Hvc & Hok). simpl in Hx, Hvc. destruct fuel as [|f]; [simpl in Hf; lia|].
      change (cflat ((ts, a) :: more) ++ KComma :: KVar kn :: KColon :: y)
        with ((KComma :: ts ++ cflat more) ++ KComma :: KVar kn :: KColon :: y) in *.
      simpl app in *. rewrite <- app_assoc in *.
      simpl pos_args. rewrite Hvc, Hx. cbn [pbind].
      rewrite IH; [reflexivity|exact Hok|]. simpl in Hf. rewrite app_length in Hf. lia.
  Qed.

  (* keyword arguments: "k : v" entries *)
  Definition kflat (xs : list (string * list tok * ptree)) : list tok :=
    flat_map (fun x => KComma :: KVar (fst (fst x)) :: KColon :: snd (fst x)) xs.

  Fixpoint kentries_ok (k : list tok) (xs : list (string * list tok * ptree)) : Prop :=
    match xs with
    | [] => True
    | x :: more =>
        pe (snd (fst x) ++ kflat more ++ k) = POk (snd x, kflat more ++ k) /\ kentries_ok k more
    end.

  Lemma kw_tail xs r : kentries_ok (KRP :: r) xs ->
    forall fuel, List.length (kflat xs ++ KRP :: r) < fuel ->
    kw_args pe fuel false (kflat xs ++ KRP :: r)
    = POk (map (fun x => (fst (fst x), snd x)) xs, KRP :: r).
  Proof.
    induction xs as [|[[kn ts] a] more IH]; intros Hok fuel Hf.
    - destruct fuel as [|f]; [simpl in Hf; lia|]. reflexivity.
    - destruct Hok as (Hx & Hok). simpl in Hx. destruct fuel as [|f]; [simpl in Hf; lia|].
      change (kflat ((kn, ts, a) :: more) ++ KRP :: r)
        with ((KComma :: KVar kn :: KColon :: ts ++ kflat more) ++ KRP :: r) in *.
      simpl app in *. rewrite <- app_assoc in *.
      simpl kw_args. rewrite Hx. cbn [pbind].
      rewrite IH; [reflexivity|exact Hok|]. simpl in Hf. rewrite app_length in Hf. lia.
  Qed.

  Lemma kflat_follow xs r : follow 10 (kflat xs ++ KRP :: r).
  Proof. destruct xs as [|x more]; simpl; lia. Qed.
End Args.
