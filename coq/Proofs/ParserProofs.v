(* ParserProofs.v — C02, part 1: follow sets, passing a result up through the levels, the
   left-folding operator loop ([loop_correct]), unit signatures. *)
From Coq Require Import Lia List Arith.
From Ka Require Import Model.Parser Model.Printer.
Local Open Scope nat_scope.

(* ------------------------------------------------------------------ follow sets
   [tok_level t]: the level whose parser consumes t when t follows a complete operand
   ("!" 1, identifier 3 (unit attachment), ".." 4, "^" 6, "* / %" 7, "+ - ±" 8, the eight
   comparison tags 9, "to" 10).  "(" and "|" get 0: they never follow an operand in printed
   text ("(" after an identifier would make it a call, "|" belongs to a unit signature).
   Everything else (closing brackets, separators, literals) is consumed by no level: 11. *)
Definition tok_level (t : tok) : nat :=
  match t with
  | KLP | KBar => 0
  | KBang => 1
  | KVar _ => 3
  | KDots => 4
  | KExp => 6
  | KMul | KDiv | KMod => 7
  | KPlus | KMinus | KPm => 8
  | KEq | KNeq | KLt | KGt | KLeq | KGeq | KAssign | KIn => 9
  | KTo => 10
  | _ => 11
  end.

(* the continuation [rest] does not start with a token that level L or a tighter one consumes *)
Definition follow (L : nat) (rest : list tok) : Prop :=
  match rest with [] => True | t :: _ => L < tok_level t end.

(* ... and does not start with "^" (needed after a unit signature) *)
Definition nexp (rest : list tok) : Prop :=
  match rest with KExp :: _ => False | _ => True end.

Lemma follow_mono L L' rest : L <= L' -> follow L' rest -> follow L rest.
Proof. destruct rest; simpl; intros; [exact I | lia]. Qed.

Lemma follow_nexp L rest : 6 <= L -> follow L rest -> nexp rest.
Proof. destruct rest as [|t r]; simpl; [tauto|]. destruct t; simpl; intros; try exact I; lia. Qed.

Lemma follow_nil L : follow L []. Proof. exact I. Qed.

(* how a token list starts *)
Definition nosign (ts : list tok) : Prop :=
  match ts with KPlus :: _ | KMinus :: _ => False | _ => True end.
Definition notermatom (ts : list tok) : Prop :=
  match ts with KStr _ :: _ | KInst _ :: _ | KLBrace :: _ | KLBrack :: _ => False | _ => True end.

Lemma pbind_ok {A B} (r : pres A) (f : A -> pres B) a : r = POk a -> pbind r f = f a.
Proof. intros ->. reflexivity. Qed.

(* ------------------------------------------------------------------ the operator loop *)
Definition noop (isop : tok -> option string) (rest : list tok) : Prop :=
  match rest with [] => True | t :: _ => isop t = None end.

Lemma binloop_stop operand isop f acc rest :
  noop isop rest -> binloop operand isop (S f) acc rest = POk (acc, rest).
Proof. destruct rest as [|t r]; simpl; [reflexivity|]. intros ->. reflexivity. Qed.

(* LEFT FOLDING.  The loop, started with the tree [acc] on the printed items
   op1 x1 op2 x2 ... opn xn followed by [rest], returns ((acc op1 x1) op2 x2) ... opn xn:
   every binary operator is left-associative.  [items]: (operator token, printed operand,
   tree of the operand); [items_ok]: every operand parses to its tree in front of what
   actually follows it (the remaining items, then [rest]). *)
Definition item := (tok * list tok * ptree)%type.

Definition flat_items (items : list item) : list tok :=
  flat_map (fun it => fst (fst it) :: snd (fst it)) items.

Definition fold_items (isop : tok -> option string) (items : list item) (acc : ptree) : ptree :=
  fold_left (fun a it => match isop (fst (fst it)) with
                         | Some name => PCall name [a; snd it] []
                         | None => a
                         end) items acc.

Fixpoint items_ok (operand : parser ptree) (isop : tok -> option string) (rest : list tok)
         (items : list item) : Prop :=
  match items with
  | [] => True
  | it :: more =>
      isop (fst (fst it)) <> None /\
      operand (snd (fst it) ++ flat_items more ++ rest) = POk (snd it, flat_items more ++ rest) /\
      items_ok operand isop rest more
  end.

Lemma loop_correct (operand : parser ptree) isop rest :
  noop isop rest ->
  forall items, items_ok operand isop rest items ->
  forall acc fuel,
  List.length (flat_items items ++ rest) < fuel ->
  binloop operand isop fuel acc (flat_items items ++ rest) = POk (fold_items isop items acc, rest).
Proof.
  intros Hrest items. induction items as [|[[t ts] tr] items IH]; intros Hok acc fuel Hf.
  - simpl in *. destruct fuel as [|f]; [lia|]. apply binloop_stop; assumption.
  - destruct Hok as (Hop & Hx & Hok). simpl in Hop, Hx. destruct fuel as [|f]; [simpl in Hf; lia|].
    change (flat_items ((t, ts, tr) :: items) ++ rest) with ((t :: ts ++ flat_items items) ++ rest).
    simpl. destruct (isop t) as [name|] eqn:E; [|congruence].
    rewrite <- app_assoc. rewrite Hx. cbn [pbind].
    unfold fold_items at 1. simpl. apply IH; [exact Hok|].
    simpl in Hf. rewrite !app_length in Hf. rewrite app_length. lia.
Qed.

Lemma binlevel_correct (operand : parser ptree) isop rest hd_ts hd_tr items :
  noop isop rest ->
  operand (hd_ts ++ flat_items items ++ rest) = POk (hd_tr, flat_items items ++ rest) ->
  items_ok operand isop rest items ->
  binlevel operand isop (hd_ts ++ flat_items items ++ rest) = POk (fold_items isop items hd_tr, rest).
Proof.
  intros Hrest Hhd Hok. unfold binlevel. rewrite Hhd. cbn [pbind].
  apply loop_correct; try assumption. lia.
Qed.

(* what follows an item list: an operator of the level, or [rest] *)
Lemma items_head operand isop rest items :
  items_ok operand isop rest items -> items <> [] ->
  exists t k, flat_items items ++ rest = t :: k /\ isop t <> None.
Proof.
  destruct items as [|[[t ts] tr] more]; [congruence|]. intros (Hop & _) _.
  exists t, (ts ++ flat_items more ++ rest). split; [|exact Hop].
  simpl. rewrite <- app_assoc. reflexivity.
Qed.

(* ------------------------------------------------------------------ passing a result upwards *)
Section Lift.
  Variable pe : parser ptree.

  Lemma lift_0_1 ts t rest :
    p_atom pe ts = POk (t, rest) -> follow 1 rest -> p_unsigned pe ts = POk (t, rest).
  Proof.
    intros H F. unfold p_unsigned. rewrite H. simpl.
    destruct rest as [|k r]; [reflexivity|]. destruct k; simpl in F; try lia; reflexivity.
  Qed.

  Lemma lift_1_2 ts t rest :
    p_unsigned pe ts = POk (t, rest) -> nosign ts -> p_unitless pe ts = POk (t, rest).
  Proof.
    intros H S. unfold p_unitless.
    destruct ts as [|k r]; [exact H|]. destruct k; simpl in S; try contradiction; exact H.
  Qed.

  Lemma lift_2_3 ts t rest :
    p_unitless pe ts = POk (t, rest) -> follow 3 rest -> p_mq pe ts = POk (t, rest).
  Proof.
    intros H F. unfold p_mq. rewrite H. simpl.
    destruct rest as [|k r]; [reflexivity|]. destruct k; simpl in F; try lia; reflexivity.
  Qed.

  Lemma lift_3_4 ts t rest :
    p_mq pe ts = POk (t, rest) -> follow 4 rest -> p_mr pe ts = POk (t, rest).
  Proof.
    intros H F. unfold p_mr. rewrite H. simpl.
    destruct rest as [|k r]; [reflexivity|]. destruct k; simpl in F; try lia; reflexivity.
  Qed.

  Lemma lift_4_5 ts t rest :
    p_mr pe ts = POk (t, rest) -> notermatom ts -> p_term pe ts = POk (t, rest).
  Proof.
    intros H S. unfold p_term.
    destruct ts as [|k r]; [exact H|]. destruct k; simpl in S; try contradiction; exact H.
  Qed.

  Lemma lift_bin operand isop ts t rest :
    operand ts = POk (t, rest) -> noop isop rest -> binlevel operand isop ts = POk (t, rest).
  Proof. intros H N. unfold binlevel. rewrite H. simpl. apply binloop_stop. exact N. Qed.

  Lemma noop_pow rest : follow 6 rest -> noop pow_op rest.
  Proof. destruct rest as [|k r]; simpl; [tauto|]. destruct k; simpl; intros; try reflexivity; lia. Qed.
  Lemma noop_mul rest : follow 7 rest -> noop mul_op rest.
  Proof. destruct rest as [|k r]; simpl; [tauto|]. destruct k; simpl; intros; try reflexivity; lia. Qed.
  Lemma noop_add rest : follow 8 rest -> noop add_op rest.
  Proof. destruct rest as [|k r]; simpl; [tauto|]. destruct k; simpl; intros; try reflexivity; lia. Qed.

  Lemma lift_8_9 ts t rest :
    p_sum pe ts = POk (t, rest) -> follow 9 rest -> p_cmp pe ts = POk (t, rest).
  Proof.
    intros H F. unfold p_cmp. rewrite H. simpl.
    destruct rest as [|k r]; [reflexivity|]. destruct k; simpl in F; try lia; reflexivity.
  Qed.

  Lemma lift_9_10 ts t rest :
    p_cmp pe ts = POk (t, rest) -> follow 10 rest -> p_expr pe ts = POk (t, rest).
  Proof.
    intros H F. unfold p_expr. rewrite H. simpl.
    destruct rest as [|k r]; [reflexivity|]. destruct k; simpl in F; try lia; reflexivity.
  Qed.

  (* one step *)
  Lemma lift_step L ts t rest :
    p_level pe L ts = POk (t, rest) ->
    (L = 1 -> nosign ts) -> (L = 4 -> notermatom ts) -> follow (S L) rest ->
    p_level pe (S L) ts = POk (t, rest).
  Proof.
    intros H S1 S4 F.
    destruct L as [|[|[|[|[|[|[|[|[|[|L]]]]]]]]]]; simpl in *.
    - apply lift_0_1; assumption.
    - apply lift_1_2; auto.
    - apply lift_2_3; assumption.
    - apply lift_3_4; assumption.
    - apply lift_4_5; auto.
    - apply lift_bin; [assumption | apply noop_pow; assumption].
    - apply lift_bin; [assumption | apply noop_mul; assumption].
    - apply lift_bin; [assumption | apply noop_add; assumption].
    - apply lift_8_9; assumption.
    - apply lift_9_10; assumption.
    - exact H.
  Qed.

  (* any number of steps *)
  Lemma lift_up L L' ts t rest :
    L <= L' ->
    p_level pe L ts = POk (t, rest) ->
    (L <= 1 -> 2 <= L' -> nosign ts) -> (L <= 4 -> 5 <= L' -> notermatom ts) -> follow L' rest ->
    p_level pe L' ts = POk (t, rest).
  Proof.
    intros HL H S1 S4 F. induction HL as [|L' HL IH].
    - exact H.
    - apply lift_step.
      + apply IH; [intros; apply S1; lia | intros; apply S4; lia | apply (follow_mono _ (S L')); [lia | exact F]].
      + intros ->. apply S1; lia.
      + intros ->. apply S4; lia.
      + exact F.
  Qed.
End Lift.
