From Coq Require Import Arith Lia.
From Ka Require Import Model.Num Proofs.NumProofs Model.Qty Model.Comb Proofs.CombProofs Model.Exec GenFacts.InterpFacts.
Local Open Scope nat_scope.
Local Open Scope string_scope.

(* ---------- every class the modelled stages raise is caught and gives status 1 ---------- *)
Lemma all_diagnosed_spec cl f : all_diagnosed_1 cl f = true -> forall c, In c cl -> f c = Diagnosed "1".
Proof.
  unfold all_diagnosed_1. rewrite forallb_forall. intros H c I. specialize (H c I).
  destruct (f c) as [|s| |]; try discriminate.
  apply String.eqb_eq in H. subst s. reflexivity.
Qed.

Theorem lex_errors_diagnosed c : In c lex_classes -> classify_stage 0 c = Diagnosed "1".
Proof. apply all_diagnosed_spec. exact lex_ok_true. Qed.
Theorem parse_errors_diagnosed c : In c parse_classes -> classify_stage 1 c = Diagnosed "1".
Proof. apply all_diagnosed_spec. exact parse_ok_true. Qed.
Theorem eval_errors_diagnosed x : In x ka_eval_classes -> classify_eval (show_exn x) = Diagnosed "1".
Proof. intro I. apply (all_diagnosed_spec _ _ eval_ok_true). apply in_map. exact I. Qed.

Theorem host_errors_escape x : In x host_classes -> exists c, classify_eval (show_exn x) = Escaped c.
Proof.
  intro I. pose proof host_escape_true as H. unfold host_escape in H. rewrite forallb_forall in H.
  specialize (H x I). destruct (classify_eval (show_exn x)); try discriminate. eauto.
Qed.

(* running out of Python stack (the recursive-descent parser, the tree evaluator and the display all recurse on the
   input's nesting) is diagnosed at every stage that recurses; the lexer is a loop *)
Theorem stack_exhaustion_diagnosed :
  classify_stage 1 "RecursionError" = Diagnosed "1" /\ classify_eval "RecursionError" = Diagnosed "1"
  /\ classify_display "RecursionError" = Diagnosed "1".
Proof. repeat split; vm_compute; reflexivity. Qed.

(* ---------- which exceptions the modelled evaluators can raise ---------- *)
Lemma binop_raises o a b x : binop_eval o a b = Raise x ->
  x = ZeroDivisionError \/ x = KaRuntimeError \/ x = Unmodelled.
Proof.
  destruct o; cbn [binop_eval].
  - unfold n_add. destruct a, b; discriminate.
  - unfold n_sub. destruct a, b; discriminate.
  - unfold n_mul. destruct a, b; discriminate.
  - unfold n_div. destruct (Qis_zero (toQ b)); [|discriminate]. intro H; injection H as <-; auto.
  - unfold n_mod. destruct (Qis_zero (toQ b)); [intro H; injection H as <-; auto|]. destruct a, b; discriminate.
  - unfold n_pow. destruct b as [n|q|q].
    + destruct (is_flt a).
      * destruct (Qis_zero (toQ a) && (n <? 0)%Z); [intro H; injection H as <-; auto|discriminate].
      * destruct (0 <=? n)%Z; [discriminate|]. destruct a as [z|p|p]; try discriminate.
        destruct (z =? 0)%Z; [intro H; injection H as <-; auto|discriminate].
    + destruct (negb (is_integral (NFrac q)) && Qltb (toQ a) 0); intro H; injection H as <-; auto.
    + destruct (negb (is_integral (NFlt q)) && Qltb (toQ a) 0); intro H; injection H as <-; auto.
Qed.

Lemma unop_raises o a x : unop_eval o a = Raise x -> False.
Proof. destruct o; cbn [unop_eval]; try discriminate; destruct a; discriminate. Qed.

Theorem aeval_raises e x : aeval e = Raise x ->
  x = ZeroDivisionError \/ x = KaRuntimeError \/ x = Unmodelled.
Proof.
  induction e as [z|m k|o a IHa b IHb|o a IHa]; cbn [aeval]; try discriminate.
  - destruct (aeval a) as [va|xa]; [|intro H; injection H as <-; auto].
    destruct (aeval b) as [vb|xb]; [|intro H; injection H as <-; auto].
    apply binop_raises.
  - destruct (aeval a) as [va|xa]; [|intro H; injection H as <-; auto].
    intro H. exfalso. eapply unop_raises; eassumption.
Qed.

Definition in_diagnosed (x : exn) : Prop := In x ka_eval_classes.

Theorem aeval_outcome e : aeval e <> Raise Unmodelled -> acceptable (outcome_of (aeval e)).
Proof.
  intro NU. unfold outcome_of. destruct (aeval e) as [v|x] eqn:E; [left; reflexivity|].
  right. apply eval_errors_diagnosed.
  destruct (aeval_raises e x E) as [-> | [-> | ->]]; [cbn; auto|cbn; auto|congruence].
Qed.

(* lazy combinatorics: only a division by zero can be raised (uses the C05 theorem) *)
Lemma eager_raises e x : ceval_eager e = Raise x -> x = ZeroDivisionError.
Proof.
  induction e as [n|n k|z|a IHa b IHb|a IHa b IHb|a IHa b IHb|a IHa b IHb|c a IHa b IHb|o a IHa];
    cbn [ceval_eager]; try discriminate;
    try (destruct (ceval_eager a) as [va|xa]; [|intro H; injection H as <-; auto];
         destruct (ceval_eager b) as [vb|xb]; [|intro H; injection H as <-; auto]).
  - unfold n_mul. destruct va, vb; discriminate.
  - unfold n_div. destruct (Qis_zero (toQ vb)); [intro H; injection H as <-; auto|discriminate].
  - unfold n_add. destruct va, vb; discriminate.
  - unfold n_sub. destruct va, vb; discriminate.
  - destruct c; discriminate.
  - destruct (ceval_eager a) as [va|xa]; [|intro H; injection H as <-; auto].
    intro H. exfalso. eapply unop_raises; eassumption.
Qed.

Theorem ceval_outcome e : acceptable (outcome_of (ceval_top e)).
Proof.
  rewrite lazy_equals_eager. unfold outcome_of. destruct (ceval_eager e) as [v|x] eqn:E; [left; reflexivity|].
  right. rewrite (eager_raises e x E). apply eval_errors_diagnosed. cbn; auto.
Qed.

(* quantities *)
Lemma numop_raises o a b x : qop_num o a b = Raise x -> x = ZeroDivisionError.
Proof.
  destruct o; cbn [qop_num].
  - unfold n_add. destruct a, b; discriminate.
  - unfold n_sub. destruct a, b; discriminate.
  - unfold n_mul. destruct a, b; discriminate.
  - unfold n_div. destruct (Qis_zero (toQ b)); [intro H; injection H as <-; auto|discriminate].
Qed.

Definition qty_raisable (x : exn) : Prop :=
  x = ZeroDivisionError \/ x = KaRuntimeError \/ x = Unmodelled \/ x = EvalError \/ x = IncompatibleQuantitiesError.

Lemma compose_loop_raises n specs : forall qv m o x,
  compose_loop n specs qv m o = Raise x -> qty_raisable x.
Proof.
  induction specs as [|[u e] rest IH]; intros qv m o x; cbn [compose_loop]; [discriminate|].
  destruct (num_is_one (um u)).
  - destruct (negb (num_is_zero (uo u)) && (1 <? Z.of_nat n)%Z); [intro H; injection H as <-; unfold qty_raisable; auto|].
    destruct (negb (num_is_zero (uo u)) && negb (e =? 1)%Z); [intro H; injection H as <-; unfold qty_raisable; auto|].
    apply IH.
  - destruct (n_pow (um u) (NInt e)) as [p|xp] eqn:P.
    + destruct (n_mul m p) as [m1|xm] eqn:M; [|unfold n_mul in M; destruct m, p; discriminate].
      destruct (negb (num_is_zero (uo u)) && (1 <? Z.of_nat n)%Z); [intro H; injection H as <-; unfold qty_raisable; auto|].
      destruct (negb (num_is_zero (uo u)) && negb (e =? 1)%Z); [intro H; injection H as <-; unfold qty_raisable; auto|].
      apply IH.
    + intro H; injection H as <-.
      destruct (binop_raises Pow (um u) (NInt e) xp P) as [-> | [-> | ->]]; unfold qty_raisable; auto.
Qed.

Theorem qeval_raises n e x : qeval n e = Raise x -> qty_raisable x.
Proof.
  revert x. induction e as [a|e IH s|o a IHa b IHb|c a IHa b IHb|e IH s|e IH]; intro x; cbn [qeval].
  - destruct (aeval a) as [v|xa] eqn:E; [discriminate|]. intro H; injection H as <-.
    destruct (aeval_raises a xa E) as [-> | [-> | ->]]; unfold qty_raisable; auto.
  - destruct (qeval n e) as [v|xe]; [|intro H; injection H as <-; apply IH; reflexivity].
    unfold make_quantity. destruct v as [mag|]; [|intro H; injection H as <-; unfold qty_raisable; auto].
    unfold compose_units. destruct (compose_loop _ _ _ _ _) as [[[qv m] o]|xc] eqn:Cl.
    + destruct (n_mul m mag) as [t|xt] eqn:M; [|unfold n_mul in M; destruct m, mag; discriminate].
      destruct (n_add t o) as [r|xr] eqn:A; [discriminate|unfold n_add in A; destruct t, o; discriminate].
    + intro H; injection H as <-. eapply compose_loop_raises; eassumption.
  - destruct (qeval n a) as [va|xa]; [|intro H; injection H as <-; apply IHa; reflexivity].
    destruct (qeval n b) as [vb|xb]; [|intro H; injection H as <-; apply IHb; reflexivity].
    unfold q_binop. destruct (negb (is_q va) && negb (is_q vb)).
    + destruct va, vb; try (intro H; injection H as <-; unfold qty_raisable; auto; fail).
      destruct (qop_num o n0 n1) as [r|xr] eqn:Q; [discriminate|]. intro H; injection H as <-.
      rewrite (numop_raises _ _ _ _ Q). unfold qty_raisable; auto.
    + destruct (lift_q n va) as [m1 d1], (lift_q n vb) as [m2 d2]. destruct o.
      * destruct (negb (veqb d1 d2)); [intro H; injection H as <-; unfold qty_raisable; auto|].
        destruct (qop_num QAdd m1 m2) as [r|xr] eqn:Q; [discriminate|]. intro H; injection H as <-.
        rewrite (numop_raises _ _ _ _ Q). unfold qty_raisable; auto.
      * destruct (negb (veqb d1 d2)); [intro H; injection H as <-; unfold qty_raisable; auto|].
        destruct (qop_num QSub m1 m2) as [r|xr] eqn:Q; [discriminate|]. intro H; injection H as <-.
        rewrite (numop_raises _ _ _ _ Q). unfold qty_raisable; auto.
      * destruct (n_mul m1 m2) as [r|xr] eqn:Q; [discriminate|unfold n_mul in Q; destruct m1, m2; discriminate].
      * destruct (n_div m1 m2) as [r|xr] eqn:Q; [discriminate|]. intro H; injection H as <-.
        rewrite (numop_raises QDiv _ _ _ Q). unfold qty_raisable; auto.
  - assert (QC : forall c' va vb x', q_cmp n c' va vb = Raise x' -> qty_raisable x').
    { intros c' va vb x'. unfold q_cmp. destruct (negb (is_q va) && negb (is_q vb)).
      + destruct va, vb; try (intro H; injection H as <-; unfold qty_raisable; auto; fail).
        destruct c'; discriminate.
      + destruct (lift_q n va) as [m1 d1], (lift_q n vb) as [m2 d2].
        destruct (negb (veqb d1 d2)); [intro H; injection H as <-; unfold qty_raisable; auto|].
        destruct c'; discriminate. }
    destruct (swapped c).
    + destruct (qeval n b) as [vb|xb]; [|intro H; injection H as <-; apply IHb; reflexivity].
      destruct (qeval n a) as [va|xa]; [|intro H; injection H as <-; apply IHa; reflexivity].
      apply QC.
    + destruct (qeval n a) as [va|xa]; [|intro H; injection H as <-; apply IHa; reflexivity].
      destruct (qeval n b) as [vb|xb]; [|intro H; injection H as <-; apply IHb; reflexivity].
      apply QC.
  - destruct (qeval n e) as [v|xe]; [|intro H; injection H as <-; apply IH; reflexivity].
    unfold convert_quantity, compose_units. destruct (compose_loop _ _ _ _ _) as [[[qv m] o]|xc] eqn:Cl.
    + destruct v as [y|mag d]; [intro H; injection H as <-; unfold qty_raisable; auto|].
      destruct (negb (veqb qv d)); [intro H; injection H as <-; unfold qty_raisable; auto|].
      destruct (n_sub mag o) as [t|xt] eqn:S; [|unfold n_sub in S; destruct mag, o; discriminate].
      destruct (n_div t m) as [r|xr] eqn:Q; [discriminate|]. intro H; injection H as <-.
      rewrite (numop_raises QDiv _ _ _ Q). unfold qty_raisable; auto.
    + intro H; injection H as <-. eapply compose_loop_raises; eassumption.
  - destruct (qeval n e) as [v|xe]; [|intro H; injection H as <-; apply IH; reflexivity].
    unfold q_neg. destruct v as [y|m d].
    + destruct (n_neg y) eqn:N; [discriminate|destruct y; discriminate].
    + destruct (n_neg m) eqn:N; [discriminate|destruct m; discriminate].
Qed.

Theorem qeval_outcome n e : qeval n e <> Raise Unmodelled -> acceptable (outcome_of (qeval n e)).
Proof.
  intro NU. unfold outcome_of. destruct (qeval n e) as [v|x] eqn:E; [left; reflexivity|].
  right. apply eval_errors_diagnosed.
  destruct (qeval_raises n e x E) as [->|[->|[-> | [-> | ->]]]]; cbn; auto 12. congruence.
Qed.

(* ---------- error(): the caret lies under the context line ---------- *)
Theorem caret_inside ctx ind len index : 0 < len -> index <= len ->
  let L := layout ctx ind len index in
  e_low L <= index /\ index <= e_high L /\ e_high L <= len
  /\ ind + e_left_fade L <= e_caret_col L
  /\ e_caret_col L <= ind + e_left_fade L + (e_high L - e_low L)
  /\ (index < len -> e_caret_col L < ind + e_left_fade L + (e_high L - e_low L))
  /\ e_line_len L = ind + e_left_fade L + (e_high L - e_low L) + e_right_fade L.
Proof.
  intros Hl Hi. unfold layout. cbn [e_low e_high e_left_fade e_right_fade e_caret_col e_line_len].
  repeat split; try lia.
Qed.

Theorem parse_index_inside ntok begin_of end_of ti len :
  (forall k, k < ntok -> begin_of k <= len /\ end_of k <= len) ->
  parse_error_char_index ntok begin_of end_of ti <= len.
Proof.
  intro B. unfold parse_error_char_index.
  destruct (Nat.eqb_spec ntok 0); [lia|]. destruct (Nat.leb_spec ntok ti).
  - apply B. lia.
  - apply B. lia.
Qed.

(* ---------- `%` commands: the dispatcher is total and selects only table entries ---------- *)
Theorem run_cmd_total words :
  run_cmd words = CmdUnknown
  \/ (exists e g, run_cmd words = CmdArity e g)
  \/ (exists impl args, run_cmd words = CmdRun impl args /\ mem_str impl known_impls = true /\ List.length args <= 1).
Proof.
  unfold run_cmd. set (name := match words with [] => "" | w :: _ => w end).
  set (args := match words with [] => [] | _ :: a => a end).
  destruct (find_cmd name commands) as [[nargs impl]|] eqn:F; [|left; reflexivity].
  destruct (Nat.eqb_spec nargs (List.length args)) as [E|E]; [|right; left; eauto].
  right; right. exists impl, args. split; [reflexivity|].
  pose proof commands_known as K. rewrite forallb_forall in K.
  assert (I : exists names, In (names, nargs, impl) commands).
  { clear -F. induction commands as [|[[names n0] i0] r IH]; cbn in F; [discriminate|].
    destruct (mem_str name names).
    - injection F as -> ->. exists names. left; reflexivity.
    - destruct (IH F) as (nm & Hn). exists nm. right; exact Hn. }
  destruct I as (names & I). specialize (K _ I). cbn [fst snd] in K.
  apply andb_true_iff in K. destruct K as [K1 K2]. apply Nat.leb_le in K2. split; [exact K1|lia].
Qed.
